"""C06 — print and equity output re-reads to an equivalent journal.

Theorems: lean/LedgerModel/Props/C06.lean over Model/Print.lean (mirror of
print.cc print_xact / post_has_simple_amount / format_account_name / print_note,
the part of textual.cc parse_xact / parse_post that reads that text back, and
filters.cc posts_as_equity).  The amount and date text layers are parameters of
the model (AmtCodec / DateCodec, hypotheses in `…​.Lawful`).

Tie: (a) tools/extract_print.py pins the bodies of those functions and the
default widths into Gen/Print.lean (`C06.print_fns_pinned`, `C06.layout_pinned`);
(b) this check runs, on the same generated journals,
  print.journal  model text of `ledger print`         == P   byte for byte
  print.reparse  model reader on the model text        == what ledger reads from P (reg rows)
  print.equity   model text of `ledger equity`         == E   byte for byte
Oracle on the implementation (plain Python / Fractions, independent of the Lean
model), for every generated journal J:
  P = `ledger -f J print`
  (2) the reg rows of P equal the reg rows of J (dates, aux date, states, code,
      payee, account + virtual brackets, exact amount with lot details, exact
      cost, notes, tags) - exactly, except amounts of postings computed from a
      balance assignment (to display precision);
  (3) `ledger -f P print` == P byte for byte;
  (4) E = `ledger -f J equity`; the exact per-account per-commodity sums of
      E's postings equal those of J (every account except Equity:Opening Balances).
A failure is localised (fingerprint = the print.cc / filters.cc site), shrunk to
one transaction where possible, and reported with a replay.
"""
import os, re, sys, json, copy, tempfile, shutil, datetime
from fractions import Fraction
import vflib, jgen
from vflib import Check
from jgen import Commodity

MANIFEST = dict(
    text="Machine-checked proof (Lean 4) over a model of print_xact / post_has_simple_amount / format_account_name / print_note "
         "(print.cc), of the reader for exactly that text (textual.cc parse_xact / parse_post) and of posts_as_equity (filters.cc), "
         "for every finalised transaction, every width setting and both forms (pinned / repaired) of three statements of print.cc: "
         "re-reading the printed lines yields norm(x) (C06.parse_render), which differs from x only in layout (C06.norm_header, "
         "C06.norm_posting, C06.norm_posts); printing norm(x) reproduces the text byte for byte unless print wrote padding after an "
         "elided amount (C06.render_fixpoint_partial, C06.print_read_print; C06.render_fixpoint for the repaired padding rule); the "
         "reconstructed per-unit price (unit*q)/q is exactly the written one and @@ totals are printed as given "
         "(C06.per_unit_cost_exact, C06.cost_preserved); an elided second amount is re-inferred as the exact negation in the same "
         "commodity when both postings must balance (C06.elide_second_amount_sound_partial; C06.elide_second_amount_sound for the "
         "repaired rule); state marks survive when the posting's state equals the transaction's or the transaction is uncleared "
         "(C06.state_marks_partial; C06.state_marks for the repaired rule); the equity transaction carries, per account and "
         "commodity, exactly the sum of the journal's postings (C06.equity_reproduces_balances, a fold identity with no size bound) "
         "and keeps it through print | re-read when the balances are display-exact (C06.equity_through_text_partial). Three of the "
         "defects found were repaired in /repo (state mark f798b3e, elision guard bf17db1, trailing pad affa0b1): the extractor now "
         "reads the repaired forms, which are proof obligations (C06.source_marks_when_state_differs, "
         "C06.source_elision_checks_must_balance, C06.source_pads_only_with_amount), and the FULL statements hold for the current "
         "source (C06.state_marks_source, C06.elide_second_amount_sound_source, C06.render_fixpoint_source). Where the pinned "
         "code violates the full statement (posting state dropped under a cleared transaction; second amount elided between "
         "(virtual) postings; blanks written after an elided amount on a long account; equity rounds to display precision) the full "
         "statement is kept as a Prop, refuted on a concrete witness (…_counterexample, …_source_counterexample under the flag "
         "re-extracted from print.cc) and proved under an explicit decidable guard. The mirrored function bodies, the default widths "
         "(36, 12, 80) and the form of the three statements are re-extracted from the source on every run and compared with a "
         "pinned copy; the model's text is compared byte for byte with `ledger print` / `ledger equity`, the model's reader with what "
         "ledger reads from the printed text, the theorems' hypotheses and conclusions are evaluated on every case by the driver; an "
         "independent oracle on ledger's own outputs (print | reg, print | print, equity | sums) supplies the failing input.",
    note="LEVEL: proof for the header / posting / state / amount-column / cost / elision layer; PARTIAL for free text: payee, account, "
         "code and note text are opaque strings and the theorems assume an explicit decidable well-formedness predicate (xactOk: no TAB, "
         "no two consecutive blanks, no leading/trailing blank, accounts not starting with ( [ < * ! ; , payee not starting with * ! ( ; , "
         "codes without ')', note lines after the first non-empty and without trailing blanks); that ledger's reader splits such text "
         "where the model does is established by the correspondence runs only (incl. non-ASCII and punctuated text). The amount and "
         "date text layers are PARAMETERS (AmtCodec / DateCodec): the round trip of an amount's text (C04) and of a date's text (C14) "
         "are hypotheses (`Lawful`: read(show a) = disp a on the codec's domain, texts free of ; @ = TAB and of leading/trailing "
         "blanks). They are DISCHARGED for ledger's own text layers as modelled by C04 and C14 (Lemmas/PrintInst.lean: ledgerCodec = "
         "AmountText.printAmount / parseAmount + DateParse.formatDate / parseDate is Lawful, from C04's print_parse round trip and "
         "C14.format_parse; C06.parse_render_ledger, C06.render_fixpoint_ledger_partial) on an explicit decidable domain (symbol "
         "admitted by C04's SymOK, number within parse_quantity's buffer, printed text free of ; @ =, no negative display-zero, costs "
         "with a finite expansion, years 1400..9999). The driver renders with its own small executable codec (compared with ledger "
         "byte for byte on every case), not with C04's functions; a second lawful instance (Lemmas/PrintToy.lean) serves the "
         "counterexamples. Outside the model (run on the binary only): lot annotations, virtual costs (@), amount expressions, generated "
         "postings, non-note metadata, lot annotations without a price ([date]- or (note)-only: finalize itself overwrites them in an "
         "implicit exchange), zero amounts (printed as a bare 0; an all-zero transaction is omitted by print), empty `;` "
         "lines inside notes (dropped by print_note), --date-format/--columns options.",
    technique="Lean 4 proof (string-level round trip of a printer/reader pair, fold identity for equity) + pinned source text and "
              "recognised statement forms + byte-level differential model/binary check + implementation-side oracle",
    ref="DESIGN.md §5 C06")

EPOCH = datetime.date(1970, 1, 1)
US, RS, GS = "\x1f", "\x1e", "\x1d"

COMMS = [Commodity("$", 2, prefix=True, space=False, thousands=True), Commodity("EUR", 2), Commodity("AAA", 0),
         Commodity("BTC", 8), Commodity("£", 2, prefix=True, space=False), Commodity("XY", 4, thousands=True),
         Commodity("A1", 1), Commodity("kg", 3, space=False), Commodity("€", 2, prefix=True, space=True),
         Commodity("M&M", 0)]
CM = {c.name: c for c in COMMS}

ACCOUNTS = ["Assets:Bank:Checking", "Assets:Bank:Savings", "Assets:Cash", "Expenses:Food", "Expenses:Food:Out",
            "Expenses:Rent", "Income:Salary", "Liabilities:Card", "Equity:Opening"]
ODD_ACCOUNTS = ["Dépenses:Café", "Assets:My Bank:Checking 2", "Expenses:Food & Drink", "Assets:Bank (joint)",
                "Liabilities:Visa-1234", "Активы:Наличные", "資産:現金", "Expenses:50% off", "A", "Assets:x;y",
                "Expenses:Very Long Category Name:With A Long Sub Category:And More", "Income:2020", "Assets:a=b",
                "Expenses:What?!", "Assets:Broker:Lot{1}", "Expenses:T@x", "Assets:Under_score:dot.dot", "E:'quoted'",
                "Assets:Thirty-five chars account name", "Assets:Thirty-six chars account name1",
                "Assets:Thirty-four chars account nam"]
PAYEES = ["payee %d" % i for i in range(1, 13)]
ODD_PAYEES = ["Café Zoë", "Smith & Sons, Inc.", "100% Organic", "a ;b", "Müller GmbH (Berlin)", "3M", "x=y", "Tom's *best*",
              "ACME; Ltd", "日本語の店", "payee with a rather long name that goes on and on and on for quite a while, really",
              "@home", "a - b", "p", "[bracket] shop", "#hash", "Dr. No!", "what? (really)", "semi;colon", "tab-less  two"]
CODES = ["c12", "#1001", "A-1 B", "1", "chk 77", "é", "x(y", "[z]", "*", ";"]
NOTE_WORDS = [" n%d" % i for i in range(1, 40)] + [" a longer note with several words", " ünïcode nöte", "no leading blank",
                                                    " :tag1:", " :tag1:tag2:", " Key: value", " Ref: 42 ; x", " Key: other value",
                                                    " [2019/12/31]", " semi ; colon ; inside", "  two leading blanks", " x",
                                                    " ends with colon:", " a=b @ c", ""]
LONG_NOTE = " this is a very long note that will certainly not fit into the eighty columns that print allows for one line"


# ---------------------------------------------------------------- journal text (J)


def render_note_lines(head, note_lines, note_next, rng_style):
    """[lines] for an item whose first physical line is `head`."""
    if not note_lines:
        return [head]
    if note_next:
        return [head] + ["    ;" + l for l in note_lines]
    sep = ["  ;", "\t;", "   ;", " \t ;"][rng_style % 4]
    return [head + sep + note_lines[0]] + ["    ;" + l for l in note_lines[1:]]


def render_post(p, style):
    acct = p["account"]
    if p["kind"] == "virtual":
        acct = "(" + acct + ")"
    elif p["kind"] == "bvirtual":
        acct = "[" + acct + "]"
    st = {0: "", 1: ["* ", "*", "*  "][style % 3], 2: ["! ", "!", "!\t"][style % 3]}[p.get("wstate", p["state"])]
    indent = ["    ", "  ", "\t", " "][style % 4]
    s = indent + st + acct
    gap = ["  ", "   ", "\t", "      ", " \t"][style % 5]
    if p["amount"] is not None:
        s += gap + jgen.render_amount(p["amount"], COMMS)
        if p["cost"]:
            s += (" @ " if p["cost"]["per_unit"] else " @@ ") + jgen.render_amount(p["cost"], COMMS)
        if p.get("assert") is not None:
            s += " = " + jgen.render_amount(p["assert"], COMMS)
    elif p.get("assert") is not None:
        s += gap + "= " + jgen.render_amount(p["assert"], COMMS)
    return render_note_lines(s, p.get("note_lines") or [], p.get("note_next", False), style // 5)


def render_xact(x):
    style = x.get("style", 0)
    sep = "/" if style % 2 == 0 else "-"
    head = jgen.date_text(x["date"], sep)
    if x.get("aux") is not None:
        head += "=" + jgen.date_text(x["aux"], sep)
    if x["state"]:
        head += " " + {1: "*", 2: "!"}[x["state"]]
    if x["code"]:
        head += " (" + x["code"] + ")"
    head += " " + x["payee"]
    out = render_note_lines(head, x.get("note_lines") or [], x.get("note_next", False), style // 2)
    for k, p in enumerate(x["posts"]):
        out += render_post(p, style + k)
    return out


def render_journal(j):
    if "text" in j:
        return j["text"]
    out = []
    for x in j["xacts"]:
        out += render_xact(x)
        out.append("")
    return "\n".join(out) + "\n"


def model_ast(j):
    """what the driver gets: the AST with the effective note flag (a note that
    continues on later lines carries ITEM_NOTE_ON_NEXT_LINE)."""
    m = copy.deepcopy(j)
    for x in m["xacts"]:
        for it in [x] + x["posts"]:
            nl = it.get("note_lines") or []
            it["note_lines"] = nl
            it["note_next"] = bool(it.get("note_next", False) or len(nl) >= 2)
            it.pop("style", None)
        for p in x["posts"]:
            # the state the reader sees written on the posting
            p["state"] = p.get("wstate", p["state"])
    m["comms"] = [{"name": c.name, "prefix": c.prefix, "space": c.space, "thousands": c.thousands, "quoted": c.needs_quotes()}
                  for c in COMMS]
    return m


# ---------------------------------------------------------------- generator


def strip_zeros(a):
    """write the amount with fewer decimals when its trailing decimals are zero."""
    q = jgen.amt_q(a)
    p = a["prec"]
    while p > 0 and (q * 10 ** (p - 1)).denominator == 1:
        p -= 1
    a["prec"] = p


def gen_note(rng, odd):
    r = rng.random()
    pool = NOTE_WORDS if odd else NOTE_WORDS[:39] + [" :tag1:", " Key: value"]
    if r < 0.55:
        lines = [rng.choice(pool)]
    elif r < 0.85:
        lines = [rng.choice(pool) for _ in range(rng.randint(2, 4))]
    elif r < 0.93:
        lines = [LONG_NOTE[:rng.randint(20, len(LONG_NOTE))]]
    else:
        lines = [rng.choice(pool), LONG_NOTE[:rng.randint(30, len(LONG_NOTE))]]
    # lines after the first are never empty here (see empty-note-line stream)
    lines = [l.rstrip() for l in lines]
    lines = [lines[0]] + [l if l else " e" for l in lines[1:]]
    return lines, rng.random() < 0.3


def decorate(rng, x, odd=False, p_note=0.3, p_pstate=0.25, p_pnote=0.2):
    x["style"] = rng.randrange(1000)
    if rng.random() < 0.25:
        x["aux"] = x["date"] + rng.randint(-10, 20)
    if rng.random() < 0.3:
        x["code"] = rng.choice(CODES[:5] if not odd else CODES[:8])
    if odd and rng.random() < 0.7:
        x["payee"] = rng.choice(ODD_PAYEES[:-1])
    x["note"] = ""
    if rng.random() < p_note:
        x["note_lines"], x["note_next"] = gen_note(rng, odd)
        # a [date] tag in a TRANSACTION note resets the transaction's date (item_t::parse_tags); kept for posting notes only
        x["note_lines"] = [l if "[20" not in l else " dated" for l in x["note_lines"]]
    for p in x["posts"]:
        p["note"] = ""
        if odd and rng.random() < 0.5:
            p["account"] = rng.choice(ODD_ACCOUNTS)
        if rng.random() < p_pnote:
            p["note_lines"], p["note_next"] = gen_note(rng, odd)
        # states: written state on the posting; effective state = inherited when nothing is written
        if rng.random() < p_pstate:
            p["wstate"] = rng.choice([1, 2])
        else:
            p["wstate"] = 0
        p["state"] = p["wstate"] if (p["wstate"] or not x["state"]) else x["state"]
        if p["amount"] is not None and rng.random() < 0.15:
            strip_zeros(p["amount"])
        if p["cost"] is not None and rng.random() < 0.3:
            strip_zeros(p["cost"])
    return x


def fix_kinds(rng, j):
    """give every account one kind (so that `equity` accepts the journal)."""
    kinds = {}
    for x in j["xacts"]:
        for p in x["posts"]:
            k = kinds.setdefault(p["account"], p["kind"])
            if k != p["kind"]:
                # keep the transaction balanced: only switch between real and bvirtual freely;
                # a (virtual) posting moved to a must-balance kind would unbalance it, so rename the account instead
                if (k == "virtual") != (p["kind"] == "virtual"):
                    p["account"] = p["account"] + (":V" if p["kind"] == "virtual" else ":R")
                    kinds.setdefault(p["account"], p["kind"])
                else:
                    p["kind"] = k


def gen_journal(rng, n=None, odd=False, consistent=None, comms=None):
    comms = comms or rng.sample(COMMS, rng.randint(1, 4))
    g = jgen.Gen(rng, comms=comms, accounts=ACCOUNTS, p_cost=0.25, p_virtual=0.12, p_bvirtual=0.1, p_elide=0.5,
                 p_state=0.35, max_posts=rng.choice([2, 2, 3, 5]), magnitudes=[10, 1000, 10 ** 6])
    n = n or rng.choice([1, 2, 3, 5, 8])
    xs = [decorate(rng, g.xact(), odd=odd) for _ in range(n)]
    xs.sort(key=lambda x: x["date"])
    j = {"xacts": xs}
    if consistent if consistent is not None else rng.random() < 0.6:
        fix_kinds(rng, j)
    return j


def mk_amt(q, cname, dec=None):
    return jgen.amt(Fraction(q), CM[cname], dec)


def mk_post(account, q=None, c="$", kind="real", state=0, cost=None, per_unit=True, cc="EUR", dec=None, cdec=None,
            note_lines=None, note_next=False, assert_=None, computed=None):
    p = {"account": account, "kind": kind, "state": state, "wstate": state,
         "amount": None if q is None else mk_amt(q, c, dec), "cost": None, "assert": None, "note": ""}
    if cost is not None:
        p["cost"] = dict(mk_amt(cost, cc, cdec), per_unit=per_unit)
    if assert_ is not None:
        p["assert"] = mk_amt(assert_[0], assert_[1], assert_[2] if len(assert_) > 2 else None)
    if computed is not None:
        p["computed"] = mk_amt(computed[0], computed[1], 12)
    if note_lines is not None:
        p["note_lines"], p["note_next"] = note_lines, note_next
    return p


def mk_xact(day, payee, posts, state=0, code="", aux=None, note_lines=None, note_next=False, style=0):
    x = {"date": jgen.day_of(2020, 1, 1) + day, "aux": aux, "state": state, "code": code, "payee": payee, "note": "",
         "posts": posts, "style": style}
    if note_lines is not None:
        x["note_lines"], x["note_next"] = note_lines, note_next
    for p in posts:
        if state and not p["wstate"]:
            p["state"] = state
    return x


def fixed_cases():
    """hand-picked journals at the edges of every branch of print_xact / print_note / the reader."""
    P, X = mk_post, mk_xact
    cs = []
    # state marks: every (transaction state, written posting state)
    for xs in (0, 1, 2):
        for ps in (0, 1, 2):
            cs.append({"xacts": [X(0, "p", [P("A", "1.00", state=ps), P("B", "-1.00")], state=xs)]})
            cs.append({"xacts": [X(0, "p", [P("A", "1.00", state=ps), P("B", "-2.00"), P("C", "1.00", state=3 - ps if ps else 0)], state=xs)]})
    # elision rule: every pair of kinds, same / different commodity, with cost / assertion
    for k1 in ("real", "virtual", "bvirtual"):
        for k2 in ("real", "virtual", "bvirtual"):
            ok = (k1 == "virtual") == (k2 == "virtual")
            q2 = "-10.00" if ok and k1 != "virtual" else "5.00"
            if ok:
                cs.append({"xacts": [X(0, "kinds", [P("A", "10.00", kind=k1), P("B", q2, kind=k2)])]})
    cs.append({"xacts": [X(0, "two comm", [P("A", "10.00", c="$"), P("B", "-9.00", c="EUR")])]})
    cs.append({"xacts": [X(0, "cost1", [P("A", "10", c="AAA", cost="1.50", cc="$"), P("B", "-15.00", c="$")])]})
    cs.append({"xacts": [X(0, "cost2", [P("B", "-15.00", c="$"), P("A", "10", c="AAA", cost="15.00", cc="$", per_unit=False)])]})
    cs.append({"xacts": [X(0, "neg cost", [P("A", "-10", c="AAA", cost="1.5", cc="$", cdec=1), P("B", "15.00", c="$")]),
                         X(1, "neg total", [P("A", "-10", c="AAA", cost="15.00", cc="$", per_unit=False), P("B")])]})
    cs.append({"xacts": [X(0, "cost digits", [P("A", "3.33", c="EUR", cost="1.2345", cc="$", cdec=4), P("B")]),
                         X(1, "later", [P("C", "1.00"), P("D", "-1.00")])]})
    cs.append({"xacts": [X(0, "cost only commodity", [P("A", "3", c="AAA", cost="1.5", cc="EUR", cdec=1), P("B")])]})
    cs.append({"xacts": [X(0, "three", [P("A", "1.00"), P("B", "2.00"), P("C", "-3.00")])]})
    cs.append({"xacts": [X(0, "one", [P("A", "1.00", kind="virtual")])]})
    cs.append({"xacts": [X(0, "elided first", [P("A"), P("B", "-1.00")])]})
    cs.append({"xacts": [X(0, "multi", [P("A", "1.00"), P("B", "5", c="AAA"), P("C")])]})
    # account width boundaries: name lengths 34, 35, 36, 37 with and without elision, state marks and brackets
    for n in (33, 34, 35, 36, 37, 50):
        name = ("Assets:" + "x" * 60)[:n]
        cs.append({"xacts": [X(0, "w%d" % n, [P("A", "1.00"), P(name, "-1.00")])]})
        cs.append({"xacts": [X(0, "w%d" % n, [P(name, "1.00"), P("B", "-1.00")])]})
        cs.append({"xacts": [X(0, "w%d" % n, [P(name, "1.00", state=1), P("B", "-2.00", kind="bvirtual"), P("C", "1.00")])]})
        cs.append({"xacts": [X(0, "w%d" % n, [P(name, "1.00", kind="virtual"), P("A", "1.00"), P("B")])]})
    # amount width boundaries: 10, 11, 12, 13 characters
    for q in ("1234567.00", "12345678.00", "123456789.00", "1234567890.00"):
        cs.append({"xacts": [X(0, "aw", [P("A", q), P("B", "-1.00"), P("C")])]})
        cs.append({"xacts": [X(0, "aw", [P("Assets:" + "y" * 29, q), P("B", "-1.00"), P("C")])]})
    # note placement: same line / next line, the 80 column rule around the boundary, xact and posting notes
    for ln in (30, 36, 37, 38, 39, 60):
        note = " " + "n" * (ln - 1)
        cs.append({"xacts": [X(0, "np", [P("A", "1.00", note_lines=[note]), P("B", "-1.00")])]})
        cs.append({"xacts": [X(0, "np", [P("A", "1.00"), P("B", note_lines=[note])])]})
    for ln in (60, 64, 65, 66, 67, 68, 90):
        note = " " + "m" * (ln - 1)
        cs.append({"xacts": [X(0, "hp", [P("A", "1.00"), P("B", "-1.00")], note_lines=[note])]})
        cs.append({"xacts": [X(0, "hp é", [P("A", "1.00"), P("B", "-1.00")], note_lines=[note[:-1] + "é"])]})
    cs.append({"xacts": [X(0, "notes", [P("A", "1.00", note_lines=[" a", " b", " c"]), P("B", "-1.00", note_lines=[" only"], note_next=True)],
                           note_lines=[" x1", " :tag1:", " Key: value"])]})
    cs.append({"xacts": [X(0, "notes2", [P("A", "1.00", note_lines=["", " b"]), P("B", "-1.00", note_lines=[""])],
                           note_lines=[""])]})
    cs.append({"xacts": [X(0, "code", [P("A", "1.00"), P("B")], code="c 1", aux=jgen.day_of(2020, 1, 1) - 3, state=2,
                           note_lines=[" hn"])]})
    # display precision > written precision; thousands marks learned / not learned
    cs.append({"xacts": [X(0, "prec", [P("A", "1.5", dec=1), P("B", "-1.5", dec=1)]), X(1, "prec2", [P("A", "2.25"), P("B")])]})
    cs.append({"xacts": [X(0, "thou", [P("A", "999.00"), P("B")]), X(1, "thou2", [P("A", "12", c="AAA", cost="1000.00", cc="$"), P("B")])]})
    cs.append({"xacts": [X(0, "thou", [P("A", "1000.00"), P("B")]), X(1, "thou2", [P("A", "1234567.8901", c="XY"), P("B")])]})
    # balance assignment: computed amount printed, exact and with more decimals than the display precision
    cs.append({"xacts": [X(0, "open", [P("Assets:Asg", "11.00"), P("E", "-11.00")]),
                         X(1, "assign", [P("Assets:Asg", None, assert_=("50.00", "$"), computed=("39.00", "$")), P("E")])]})
    cs.append({"xacts": [X(0, "fine", [P("X", "3", c="AAA", cost="0.333", cc="$", cdec=3), P("Assets:Asg")]),
                         X(1, "two dec", [P("Q", "1.00"), P("R", "-1.00")]),
                         X(2, "assign", [P("Assets:Asg", None, assert_=("5.00", "$"), computed=("5.999", "$")), P("E")])]})
    # equity: balance with more decimals than the display precision; virtual-only accounts; two postings only
    cs.append({"xacts": [X(0, "x", [P("A", "3.33", c="EUR", cost="1.2345", cc="$", cdec=4), P("B")]),
                         X(1, "y", [P("C", "1.00"), P("D", "-1.00")])]})
    cs.append({"xacts": [X(0, "v", [P("V", "5.00", kind="virtual")]), X(1, "w", [P("W", "3.00", kind="virtual")])]})
    cs.append({"xacts": [X(0, "v", [P("V", "5.00", kind="virtual")])]})
    cs.append({"xacts": [X(0, "bv", [P("V", "5.00", kind="bvirtual"), P("W", "-5.00", kind="bvirtual")])]})
    # zero-sum account in equity
    cs.append({"xacts": [X(0, "a", [P("A", "5.00"), P("B", "-5.00")]), X(1, "b", [P("A", "-5.00"), P("C", "5.00")])]})
    return [copy.deepcopy(c) for c in cs]


def assignment_cases(rng, n):
    """balance assignments `Acct  = TARGET` whose amount ledger computes: exactly representable, and (every third case)
    with more decimals than the display precision because an earlier elided amount came from a 3-decimal price."""
    cs = []
    for k in range(n):
        c = rng.choice(["$", "EUR", "XY"])
        dec = CM[c].dec
        acct = "Assets:Assigned %d" % rng.randint(1, 3)
        xs = []
        total = Fraction(0)
        day = 0
        for _ in range(rng.randint(0, 3)):
            q = Fraction(rng.randint(-50000, 50000), 10 ** dec)
            if q == 0:
                continue
            total += q
            day += rng.randint(0, 9)
            xs.append(mk_xact(day, "payee %d" % rng.randint(1, 12), [mk_post(acct, q, c), mk_post("Equity:Adj")]))
        if k % 3 == 0:
            # an elided amount with dec+1 decimals: n AAA @ price (dec+1 decimals, last digit not 5) against the account
            n_units = rng.choice([1, 3, 7])
            last = rng.choice([1, 2, 3, 4, 6, 7, 8, 9])
            price = Fraction(rng.randint(1, 999) * 10 + last, 10 ** (dec + 1))
            day += 1
            xs.append(mk_xact(day, "fine", [mk_post("Expenses:Units", n_units, "AAA", cost=price, cc=c, cdec=dec + 1), mk_post(acct)]))
            total -= price * n_units
        target = Fraction(rng.randint(-90000, 90000), 10 ** dec)
        if target == total or abs(target - total) * 10 ** dec < 1:
            target += 1
        day += rng.randint(1, 9)
        x = mk_xact(day, "assign", [mk_post(acct, None, assert_=(target, c), computed=(target - total, c)), mk_post("Equity:Adj")],
                    state=rng.choice([0, 0, 1]), note_lines=rng.choice([None, [" set balance"]]))
        xs.append(x)
        if rng.random() < 0.5:
            xs.append(mk_xact(day + 3, "after", [mk_post(acct, Fraction(rng.randint(1, 9999), 10 ** dec), c), mk_post("Equity:Adj")]))
        cs.append({"xacts": xs})
    return cs


# every annotation carries a {price}: a date-only or note-only annotation is overwritten by finalize itself when the posting
# takes part in the implicit exchange between the two (different) annotated commodities, and {=fixed} prices do not compare
LOT_ANNS = ["", "", "{$5.00}", "{$6.00}", "{$5.00} [2019/12/01]", "{$5.00} [2019/11/15]", "{$5.00} (lot a)",
            "{$5.00} [2019/12/01] (lot a)", "{$5.00} (lot b)", "{$6.00} [2019/12/01]", "{$6.00} [2019/12/01] (lot a)"]


def lot_pair_text(day, payee, ann1, ann2, q1, q2, kinds=("real", "real"), comm="AAPL", state=""):
    """a two-posting transaction with plain explicit amounts of one base commodity and given lot annotations."""
    def acct(name, kind):
        return {"real": name, "virtual": "(" + name + ")", "bvirtual": "[" + name + "]"}[kind]
    def amt(q, ann):
        return ("%d %s %s" % (q, comm, ann)).rstrip()
    return ["%s %s%s" % (jgen.date_text(jgen.day_of(2020, 1, 1) + day), state, payee),
            "    %s  %s" % (acct("Assets:Broker", kinds[0]), amt(q1, ann1)),
            "    %s  %s" % (acct("Assets:Other", kinds[1]), amt(q2, ann2)), ""]


def lot_pair_cases():
    """fixed boundary journals for the commodity test of the elision rule (print.cc 230-236): two postings, plain
    explicit amounts, same base commodity; the lot annotations {price} [date] (note) differ between the two postings, or one
    posting is annotated and the other plain, or they are identical (control: the second amount may be elided); both signs.
    Oracle only (lot annotations are outside the Lean model): rows(P) must equal rows(J) including each posting's exact
    lot text."""
    pairs = [("{$5.00}", "{$5.00} [2019/12/01]"), ("{$5.00} [2019/12/01]", "{$5.00}"), ("{$5.00}", ""), ("", "{$5.00}"),
             ("{$5.00}", "{$6.00}"), ("{$5.00} (lot a)", "{$5.00}"), ("{$5.00}", "{$5.00} (lot a)"),
             ("{$5.00} (lot a)", "{$5.00} (lot b)"), ("{$5.00} [2019/12/01]", "{$5.00} [2019/11/15]"),
             ("{$5.00} [2019/12/01] (lot a)", "{$5.00} [2019/12/01]"), ("{$5.00} [2019/12/01]", ""), ("", "{$5.00} (lot a)"),
             ("{$6.00} [2019/12/01]", "{$5.00} [2019/12/01]"), ("{$5.00} [2019/12/01] (lot a)", ""),
             # controls: identical annotations
             ("{$5.00}", "{$5.00}"), ("{$5.00} [2019/12/01]", "{$5.00} [2019/12/01]"),
             ("{$5.00} [2019/12/01] (lot a)", "{$5.00} [2019/12/01] (lot a)"), ("{=$5.00}", "{=$5.00}"), ("", "")]
    cs = []
    for k, (a1, a2) in enumerate(pairs):
        for sign in (1, -1):
            lines = ["2019/11/01 seed precision", "    Assets:Cash  $1.00", "    Equity:Open  $-1.00", ""]
            lines += lot_pair_text(k, "pair %d" % k, a1, a2, 10 * sign, -10 * sign)
            cs.append({"text": "\n".join(lines) + "\n", "xacts": [], "lot_pair": True})
    # several pairs in one journal, a marked transaction, balanced-virtual postings
    lines = ["2019/11/01 seed precision", "    Assets:Cash  $1.00", "    Equity:Open  $-1.00", ""]
    lines += lot_pair_text(1, "p1", "{$5.00}", "{$5.00} [2019/12/01]", -10, 10, state="* ")
    lines += lot_pair_text(2, "p2", "{$5.00}", "", 7, -7, kinds=("bvirtual", "bvirtual"))
    lines += lot_pair_text(3, "p3", "{$5.00}", "{$5.00}", 3, -3, kinds=("real", "bvirtual"))
    lines += lot_pair_text(4, "p4", "", "{$5.00} (lot a)", -4, 4, comm="XY")
    cs.append({"text": "\n".join(lines) + "\n", "xacts": [], "lot_pair": True})
    return cs


def lot_pair_random(rng, n):
    cs = []
    for _ in range(n):
        lines = ["2019/11/01 seed precision", "    Assets:Cash  $1.00", "    Equity:Open  $-1.00", ""]
        for k in range(rng.randint(1, 4)):
            q = rng.randint(1, 500) * rng.choice([1, -1])
            kinds = rng.choice([("real", "real"), ("real", "real"), ("bvirtual", "real"), ("bvirtual", "bvirtual")])
            lines += lot_pair_text(k * 3, "payee %d" % rng.randint(1, 12), rng.choice(LOT_ANNS), rng.choice(LOT_ANNS), q, -q,
                                   kinds=kinds, comm=rng.choice(["AAPL", "XY", "AAA"]), state=rng.choice(["", "", "* ", "! "]))
        cs.append({"text": "\n".join(lines) + "\n", "xacts": [], "lot_pair": True})
    return cs


def lot_cases(rng, n):
    """oracle-only stream (lot annotations are outside the Lean model): purchases and sales with {price}, {{total}},
    {=fixed}, [date], (tag) annotations, with and without @ / @@ costs; the balancing posting is elided."""
    cs = []
    for _ in range(n):
        lines = []
        day = jgen.day_of(2020, 1, 1)
        lots = []
        for k in range(rng.randint(1, 5)):
            day += rng.randint(0, 40)
            comm = rng.choice(["AAA", "XY", "BTC"])
            cur = rng.choice(["$", "EUR"])
            def money(q):
                return jgen.fmt_amount(Fraction(q), CM[cur], 2)
            if lots and rng.random() < 0.35:
                (comm, cur, ann, held) = rng.choice(lots)
                qty = -rng.randint(1, held)
            else:
                qty = rng.randint(1, 50)
                price = Fraction(rng.randint(100, 99999), 100)
                r = rng.random()
                if r < 0.5:
                    ann = "{%s}" % jgen.fmt_amount(price, CM[cur], 2)
                elif r < 0.7:
                    ann = "{=%s}" % jgen.fmt_amount(price, CM[cur], 2)
                else:
                    ann = "{{%s}}" % jgen.fmt_amount(price * qty, CM[cur], 2)
                if rng.random() < 0.5:
                    ann += " [%s]" % jgen.date_text(day - rng.randint(0, 300))
                if rng.random() < 0.3:
                    ann += " (lot %d)" % rng.randint(1, 9)
                if not ann.startswith("{{"):
                    lots.append((comm, cur, ann, qty))
            amt = jgen.fmt_amount(Fraction(qty), CM[comm], 0) + " " + ann
            r = rng.random()
            if r < 0.35:
                amt += " @ " + jgen.fmt_amount(Fraction(rng.randint(100, 99999), 100), CM[cur], 2)
            elif r < 0.5:
                amt += " @@ " + jgen.fmt_amount(Fraction(rng.randint(100, 99999), 100), CM[cur], 2)
            st = rng.choice(["", "", "* ", "! "])
            lines += ["%s %spayee %d" % (jgen.date_text(day), st, rng.randint(1, 12)),
                      "    Assets:Broker   " + amt + rng.choice(["", "", "  ; lot note"]),
                      "    Assets:Cash", ""]
        cs.append({"text": "\n".join(lines) + "\n", "xacts": []})
    return cs


def empty_note_line_cases():
    P, X = mk_post, mk_xact
    return [{"xacts": [X(0, "p", [P("A", "1.00", note_lines=[" pn", "", " pn3"]), P("B")], note_lines=[" first", "", " third"])]},
            {"xacts": [X(0, "p", [P("A", "1.00"), P("B", note_lines=[" x", ""])])]}]


def zero_amount_cases():
    P, X = mk_post, mk_xact
    return [{"xacts": [X(0, "nz", [P("A", "1.00"), P("B", "-1.00"), P("C", "0.00")])]},
            {"xacts": [X(0, "z", [P("A", "0.00"), P("B", "0.00")]), X(1, "nz", [P("A", "1.00"), P("B")])]}]


# ---------------------------------------------------------------- observing ledger

ROW_FMT = ('%(format_date(xact.date, "%Y-%m-%d"))' + US + '%(format_date(date, "%Y-%m-%d"))' + US +
           '%(xact.aux_date ? format_date(xact.aux_date, "%Y-%m-%d") : "-")' + US + '%(xact.state)' + US + '%(state)' + US +
           '%(code)' + US + '%(payee)' + US + '%(display_account)' + US + '%(verif_rational(amount))' + US +
           '%(verif_rational(cost))' + US + '%(calculated)' + US + '%(xact.note)' + US + '%(note)' + US +
           '%(tag("Key"))' + US + '%(tag("Ref"))' + US + '%(has_tag("tag1"))' + US + '%(has_tag("tag2"))' + US + '%(actual)' + RS + '\\n')
ROW_FIELDS = ["xdate", "date", "aux", "xstate", "state", "code", "payee", "dacct", "amount", "cost", "calc", "xnote", "note",
              "Key", "Ref", "tag1", "tag2", "actual"]


def parse_vr(s):
    m = re.fullmatch(r"A:(-?\d+)/(\d+):(\d+):([01]):(.*)", s, flags=re.S)
    if not m:
        return None
    return Fraction(int(m.group(1)), int(m.group(2))), int(m.group(3)), m.group(5)


def parse_rows(out):
    rows = []
    for rec in out.split(RS + "\n"):
        if rec == "":
            continue
        f = rec.split(US)
        if len(f) != len(ROW_FIELDS):
            return None
        r = dict(zip(ROW_FIELDS, f))
        a, c = parse_vr(r["amount"]), parse_vr(r["cost"])
        if a is None or c is None:
            return None
        r["q"], r["prec"], r["comm"] = a
        r["cq"], _, r["ccomm"] = c
        rows.append(r)
    return rows


def base_comm(comm):
    """strip lot annotations from verif_rational's commodity text."""
    for mark in (" {", " [", " ("):
        k = comm.find(mark)
        if k >= 0:
            comm = comm[:k]
    if len(comm) >= 2 and comm[0] == '"' and comm[-1] == '"':
        comm = comm[1:-1]
    return comm


_NUM = re.compile(r"-?\d[\d,]*(?:\.\d+)?")


def comm_equal(a, b):
    """commodity texts of verif_rational, equal up to the number of decimals a computed lot price `{…}` is shown with
    (the price is cost / amount, both compared exactly elsewhere; its text is cut at the quotient's internal precision,
    which depends on how many decimals the cost was written with)."""
    if a == b:
        return True
    if base_comm(a) != base_comm(b):
        return False
    na, nb = _NUM.findall(a[len(base_comm(a)):]), _NUM.findall(b[len(base_comm(b)):])
    if _NUM.sub("#", a) != _NUM.sub("#", b) or len(na) != len(nb):
        return False
    for x, y in zip(na, nb):
        x, y = x.replace(",", ""), y.replace(",", "")
        dx, dy = len(x.partition(".")[2]), len(y.partition(".")[2])
        d = min(dx, dy)
        fx, fy = Fraction(x), Fraction(y)
        if abs(fx - fy) * 10 ** d > 1:
            return False
    return True


def disp_prec(j):
    """display precision per commodity: the most decimals written in a posting or assertion amount (costs do not migrate)."""
    p = {}
    for x in j["xacts"]:
        for po in x["posts"]:
            for a in (po["amount"], po.get("assert")):
                if a:
                    p[a["comm"]] = max(p.get(a["comm"], 0), a["prec"])
    return p


def day_of_text(s):
    y, m, d = s.split("-")
    return (datetime.date(int(y), int(m), int(d)) - EPOCH).days


def observe(text):
    """everything the oracle needs about one journal text: one temp dir, six ledger runs."""
    d = tempfile.mkdtemp(prefix="c06-")
    try:
        jp = os.path.join(d, "j.dat")
        with open(jp, "w", encoding="utf-8") as f:
            f.write(text)
        res = {"J": text}
        res["print"] = vflib.ledger_run(["-f", jp, "print"], cwd=d)
        res["rowsJ"] = vflib.ledger_run(["-f", jp, "reg", "--empty", "--format", ROW_FMT], cwd=d)
        res["equity"] = vflib.ledger_run(["-f", jp, "equity"], cwd=d)
        P = res["print"][1]
        pp = os.path.join(d, "p.dat")
        with open(pp, "w", encoding="utf-8") as f:
            f.write(P)
        res["rowsP"] = vflib.ledger_run(["-f", pp, "reg", "--empty", "--format", ROW_FMT], cwd=d)
        res["print2"] = vflib.ledger_run(["-f", pp, "print"], cwd=d)
        ep = os.path.join(d, "e.dat")
        with open(ep, "w", encoding="utf-8") as f:
            f.write(res["equity"][1])
        res["rowsE"] = vflib.ledger_run(["-f", ep, "reg", "--empty", "--format", ROW_FMT], cwd=d)
        for k in ("print", "rowsJ", "equity", "rowsP", "print2", "rowsE"):
            rc, out, err = res[k]
            res[k] = (rc, out, err.replace(d + "/", ""))
        return res
    finally:
        shutil.rmtree(d, ignore_errors=True)


# ---------------------------------------------------------------- the oracle (independent of the Lean model)


def group_rows(rows, j):
    """rows grouped by transaction: each transaction has one `actual` row per written posting, then generated rows."""
    if not j.get("xacts"):
        return xact_groups(rows)
    out = [[]]
    xi, left = 0, len(j["xacts"][0]["posts"])
    for r in rows:
        if r["actual"] == "true":
            while left == 0 and xi + 1 < len(j["xacts"]):
                xi += 1
                left = len(j["xacts"][xi]["posts"])
                out.append([])
            left -= 1
        out[-1].append(r)
    return [g for g in out if g]


def xact_groups(rows):
    """group consecutive rows into transactions (same header fields)."""
    out = []
    key = None
    for r in rows:
        k = (r["xdate"], r["aux"], r["xstate"], r["code"], r["payee"], r["xnote"])
        if k != key or r.get("_first"):
            out.append([])
            key = k
        out[-1].append(r)
    return out


def split_P(P):
    """the transactions of a print output: list of lists of lines."""
    xs = []
    cur = []
    for ln in P.split("\n"):
        if ln == "":
            if cur:
                xs.append(cur)
            cur = []
        else:
            cur.append(ln)
    if cur:
        xs.append(cur)
    return xs


def has_virtual_pair(j):
    for x in j["xacts"]:
        ps = x["posts"]
        if len(ps) == 2 and all(p["amount"] is not None and not p["cost"] and p.get("assert") is None for p in ps) and \
                ps[0]["amount"]["comm"] == ps[1]["amount"]["comm"] and any(p["kind"] == "virtual" for p in ps):
            return True
    return False


def assigned_xact_indices(j):
    return {k for k, x in enumerate(j["xacts"]) if any(p["amount"] is None and p.get("assert") is not None for p in x["posts"])}


def oracle(j, obs):
    """list of (fingerprint, what); empty when the property holds on ledger's own outputs for this journal."""
    fails = []
    rcJ, outJ, errJ = obs["rowsJ"]
    if rcJ != 0:
        return [("C06:generator:journal-rejected", "the generated journal is not accepted: %s" % errJ[:300])]
    rowsJ = parse_rows(outJ)
    if rowsJ is None:
        return [("C06:observe", "cannot parse the reg rows of J")]
    rcP, P, errP = obs["print"]
    if rcP != 0:
        return [("C06:print:error", "print fails on an accepted journal: %s" % errP[:300])]
    # (2) what ledger reads from P
    rc, out, err = obs["rowsP"]
    if rc != 0:
        if "There cannot be null amounts after balancing" in err and has_virtual_pair(j):
            fails.append(("C06:print.cc:elide-second-amount-virtual",
                          "print elides the second amount of a two-posting transaction although a posting is (virtual) and need not "
                          "balance; the printed text is rejected: There cannot be null amounts after balancing a transaction"))
        else:
            fails.append(("C06:print:unreadable", "the printed text is not a valid journal: %s" % err[:400]))
    else:
        rowsP = parse_rows(out)
        if rowsP is None:
            fails.append(("C06:observe", "cannot parse the reg rows of P"))
        elif len(rowsP) != len(rowsJ):
            fails.append(("C06:print:posting-count", "J has %d postings, the printed text %d" % (len(rowsJ), len(rowsP))))
        else:
            asg = assigned_xact_indices(j)
            # row -> transaction index: every transaction has one `actual` row per written posting, followed by the
            # generated rows finalize adds for the 2nd+ commodity of an elided amount
            bounds = []
            xi, left = 0, (len(j["xacts"][0]["posts"]) if j["xacts"] else 0)
            for r in rowsJ:
                if r["actual"] == "true":
                    while left == 0 and xi + 1 < len(j["xacts"]):
                        xi += 1
                        left = len(j["xacts"][xi]["posts"])
                    left -= 1
                bounds.append(xi)
            seen = set()
            for n, (a, b) in enumerate(zip(rowsJ, rowsP)):
                in_asg = bounds[n] in asg
                for fld in ("xdate", "date", "aux", "xstate", "state", "code", "payee", "dacct", "comm", "ccomm", "xnote", "note",
                            "Key", "Ref", "tag1", "tag2", "q", "cq"):
                    if a[fld] == b[fld]:
                        continue
                    if fld in ("comm", "ccomm") and comm_equal(a[fld], b[fld]):
                        continue
                    if fld in ("q", "cq") and in_asg:
                        # amounts computed from a balance assignment (and what balances them): to display precision
                        if abs(a[fld] - b[fld]) * 2 * 10 ** b["prec"] <= 1:
                            continue
                    if fld == "state" and a["xstate"] != "0":
                        f = ("C06:print.cc:posting-state-dropped",
                             "posting %s of a transaction marked %s has state %s in the journal but %s after print | re-read: "
                             "format_account_name writes a posting's own state mark only under an uncleared transaction"
                             % (a["dacct"], {"1": "*", "2": "!"}.get(a["xstate"], a["xstate"]), a["state"], b["state"]))
                    elif fld in ("note", "xnote") and "\n\n" in a[fld] + "\n" and a[fld].replace("\n\n", "\n").rstrip("\n") == b[fld]:
                        f = ("C06:print.cc:print_note:empty-note-line-dropped",
                             "an empty `;` line inside a note is not printed: note %r re-reads as %r" % (a[fld], b[fld]))
                    elif fld == "comm" and base_comm(a["comm"]) == base_comm(b["comm"]) and a["calc"] == "false" and b["calc"] == "true":
                        f = ("C06:print.cc:elided-amount-changes-lot-details",
                             "posting %d (%s) was written as %s %s; print elides it (two postings, same base commodity) although "
                             "the other posting's commodity carries different lot details, and the printed text re-reads it as %s %s"
                             % (n, a["dacct"], a["q"], a["comm"], b["q"], b["comm"]))
                    else:
                        f = ("C06:print:" + {"q": "amount", "cq": "cost", "comm": "commodity-or-lot", "ccomm": "cost-commodity",
                                             "dacct": "account-or-kind", "xdate": "date", "date": "posting-date",
                                             "aux": "aux-date", "xstate": "xact-state"}.get(fld, fld),
                             "posting %d (%s): %s is %r in the journal but %r after print | re-read"
                             % (n, a["dacct"], fld, str(a[fld]), str(b[fld])))
                    # every field of every posting is compared; one report per kind of difference
                    if f[0] not in seen:
                        seen.add(f[0])
                        fails.append(f)
            if "C06:print.cc:elided-amount-changes-lot-details" in seen:
                # the other posting's implicit cost / computed lot price change as a consequence: one root cause, one report
                fails = [f for f in fails if f[0] not in ("C06:print:cost-commodity", "C06:print:cost", "C06:print:commodity-or-lot")]
    # (3) print is a fixpoint on its own output
    rc2, P2, err2 = obs["print2"]
    if rc2 == 0 and P2 != P:
        l1, l2 = P.split("\n"), P2.split("\n")
        def pad_only(a, b):
            # the first print wrote two padding blanks after the name of a posting whose amount it elided
            if a.rstrip(" ") == b:
                return True
            k = b.find("  ;")
            return k >= 0 and a == b[:k] + "  " + b[k:]
        if len(l1) == len(l2) and all(a == b or pad_only(a, b) for a, b in zip(l1, l2)):
            k = [i for i, (a, b) in enumerate(zip(l1, l2)) if a != b][0]
            fails.append(("C06:print.cc:elided-amount-trailing-pad",
                          "printing the printed text again does not reproduce it: line %r carries %d extra blanks (padding written "
                          "although the second amount was elided) that the second print does not write" % (l1[k], len(l1[k]) - len(l2[k]))))
        elif not any(f[0] in ("C06:print.cc:posting-state-dropped", "C06:print.cc:print_note:empty-note-line-dropped") for f in fails):
            k = [i for i, (a, b) in enumerate(zip(l1 + [""] * len(l2), l2 + [""] * len(l1))) if a != b][0]
            fails.append(("C06:print:not-fixpoint", "print of the printed text differs at line %d: %r vs %r"
                          % (k + 1, (l1 + [""] * len(l2))[k], (l2 + [""] * len(l1))[k])))
    # (4) equity
    rcE, E, errE = obs["equity"]
    mixed = equity_mixed(rowsJ)
    if rcE != 0:
        if not ("cannot accept virtual and non-virtual postings to the same account" in errE and mixed):
            fails.append(("C06:equity:error", "equity fails: %s" % errE[:300]))
    else:
        rc, out, err = obs["rowsE"]
        if rc != 0:
            if "There cannot be null amounts after balancing" in err and E.count("\n    ") == 2:
                fails.append(("C06:print.cc:elide-second-amount-virtual",
                              "the equity transaction has two (virtual) postings; print elides the second amount and the text is rejected"))
            elif "Transaction does not balance" in err and mixed_virtual_kinds(rowsJ):
                fails.append(("C06:filters.cc:equity-balanced-and-plain-virtual-mixed",
                              "account %s receives both [balanced virtual] and (virtual) postings; equity keeps the first posting's "
                              "must-balance flag for the total but prints the account as (virtual): the Opening Balances transaction "
                              "does not balance and is rejected" % mixed_virtual_kinds(rowsJ)[0]))
            elif "Transaction does not balance" in err and fine_balances(j, rowsJ):
                a, c, q, p = fine_balances(j, rowsJ)[0]
                fails.append(("C06:equity:balance-rounded-to-display-precision",
                              "account %s holds %s %s exactly (an elided amount computed from a cost has more decimals than the "
                              "commodity's display precision %d); equity writes it rounded and the resulting transaction is rejected: "
                              "Transaction does not balance" % (a, q, c, p)))
            else:
                fails.append(("C06:equity:unreadable", "the equity output is not a valid journal: %s" % err[:300]))
        else:
            rowsE = parse_rows(out)
            if rowsE is None:
                fails.append(("C06:observe", "cannot parse the reg rows of E"))
            else:
                bj, be = balances(rowsJ), balances(rowsE)
                precs = {}
                for r in rowsE:
                    precs[base_comm(r["comm"])] = max(precs.get(base_comm(r["comm"]), 0), r["prec"])
                for key in sorted(set(bj) | set(be)):
                    if key[0] == "Equity:Opening Balances":
                        continue
                    a, b = bj.get(key, Fraction(0)), be.get(key, Fraction(0))
                    if a == b:
                        continue
                    p = precs.get(key[1], 0)
                    if abs(a - b) * 2 * 10 ** p <= 1 and (a * 10 ** p).denominator != 1:
                        fails.append(("C06:equity:balance-rounded-to-display-precision",
                                      "account %s holds %s %s exactly (an elided amount computed from a cost has more decimals than the "
                                      "commodity's display precision %d); the equity transaction re-reads as %s"
                                      % (key[0], a, key[1], p, b)))
                    else:
                        fails.append(("C06:equity:balance-differs", "account %s commodity %s: %s in the journal, %s after equity | re-read"
                                      % (key[0], key[1], a, b)))
                    break
    return fails


def fine_balances(j, rowsJ):
    """balances of J with more decimals than their commodity's display precision."""
    dp = disp_prec(j)
    return [(k[0], k[1], v, dp.get(k[1], 0)) for k, v in sorted(balances(rowsJ).items())
            if (v * 10 ** dp.get(k[1], 0)).denominator != 1]


def mixed_virtual_kinds(rows):
    kinds = {}
    for r in rows:
        a = r["dacct"]
        if a.startswith("(") and a.endswith(")"):
            kinds.setdefault(a[1:-1], set()).add("v")
        elif a.startswith("[") and a.endswith("]"):
            kinds.setdefault(a[1:-1], set()).add("b")
    return sorted(k for k, v in kinds.items() if len(v) > 1)


def equity_has_tie(j, rowsJ):
    """some account balance or the grand total sits exactly half way between two displayable values."""
    dp = disp_prec(j)
    bal = balances(rowsJ)
    tot = {}
    for r in rowsJ:
        a = r["dacct"]
        if not (a.startswith("(") and a.endswith(")")):
            c = base_comm(r["comm"])
            tot[c] = tot.get(c, Fraction(0)) + r["q"]
    vals = [(k[1], v) for k, v in bal.items()] + list(tot.items())
    return any(((v * 10 ** dp.get(c, 0)) * 2).denominator == 1 and (v * 10 ** dp.get(c, 0)).denominator != 1 for c, v in vals)


def equity_mixed(rows):
    kinds = {}
    for r in rows:
        a = r["dacct"]
        virt = (a.startswith("(") and a.endswith(")")) or (a.startswith("[") and a.endswith("]"))
        name = a[1:-1] if virt else a
        kinds.setdefault(name, set()).add(virt)
    return any(len(v) > 1 for v in kinds.values())


def balances(rows):
    b = {}
    for r in rows:
        a = r["dacct"]
        if (a.startswith("(") and a.endswith(")")) or (a.startswith("[") and a.endswith("]")):
            a = a[1:-1]
        k = (a, base_comm(r["comm"]))
        b[k] = b.get(k, Fraction(0)) + r["q"]
    return {k: v for k, v in b.items() if v != 0}


# ---------------------------------------------------------------- model side


def equity_rows_for_model(rowsJ):
    out = []
    for r in rowsJ:
        a = r["dacct"]
        virt = mb = False
        if a.startswith("(") and a.endswith(")"):
            virt, a = True, a[1:-1]
        elif a.startswith("[") and a.endswith("]"):
            virt, mb, a = True, True, a[1:-1]
        out.append({"account": a, "virt": virt, "mb": mb, "q": "%d/%d" % (r["q"].numerator, r["q"].denominator),
                    "comm": base_comm(r["comm"]), "date": day_of_text(r["date"])})
    return out


def model_rows_from_ledger(rowsP, j):
    """ledger's reading of P in the driver's print.reparse row format (what can be observed of it)."""
    out = []
    for g in group_rows(rowsP, j):
        h = g[0]
        out.append(("H", str(day_of_text(h["xdate"])), "-" if h["aux"] == "-" else str(day_of_text(h["aux"])), h["xstate"],
                    "(" + h["code"] + ")" if h["code"] else "-", h["payee"], h["xnote"]))
        for r in g:
            if r["actual"] != "true":
                continue        # finalize's extra balancing postings for the 2nd+ commodity of an elided amount
            a = r["dacct"]
            kind = "real"
            if a.startswith("(") and a.endswith(")"):
                kind, a = "virtual", a[1:-1]
            elif a.startswith("[") and a.endswith("]"):
                kind, a = "bvirtual", a[1:-1]
            note = r["note"]
            xn = h["xnote"]
            pnote = note[:len(note) - len(xn)] if xn and note.endswith(xn) else note
            out.append(("P", r["state"], a, kind, None if r["calc"] == "true" else (r["q"], base_comm(r["comm"])),
                        (r["cq"], base_comm(r["ccomm"])), pnote))
    return out


def model_rows_parse(ans):
    """driver print.reparse answer -> comparable rows."""
    rows = []
    for s in json.loads(ans):
        f = s.split(US)
        if f[0] == "H":
            note = "" if f[6] == "-" else f[6][1:].replace(GS, "\n")
            code = f[4]
            rows.append(("H", f[1], f[2], f[3], code if code != "()" else "-", f[5], note))
        else:
            def qty(t):
                if t == "-":
                    return None
                q, c = t.split("@", 1)
                n, d = q.split("/")
                return Fraction(int(n), int(d)), c
            amt = qty(f[4])
            cost = None
            if f[5] != "-":
                cost = qty(f[5].lstrip("@"))
            note = "" if f[7] == "-" else f[7][1:].replace(GS, "\n")
            rows.append(("P", f[1], f[2], f[3], amt, cost, note))
    return rows


def rows_agree(mrows, lrows):
    """model reader vs ledger reader on P.  Ledger shows a cost for every posting (the amount when none was given)
    and the finalised amount of an elided posting; the model shows what is written."""
    if len(mrows) != len(lrows):
        return "row count %d vs %d" % (len(mrows), len(lrows))
    for m, l in zip(mrows, lrows):
        if m[0] != l[0]:
            return "row kind"
        if m[0] == "H":
            if m != l:
                return "header %r vs %r" % (m, l)
            continue
        if m[1:4] != l[1:4] or m[6] != l[6]:
            return "posting %r vs %r" % (m, l)
        if (m[4] is None) != (l[4] is None):
            return "elided flag %r vs %r" % (m, l)
        if m[4] is not None and m[4] != l[4]:
            return "amount %r vs %r" % (m, l)
        if m[5] is not None and m[5] != l[5]:
            return "cost %r vs %r" % (m, l)
        if m[5] is None and m[4] is not None and l[5] != l[4] and l[5][1] == l[4][1]:
            return "cost absent in the model, present for ledger %r vs %r" % (m, l)
    return None


# ---------------------------------------------------------------- classification of cases


def xact_features(x):
    f = set()
    if any(p["cost"] for p in x["posts"]):
        f.add("cost")
    if any(p["kind"] != "real" for p in x["posts"]):
        f.add("virtual")
    if any(p.get("wstate") for p in x["posts"]):
        f.add("posting-state")
    if x.get("note_lines") or any(p.get("note_lines") for p in x["posts"]):
        f.add("note")
    if x.get("aux") is not None:
        f.add("aux")
    if x["code"]:
        f.add("code")
    if len({p["amount"]["comm"] for p in x["posts"] if p["amount"]} | {p["cost"]["comm"] for p in x["posts"] if p["cost"]}) >= 2:
        f.add("2comm")
    return f


def account_features(ctx, j):
    for x in j["xacts"]:
        fs = xact_features(x)
        for f in fs:
            ctx.feature("xact:" + f)
        ctx.feature("xact:posts:%s" % (len(x["posts"]) if len(x["posts"]) < 4 else "4+"))
        if x["state"]:
            ctx.feature("xact:state:%d" % x["state"])
            if any(p.get("wstate") and p["wstate"] != x["state"] for p in x["posts"]):
                ctx.feature("posting-state-differs-from-cleared-xact")
        if any(p["amount"] is None and p.get("assert") is None for p in x["posts"]):
            ctx.feature("xact:elided")
        if any(p.get("assert") is not None for p in x["posts"]):
            ctx.feature("xact:assignment")
        for p in x["posts"]:
            if p["cost"]:
                ctx.feature("cost:@" if p["cost"]["per_unit"] else "cost:@@")
            if any(ord(ch) > 127 for ch in p["account"]):
                ctx.feature("text:non-ascii-account")
            if len(p["account"]) > 34:
                ctx.feature("text:long-account")
            for nl in (p.get("note_lines") or []):
                if ":" in nl:
                    ctx.feature("note:tag-or-metadata")
            if len(p.get("note_lines") or []) >= 2:
                ctx.feature("note:multi-line")
            if p["amount"]:
                ctx.feature("comm:" + p["amount"]["comm"])
        if any(ord(ch) > 127 for ch in x["payee"]):
            ctx.feature("text:non-ascii-payee")
        if len(fs) >= 2:
            ctx.nontrivial("\n".join(render_xact(x)))


# ---------------------------------------------------------------- shrinking


def failing_with(j, fp):
    try:
        obs = observe(render_journal(j))
        return any(f[0] == fp for f in oracle(j, obs))
    except Exception:
        return False


def shrink(j, fp):
    """keep only what is needed for the fingerprint: transactions, then decorations."""
    cur = copy.deepcopy(j)
    budget = 60
    if "text" in cur:
        blocks = [b for b in cur["text"].split("\n\n") if b.strip()]
        k = len(blocks) - 1
        while k >= 0 and budget > 0 and len(blocks) > 1:
            cand = blocks[:k] + blocks[k + 1:]
            c = dict(cur, text="\n\n".join(b.strip("\n") for b in cand) + "\n")
            budget -= 1
            if failing_with(c, fp):
                blocks, cur = cand, c
            k -= 1
        return cur
    k = len(cur["xacts"]) - 1
    while k >= 0 and budget > 0 and len(cur["xacts"]) > 1:
        c = copy.deepcopy(cur)
        del c["xacts"][k]
        budget -= 1
        if failing_with(c, fp):
            cur = c
        k -= 1
    for x in cur["xacts"]:
        for fld, val in (("note_lines", None), ("aux", None), ("code", ""), ("style", 0)):
            if budget <= 0:
                break
            if x.get(fld) in (None, "", 0, []):
                continue
            c = copy.deepcopy(cur)
            cx = c["xacts"][cur["xacts"].index(x)]
            cx[fld] = val
            budget -= 1
            if failing_with(c, fp):
                x[fld] = val
        for p in x["posts"]:
            if budget <= 0 or not p.get("note_lines"):
                continue
            c = copy.deepcopy(cur)
            c["xacts"][cur["xacts"].index(x)]["posts"][x["posts"].index(p)]["note_lines"] = None
            budget -= 1
            if failing_with(c, fp):
                p["note_lines"] = None
    return cur


# ---------------------------------------------------------------- processing


def process(ctx, cases, label, tie=True, expect=None):
    """cases: list of journal ASTs.  Both sides + oracle.  expect: fingerprints that this stream is built to
    exhibit (excluded shapes); they are recorded as features, never as violations."""
    texts = [render_journal(j) for j in cases]
    obs = vflib.pmap(observe, texts)
    lines = []
    idx = []
    for k, (j, o) in enumerate(zip(cases, obs)):
        if not tie:
            continue
        m = json.dumps(model_ast(j), ensure_ascii=False)
        lines.append("print.journal\t" + m)
        lines.append("print.reparse\t" + m)
        rj = parse_rows(o["rowsJ"][1]) if o["rowsJ"][0] == 0 else None
        me = dict(json.loads(m))
        me["rows"] = equity_rows_for_model(rj) if rj else []
        lines.append("print.equity\t" + json.dumps(me, ensure_ascii=False))
        idx.append(k)
    answers = vflib.driver_run(lines) if lines else []
    ans = {k: answers[3 * n:3 * n + 3] for n, k in enumerate(idx)}
    for k, (j, o) in enumerate(zip(cases, obs)):
        # the unit of evaluation is the transaction (each is rendered, re-read and compared on its own);
        # distinct_nontrivial counts transactions too
        ctx.count(max(1, len(j.get("xacts", []))))
        ctx.feature("journals")
        account_features(ctx, j)
        text = texts[k]
        fails = oracle(j, o)
        ok_tie = True
        if tie and o["rowsJ"][0] == 0 and o["print"][0] == 0:
            a_print, a_reparse, a_equity = ans[k]
            P = o["print"][1]
            # (1) model text == P byte for byte
            if not a_print.startswith("ok\t"):
                ctx.tie_broken("corr:print.journal", "driver answered %s for\n%s" % (a_print[:300], text))
                ok_tie = False
            else:
                mt = "\n".join(json.loads(a_print[3:])) + "\n"
                if mt != P:
                    ok_tie = False
                    ctx.tie_broken("corr:print.journal", "model text differs from `ledger print` (%s)\nJ:\n%s\nmodel:\n%s\nledger:\n%s"
                                   % (label, text, mt, P))
                    ctx.mism.append({"op": "print.journal", "journal": text, "model": mt, "ledger": P})
            # model reader vs ledger reader on P
            if o["rowsP"][0] == 0:
                rp = parse_rows(o["rowsP"][1])
                if a_reparse.startswith("ok\t") and rp is not None:
                    body, eq_norm, fixp, wf, pad = a_reparse[3:].rsplit("\t", 4)
                    d = rows_agree(model_rows_parse(body), model_rows_from_ledger(rp, j))
                    if d:
                        ok_tie = False
                        ctx.tie_broken("corr:print.reparse", "model reader and ledger's reader disagree on the printed text (%s): %s\n%s"
                                       % (label, d, P))
                        ctx.mism.append({"op": "print.reparse", "journal": text, "detail": d})
                    ctx.feature("model:xactOk" if wf == "1" else "model:outside-xactOk")
                    if wf == "1" and eq_norm != "1":
                        # hypothesis of C06.parse_render holds, conclusion fails on the concrete codec
                        ok_tie = False
                        ctx.tie_broken("corr:print.reparse:norm", "parseXactText (renderXact x) ≠ norm x on the concrete codec, transactions %s\n%s" % (eq_norm, text))
                        ctx.mism.append({"op": "print.reparse:norm", "journal": text, "detail": eq_norm})
                    ctx.feature("model:render-fixpoint" if fixp == "1" else "model:render-not-fixpoint")
                    if wf == "1" and pad == "0" and fixp != "1":
                        ok_tie = False
                        ctx.tie_broken("corr:print.fixpoint:theorem", "xactOk and no trailing pad, yet renderXact (norm x) ≠ renderXact x\n" + text)
                    if (fixp == "1") != (o["print2"][0] == 0 and o["print2"][1] == P):
                        ok_tie = False
                        ctx.tie_broken("corr:print.fixpoint", "model says print∘read∘print %s the text, ledger says otherwise\n%s"
                                       % ("reproduces" if fixp == "1" else "changes", text))
                        ctx.mism.append({"op": "print.fixpoint", "journal": text, "detail": fixp})
                elif not a_reparse.startswith("ok\t"):
                    ok_tie = False
                    ctx.tie_broken("corr:print.reparse", "ledger reads the printed text, the model reader answers %s\n%s" % (a_reparse[:200], P))
            elif a_reparse.startswith("ok\t") and not any(f[0] == "C06:print.cc:elide-second-amount-virtual" for f in fails):
                ok_tie = False
                ctx.tie_broken("corr:print.reparse", "ledger rejects the printed text, the model reader accepts it\n" + P)
            # equity text
            rcE, E, errE = o["equity"]
            if rcE != 0:
                if a_equity != "err\tmixed-virtual":
                    ok_tie = False
                    ctx.tie_broken("corr:print.equity", "ledger equity fails (%s), model answers %s\n%s" % (errE[:200], a_equity[:200], text))
                else:
                    ctx.feature("equity:mixed-virtual-error")
            elif not a_equity.startswith("ok\t"):
                ok_tie = False
                ctx.tie_broken("corr:print.equity", "model answers %s, ledger prints\n%s\nfor\n%s" % (a_equity[:200], E, text))
            else:
                me = "\n".join(json.loads(a_equity[3:])) + "\n"
                if len(json.loads(a_equity[3:])) <= 1:
                    me = ""
                if me != E and equity_has_tie(j, parse_rows(o["rowsJ"][1])):
                    # an exact decimal tie at display precision: MPFR's binary approximation decides the direction (DESIGN §5 C04)
                    ctx.feature("equity:rounding-tie-skipped")
                elif me != E:
                    ok_tie = False
                    ctx.tie_broken("corr:print.equity", "model text differs from `ledger equity` (%s)\nJ:\n%s\nmodel:\n%s\nledger:\n%s"
                                   % (label, text, me, E))
                    ctx.mism.append({"op": "print.equity", "journal": text, "model": me, "ledger": E})
                else:
                    ctx.feature("equity:text-agrees")
            if ok_tie:
                ctx.traces_validated += 1
        for fp, what in fails:
            ctx.feature("oracle-fail:" + fp)
            if expect is not None and fp in expect:
                ctx.feature("excluded-shape:" + fp)
                continue
            if fp in ctx.reported:
                continue
            ctx.reported.add(fp)
            small = shrink(j, fp)
            st = render_journal(small)
            so = observe(st)
            sf = [f for f in oracle(small, so) if f[0] == fp] or [(fp, what)]
            ctx.violation(fp, sf[0][1], {"journal": st, "ast": small,
                                         "cmds": ["ledger -f j.dat print > p.dat", "ledger -f p.dat reg --empty --format ROW_FMT",
                                                  "ledger -f p.dat print", "ledger -f j.dat equity > e.dat",
                                                  "ledger -f e.dat reg --empty --format ROW_FMT"],
                                         "print": so["print"][1][:3000], "print_of_print": so["print2"][1][:3000],
                                         "reread_stderr": so["rowsP"][2][:600], "equity": so["equity"][1][:2000],
                                         "found_in": text[:4000]})
        if not fails and len(ctx.samples) < 4 and any(len(xact_features(x)) >= 3 for x in j["xacts"]):
            ctx.sample({"journal": text[:1500], "print": o["print"][1][:1500], "tie_ok": ok_tie})


def malformed_stream(ctx):
    lines = ["print.journal", "print.journal\t{", "print.journal\t{\"xacts\":[]}", "print.reparse\t{\"comms\":[],\"xacts\":[{\"date\":1}]}",
             "print.equity\t{\"comms\":[],\"xacts\":[],\"rows\":[{\"account\":\"A\"}]}", "print.nope\tx"]
    want = ["err\tbad-op", "err\tbad-json", "err\tbad-json", "err\tbad-json", "err\tbad-json", "err\tbad-op"]
    got = vflib.driver_run(lines)
    for l, g, w in zip(lines, got, want):
        ctx.count()
        if g != w:
            ctx.tie_broken("corr:malformed-driver", "driver answered %r to %r, expected %r" % (g, l, w))
    # malformed printed text must be rejected by ledger, never half-read
    for text in ["2020/01/01 p\n    A  $1.00 @\n    B\n", "2020/01/01 p\n    A  $1.00 = \n    B\n", "2020/13/01 p\n    A  $1.00\n    B\n",
                 "2020/01/01 p\n    (A  $1.00\n    B)  $2.00\n    C\n    D\n"]:
        d = tempfile.mkdtemp(prefix="c06m-")
        try:
            with open(os.path.join(d, "m.dat"), "w") as f:
                f.write(text)
            rc, out, err = vflib.ledger_run(["-f", os.path.join(d, "m.dat"), "print"], cwd=d)
        finally:
            shutil.rmtree(d, ignore_errors=True)
        ctx.count()
        ctx.feature("malformed-text:" + ("rejected" if rc != 0 else "accepted"))
        if rc != 0 and out.strip():
            ctx.violation("C06:print:partial-output-on-error", "print writes transactions although the journal is rejected",
                          {"journal": text, "stdout": out[:1000], "stderr": err[:1000]})


def run(tier, seed):
    ctx = Check("C06", tier, seed)
    ctx.mism = []
    ctx.reported = set()
    ctx.rule = ("journals of 1-8 balanced-by-construction transactions over 1-4 of 10 commodities (prefix/suffix, joined/separated, "
                "thousands marks, quoted, 0-8 decimals, non-ASCII symbols), 1-6 postings, real/(virtual)/[balanced], elided and explicit "
                "amounts, @/@@ costs, states on transactions and on postings (incl. posting state different from a cleared/pending "
                "transaction), codes, aux dates, one-line / multi-line / over-long notes on transactions and postings with :tags: and "
                "Key: value metadata and [date] tags, plain and unusual (non-ASCII, punctuated, 34-60 column) payee and account text, "
                "varied source layout; plus fixed journals at every branch boundary of print_xact / print_note (state x state, kind x kind, "
                "name width 33-50, amount width 10-13, note length around the 80-column rule, balance assignments, equity edge cases). "
                "non-trivial = a transaction using at least two of {cost, virtual posting, state on a posting, note, aux date, code, "
                ">=2 commodities}; distinct by transaction text")
    ctx.assumptions = ["amount text layer (amount_t::print / parse) and date text layer are parameters of the model (AmtCodec/DateCodec.Lawful); "
                       "the driver's concrete codec is compared with ledger byte for byte, not proved lawful",
                       "free text (payee, account, code, notes) satisfies the decidable predicate XactWF in the theorems; beyond it only the runs speak",
                       "characters of commodity symbols have display width 1 (justify uses unistring::width)",
                       "reg prints postings in file order (no sort option)"]
    if not ctx.prepare():
        return ctx.finish()
    rng = ctx.rng
    quick = ctx.tier == "quick"
    fx = fixed_cases()
    ctx.extra_cov["fixed_cases"] = len(fx)
    process(ctx, fx, "fixed")
    lp = lot_pair_cases()
    ctx.extra_cov["lot_pair_cases"] = len(lp)
    process(ctx, lp, "lot-pair-fixed", tie=False)
    process(ctx, empty_note_line_cases(), "empty-note-line")
    process(ctx, zero_amount_cases(), "zero-amount", tie=False,
            expect={"C06:print:commodity-or-lot", "C06:print:cost-commodity", "C06:print:posting-count", "C06:print:not-fixpoint",
                    "C06:print:amount", "C06:equity:balance-differs"})
    n = 700 if quick else 8000
    n_odd = 300 if quick else 4000
    if ctx.ties_broken:
        ctx.extra_cov["search_mode"] = [t[0] for t in ctx.ties_broken]
        n *= 4
        n_odd *= 4
    CH = 200
    for s in range(0, n, CH):
        process(ctx, [gen_journal(rng) for _ in range(min(CH, n - s))], "random")
    for s in range(0, n_odd, CH):
        process(ctx, [gen_journal(rng, odd=True) for _ in range(min(CH, n_odd - s))], "unusual-text")
    # aimed streams: two-posting transactions (the elision rule), posting states under marked transactions
    aimed = []
    for _ in range(200 if quick else 3000):
        j = gen_journal(rng, n=rng.choice([1, 2]))
        for x in j["xacts"]:
            ps = x["posts"]
            if len(ps) >= 2 and all(p["kind"] != "virtual" for p in ps[:2]) and ps[0]["amount"] is not None and rng.random() < 0.7:
                # a two-posting transaction: second amount elided in the source or written as the exact negation
                x["posts"] = ps = ps[:2]
                ps[1].update(amount=None, cost=None)
                if rng.random() < 0.6 and not ps[0]["cost"]:
                    q = -jgen.amt_q(ps[0]["amount"])
                    a = dict(ps[0]["amount"])
                    a["q"] = "%d/%d" % (q.numerator, q.denominator)
                    ps[1]["amount"] = a
        aimed.append(j)
    process(ctx, aimed, "aimed")
    process(ctx, assignment_cases(rng, 45 if quick else 900), "assignment")
    lots = lot_cases(rng, 60 if quick else 1500)
    for _ in lots:
        ctx.feature("stream:lot-annotations")
    process(ctx, lots, "lots", tie=False)
    pairs = lot_pair_random(rng, 60 if quick else 1500)
    for _ in pairs:
        ctx.feature("stream:lot-pairs")
    process(ctx, pairs, "lot-pairs", tie=False)
    malformed_stream(ctx)
    if ctx.mism:
        ctx.extra_cov["mismatches"] = ctx.mism[:4]
    return ctx.finish()


def replay(obj):
    r = obj.get("replay", {})
    if "ast" not in r and "journal" not in r:
        print(json.dumps(obj, indent=1)[:3000])
        return 1
    vflib.ensure_ledger()
    if "ast" in r:
        j = r["ast"]
        text = render_journal(j)
    else:
        j, text = {"xacts": []}, r["journal"]
    obs = observe(text)
    print(text)
    print("--- ledger print\n" + obs["print"][1] + obs["print"][2])
    print("--- ledger print of that\n" + obs["print2"][1] + obs["print2"][2])
    print("--- ledger equity\n" + obs["equity"][1] + obs["equity"][2])
    fails = oracle(j, obs)
    print("oracle:", fails)
    want = obj.get("fingerprint")
    return 1 if any(f[0] == want for f in fails) or (fails and not want) else 0
