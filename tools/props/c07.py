"""C07 — filters select exactly the matching postings and never alter them.

Theorems: lean/LedgerModel/Props/C07.lean (filter_partition, filter_and/or,
filter_not_not, query_expr_equiv, query_parse_print, begin_end_split, … over
Model/Query.lean + Model/QueryParse.lean).  Tie: Gen/QueryKeywords, Gen/BeginEnd,
Gen/QueryFns re-extracted from query.cc / report.h / report.cc / chain.cc /
filters.h / op.cc / item.cc / post.cc on every run, and this differential check:

  * `ledger query ARGS…` (prints the parsed limit / display predicate) against
    Query.parseAll + render, on canonical renderings of random query trees, on
    spelling variants of them, and on a malformed token soup;
  * `reg --empty --format …` row lists under --limit P / not P / Q / P&Q / P|Q,
    the same predicate as command-line query terms, --limit twice, --only,
    --display, --begin/--end D, --real/--cleared/--uncleared/--pending, against
    Query.filterPosts on the journal AST.

Oracle on ledger's own outputs (plain Python): complement / intersection /
union laws on row multisets with unchanged amounts, query syntax == expression
syntax, --begin/--end split by date, the fixed-option splits, and an independent
evaluation of the predicate on the fields ledger prints for each row.
"""
import os, sys, json, re, copy, tempfile, datetime, itertools, zlib
from fractions import Fraction
from collections import Counter
import vflib, jgen
from vflib import Check

MANIFEST = dict(
    text="Machine-checked proof (Lean 4) that filtering by P and by not P partitions the posting stream (same abort on an "
         "evaluation error, outputs are sub-lists of the input), that and/or give multiset intersection/union, that --begin D / "
         "--end D split the postings at D (stated over the templates re-extracted from report.h), and that query.cc's "
         "lexer+parser returns exactly the tree whose canonical command-line rendering it is given (precedence and "
         "associativity, all trees); lexer tables, grammar ladder, option templates and the mirrored C++ bodies are re-extracted "
         "and pinned on every run; model and rebuilt binary are compared on `ledger query` output and on reg row lists for "
         "P / not P / P&Q / P|Q in both syntaxes, with a Python oracle of the same laws on ledger's own rows.",
    note="Modelled, not verified: boost::regex (patterns are letters/digits/blank/colon: case-insensitive substring search); the "
         "value-expression parser behind `expr TEXT` and --limit TEXT is a parameter (its texts are the model's own canonical "
         "rendering); `for/since/until` sections of a query are recognised but not modelled; posting-level dates and --aux-date "
         "are not generated.",
    technique="Lean 4 proof (induction on posting lists and query trees) + regenerated lexer/grammar/option tables + "
              "differential model/binary check with an implementation-side oracle",
    ref="DESIGN.md §5 C07")

FMT = ('@@R@@|%(beg_line)|%(account)|%(verif_rational(amount))|%(payee)|%(code)|%(cleared)|%(pending)|%(virtual)|%(real)|'
       '%(format_date(date, "%Y-%m-%d"))|%(note)\n')
COMMS = jgen.STD_COMMS[:3]          # $, EUR, AAA
LIT_COMMS = {"EUR": 2, "AAA": 0, "": 2}
EPOCH = datetime.date(1970, 1, 1)


# ---------------------------------------------------------------------------
# journals


def residual(x):
    res = {}
    for p in x["posts"]:
        if p["kind"] == "virtual" or p["amount"] is None:
            continue
        q = jgen.amt_q(p["amount"])
        if p["cost"]:
            cq = jgen.amt_q(p["cost"])
            tot = cq * abs(q) if p["cost"]["per_unit"] else cq
            tot = tot if q > 0 else -tot
            res[p["cost"]["comm"]] = res.get(p["cost"]["comm"], 0) + tot
        else:
            res[p["amount"]["comm"]] = res.get(p["amount"]["comm"], 0) + q
    return {c: q for c, q in res.items() if q != 0}


def fix_elided(x):
    """An elided amount that would expand to several commodities is written out
    (ledger would create one posting per commodity on the same line)."""
    cmap = {c.name: c for c in COMMS}
    for i, p in enumerate(list(x["posts"])):
        if p["amount"] is None:
            res = residual(x)
            if len(res) == 1:
                continue
            new = []
            for cname, q in sorted(res.items()):
                c = cmap[cname]
                dec = c.dec
                while ((-q) * 10 ** dec).denominator != 1 and dec < 30:
                    dec += 1
                new.append(dict(p, amount=jgen.amt(-q, c, dec)))
            if not new:
                new = [dict(p, amount=jgen.amt(0, cmap["EUR"]))]
            x["posts"][i:i + 1] = new


TAGN = ["tga", "tgb", "kk", "kz", "proj"]
TAGV = ["vv1", "vv2", "alpha beta", "x9"]
WORDS = ["pn7", "lunch", "n5", "refund", "memo"]


def add_notes(rng, item, p_note):
    """note lines of an item: the first on the item's own line, further ones as
    `; …` lines below; every tag name is set once per item.  Fills note / note_lines /
    tags (in the order of ledger's metadata map: by name)."""
    lines = []
    tags = {}
    if rng.random() < p_note:
        for i in range(rng.choice([1, 1, 2, 3])):
            kind = rng.choice(["word", "tags", "kv", "kv"])
            free = [t for t in TAGN if t not in tags]
            if kind == "word" or not free:
                lines.append(rng.choice(WORDS))
            elif kind == "tags":
                ts = rng.sample(free, min(len(free), rng.randint(1, 2)))
                for t in ts:
                    tags[t] = None
                lines.append((rng.choice(WORDS) + " " if rng.random() < 0.5 else "") + ":" + ":".join(ts) + ":")
            else:
                k = rng.choice(free)
                tags[k] = rng.choice(TAGV)
                lines.append("%s: %s" % (k, tags[k]))
    item["note_lines"] = lines
    item["note"] = lines[0] if lines else ""
    item["tags"] = [[k, tags[k]] for k in sorted(tags)]


def render_journal(j):
    """Journal text with extra note lines; fills `line` of postings / transactions."""
    out = []
    for x in j["xacts"]:
        lines = jgen.render_xact(x, COMMS)
        x["line"] = len(out) + 1
        out.append(lines[0])
        for l in x.get("note_lines", [])[1:]:
            out.append("    ; " + l)
        for p, l in zip(x["posts"], lines[1:]):
            p["line"] = len(out) + 1
            out.append(l)
            for m in p.get("note_lines", [])[1:]:
                out.append("    ; " + m)
        x["end_line"] = len(out)
        out.append("")
    return "\n".join(out) + "\n"


def model_ast(j):
    """The AST the Lean side sees: notes joined the way textual.cc stores them,
    elided amounts filled in (exact negation of the rest)."""
    m = copy.deepcopy(j)
    for x in m["xacts"]:
        res = residual(x)
        for it in [x] + x["posts"]:
            ls = it.pop("note_lines", [])
            it["note"] = "\n ".join(ls)
        for p in x["posts"]:
            if p["amount"] is None:
                (c, q), = res.items() if res else (("", Fraction(0)),)
                p["amount"] = {"q": "%d/%d" % ((-q).numerator, (-q).denominator), "prec": 0, "comm": c}
                p["was_elided"] = True
    return m


def gen_journal(rng, n_x):
    g = jgen.Gen(rng, comms=COMMS, magnitudes=[10, 500], p_state=0.45, p_code=0.4, p_note=0.0, n_days=40,
                 p_virtual=0.15, p_bvirtual=0.1, p_cost=0.0, p_aux=0.05)
    j = g.journal(n_x)
    for x in j["xacts"]:
        fix_elided(x)
        x["note"] = ""
        add_notes(rng, x, 0.35)
        for p in x["posts"]:
            add_notes(rng, p, 0.3)
    return j


# ---------------------------------------------------------------------------
# predicates (JSON form of Model/QueryProto.lean)


def M(f, p): return {"k": "match", "f": f, "p": p}
def T(t, v=None): return {"k": "tag", "t": t, "v": v}
def FL(f): return {"k": "flag", "f": f}
def NOT(a): return {"k": "not", "a": a}
def AND(a, b): return {"k": "and", "a": a, "b": b}
def OR(a, b): return {"k": "or", "a": a, "b": b}


def CMPA(op, q, dec, comm):
    q = Fraction(q)
    return {"k": "cmp", "s": "amount", "op": op, "amt": {"q": "%d/%d" % (q.numerator, q.denominator), "prec": dec, "comm": comm}}


def CMPD(op, day): return {"k": "cmp", "s": "date", "op": op, "date": day}


OPS = ["eq", "lt", "le", "gt", "ge"]
FLAGS = ["cleared", "pending", "uncleared", "virtual", "real", "actual"]


def pats_of(j):
    accts = sorted({p["account"] for x in j["xacts"] for p in x["posts"]})
    frag = set()
    for a in accts:
        parts = a.split(":")
        frag.update(parts)
        frag.add(a)
        frag.add(parts[0][:3])
        if len(parts) > 1:
            frag.add(parts[0][-3:] + ":" + parts[1][:2])
    frag = sorted(frag)
    return frag


def gen_leaf(rng, j, facts):
    r = rng.random()
    if r < 0.30:
        p = rng.choice(facts["acct"] + ["zzz", "a", "e", "s:"])
        if rng.random() < 0.3:
            p = rng.choice([p.lower(), p.upper()])
        return M("account", p)
    if r < 0.40:
        return M("payee", rng.choice(facts["payee"] + ["payee", "ee 1", "1", "zz"]))
    if r < 0.47:
        return M("code", rng.choice(facts["code"] + ["c", "9", "zz"]))
    if r < 0.54:
        return M("note", rng.choice(WORDS + TAGN + ["vv", "x", ":", "zz"]))
    if r < 0.64:
        t = rng.choice(TAGN + ["tg", "k", "zz"])
        return T(t, rng.choice([None, None] + TAGV + ["vv", "v", "zz"]))
    if r < 0.78:
        return gen_amt_cmp(rng, facts)
    if r < 0.88:
        d = rng.choice(facts["dates"]) + rng.choice([0, 0, 0, 1, -1])
        return CMPD(rng.choice(OPS), d)
    return FL(rng.choice(FLAGS))


def gen_amt_cmp(rng, facts):
    comm = rng.choice(["EUR", "AAA", "", ""])
    dec = LIT_COMMS[comm]
    pool = [q for (q, c) in facts["amounts"] if (c == comm or comm == "") and 0 <= q < 1000 and (q * 10 ** dec).denominator == 1]
    if pool and rng.random() < 0.6:
        q = rng.choice(pool)                      # equality boundary: an amount that occurs
        if rng.random() < 0.3:
            q = max(Fraction(0), q + rng.choice([1, -1]) * Fraction(1, 10 ** dec))
    else:
        q = Fraction(rng.choice([0, 1, 5, 10, 100, 250, 999]))
    if comm == "" and rng.random() < 0.5:
        dec = 0 if q.denominator == 1 else dec
    if (q * 10 ** dec).denominator != 1:
        q = Fraction(int(q))
    return CMPA(rng.choice(OPS), q, dec, comm)


def gen_pred(rng, j, facts, depth):
    if depth == 0 or rng.random() < 0.2:
        return gen_leaf(rng, j, facts)
    r = rng.random()
    if r < 0.25:
        return NOT(gen_pred(rng, j, facts, depth - 1))
    if r < 0.62:
        return AND(gen_pred(rng, j, facts, depth - 1), gen_pred(rng, j, facts, depth - 1))
    return OR(gen_pred(rng, j, facts, depth - 1), gen_pred(rng, j, facts, depth - 1))


def ill_typed(rng, facts):
    """a comparison value.cc rejects; guarded so that it fails on some postings only."""
    bad = rng.choice([{"k": "cmp", "s": "date", "op": rng.choice(OPS), "amt": {"q": "5/1", "prec": 0, "comm": ""}},
                      {"k": "cmp", "s": "amount", "op": rng.choice(OPS), "date": rng.choice(facts["dates"])}])
    guard = rng.choice([FL("real"), FL("cleared"), FL("virtual"), M("account", rng.choice(facts["acct"]))])
    return rng.choice([OR(guard, bad), AND(guard, bad), NOT(OR(guard, bad)), bad])


def depth(p):
    k = p["k"]
    if k == "not":
        return 1 + depth(p["a"])
    if k in ("and", "or", "juxt"):
        return 1 + max(depth(p["a"]), depth(p["b"]))
    if k == "ctx":
        return depth(p["a"])
    return 0


def leaves(p):
    if p["k"] == "not":
        return leaves(p["a"])
    if p["k"] in ("and", "or"):
        return leaves(p["a"]) + leaves(p["b"])
    return [p]


def facts_of(j):
    dates = sorted({x["date"] for x in j["xacts"]})
    amts = []
    for x in j["xacts"]:
        for p in x["posts"]:
            if p["amount"]:
                amts.append((abs(jgen.amt_q(p["amount"])), p["amount"]["comm"]))
    return {"acct": pats_of(j), "payee": sorted({x["payee"] for x in j["xacts"]}),
            "code": sorted({x["code"] for x in j["xacts"] if x["code"]}) or ["c1"],
            "dates": dates + [dates[0] - 1, dates[-1] + 1], "amounts": amts}


# ---------------------------------------------------------------------------
# query trees (surface syntax) from predicates


def to_qtree(rng, p, texts):
    """A query tree denoting predicate p (ambient context: account). Leaves that have
    no query syntax become `expr TEXT` with TEXT = the model's rendering."""
    k = p["k"]
    if k == "match":
        t = {"k": "term", "p": p["p"]}
        return t if p["f"] == "account" else {"k": "ctx", "c": p["f"], "a": t}
    if k == "tag":
        if p["v"] is None and rng.random() < 0.4:
            return {"k": "ctx", "c": "meta", "a": {"k": "term", "p": p["t"]}}
        return {"k": "tag", "t": p["t"], "v": p["v"]}
    if k in ("cmp", "flag"):
        return {"k": "expr", "t": texts[key(p)]}
    if k == "not":
        return {"k": "not", "a": to_qtree(rng, p["a"], texts)}
    a, b = to_qtree(rng, p["a"], texts), to_qtree(rng, p["b"], texts)
    if k == "or" and rng.random() < 0.5:
        return {"k": "juxt", "a": a, "b": b}
    return {"k": k, "a": a, "b": b}


def key(p):
    return json.dumps(p, sort_keys=True)


PLAIN = re.compile(r"^[A-Za-z0-9:][A-Za-z0-9: ]*$")
KEYWORDS = {"and", "or", "not", "code", "desc", "payee", "note", "tag", "meta", "data", "show", "only", "bold", "for",
            "since", "until", "expr"}


def query_ok(p):
    """patterns the canonical rendering can carry (plain words, no keyword)."""
    for l in leaves(p):
        for s in ([l["p"]] if l["k"] == "match" else [l["t"]] + ([l["v"]] if l["v"] is not None else []) if l["k"] == "tag" else []):
            if not PLAIN.match(s) or s in KEYWORDS:
                return False
    return True


def variants(rng, args):
    """spelling variants of a canonical argument list that denote the same query."""
    out = []
    i = 0
    while i < len(args):
        a = args[i]
        nxt = args[i + 1] if i + 1 < len(args) else None
        r = rng.random()
        if a in ("@", "#", "=") and nxt is not None and nxt != "(" and nxt not in ("@", "#", "=", "%", "expr", "not") \
                and not nxt.startswith("%") and r < 0.5:
            out.append(a + nxt)           # @pat, #pat, =pat in one argument
            i += 2
            continue
        if a == "@" and r < 0.75:
            out.append(rng.choice(["payee", "desc"]))
        elif a == "#" and r < 0.75:
            out.append("code")
        elif a == "=" and r < 0.75:
            out.append("note")
        elif a == "%" and r < 0.6:
            out.append(rng.choice(["tag", "meta", "data"]))
        elif a == "and" and r < 0.4:
            out.append("&")
        elif a == "or" and r < 0.4:
            out.append("|")
        elif a == "not" and r < 0.4:
            out.append("!")
        elif a == "(" and nxt is not None and r < 0.3 and PLAIN.match(nxt) and nxt not in KEYWORDS:
            out.append("(" + nxt)
            i += 2
            continue
        elif PLAIN.match(a) and a not in KEYWORDS and r < 0.15 and (i == 0 or args[i - 1] != "expr"):
            out.append(rng.choice(["'%s'", '"%s"', "/%s/"]) % a)
        else:
            out.append(a)
        i += 1
    return out


# ---------------------------------------------------------------------------
# running ledger


def parse_rows(out):
    rows = []
    for chunk in out.split("@@R@@|")[1:]:
        f = chunk.rstrip("\n").split("|", 10)
        if len(f) < 11:
            rows.append({"bad": chunk})
            continue
        vr = f[2]
        if vr.startswith("A:"):
            q, prec, keep, comm = vr[2:].split(":", 3)
            comm = re.split(r" [\{\[\(]", comm)[0]      # lot annotations are not part of the row identity
            n, d = q.split("/")
            amt = (Fraction(int(n), int(d)), comm)
        elif vr.startswith("I:"):
            amt = (Fraction(int(vr[2:])), "")
        else:
            amt = ("?" + vr, "")
        rows.append({"line": int(f[0]), "account": f[1], "amt": amt, "payee": f[3], "code": f[4],
                     "cleared": f[5] == "true", "pending": f[6] == "true", "virtual": f[7] == "true", "real": f[8] == "true",
                     "date": f[9], "note": f[10]})
    return rows


def err_kind(err):
    if "Cannot compare" in err:
        return "cannot-compare"
    if "Error" in err or "error" in err:
        return "other:" + (re.findall(r"Error: ([^\n]*)", err) or ["?"])[-1][:60]
    return None


def reg(path, extra):
    rc, out, err = vflib.ledger_run(["-f", path, "reg", "--empty", "--format", FMT] + list(extra))
    rows = parse_rows(out)
    ek = err_kind(err) if rc != 0 else None
    if rc is None:
        ek = "timeout"
    elif rc != 0 and ek is None:
        ek = "rc=%s" % rc
    return rows, ek


def rowkey(r):
    return (r["line"], r["amt"][0], r["amt"][1])


def ms(rows):
    return Counter(rowkey(r) for r in rows)


def norm_lits(t):
    """amount literals inside {…} print in the style the commodity has in that process
    (`ledger query` reads no journal): compare them as (quantity, commodity)."""
    if t is None:
        return None

    def f(m):
        body = m.group(1)
        num = re.search(r"-?[0-9][0-9,]*(?:\.[0-9]+)?", body)
        if not num:
            return m.group(0)
        comm = (body[:num.start()] + body[num.end():]).strip().strip('"')
        return "{%s %s}" % (Fraction(num.group(0).replace(",", "")), comm)
    return re.sub(r"\{([^{}]*)\}", f, t)


def query_cmd(args):
    """`ledger query ARGS`: (limit text | None, display text | None, error kind | None)."""
    rc, out, err = vflib.ledger_run(["query"] + list(args))
    lim = disp = None
    m = re.search(r"--- Input expression ---\n(.*?)\n\n--- Text as parsed", out, flags=re.S)
    if m:
        lim = m.group(1)
    parts = out.split("====== Display predicate ======")
    if len(parts) > 1:
        first, second = parts[0], parts[1]
        m1 = re.search(r"--- Input expression ---\n(.*?)\n\n--- Text as parsed", first, flags=re.S)
        m2 = re.search(r"--- Input expression ---\n(.*?)\n\n--- Text as parsed", second, flags=re.S)
        lim = m1.group(1) if m1 else None
        disp = m2.group(1) if m2 else None
    ek = None
    if rc != 0:
        t = err
        if "Assertion failed" in t:
            ek = "assert"
        elif "at end of pattern" in t and "Unexpected" in t:
            ek = "backslash-at-end"
        elif "at end of pattern" in t:
            ek = "unterminated"
        elif "Match pattern is empty" in t:
            ek = "empty-pattern"
        elif "operator not followed by argument" in t:
            ek = "op-no-arg:" + re.search(r"Error: (\w+) operator not followed", t).group(1)
        elif "Missing ')'" in t:
            ek = "missing-paren"
        elif "Metadata equality operator not followed by term" in t:
            ek = "meta-eq-no-term"
        else:
            ek = "other:" + (re.findall(r"Error: ([^\n]*)", t) or ["rc=%s" % rc])[-1][:70]
    return lim, disp, ek


# ---------------------------------------------------------------------------
# independent evaluation of a predicate on the fields ledger prints for a row


class Undet(Exception):
    pass


def sub_ci(pat, text):
    return pat.lower() in text.lower()


def py_eval(p, row):
    k = p["k"]
    if k == "match":
        return sub_ci(p["p"], row[p["f"]])
    if k == "flag":
        if p["f"] == "uncleared":
            return not row["cleared"] and not row["pending"]
        if p["f"] == "actual":
            return True
        return row[p["f"]]
    if k == "cmp":
        op = p["op"]
        if p["s"] == "date" and "date" in p:
            a = (datetime.date.fromisoformat(row["date"]) - EPOCH).days
            b = p["date"]
        elif p["s"] == "amount" and "amt" in p:
            a, ca = row["amt"]
            n, d = p["amt"]["q"].split("/")
            b = Fraction(int(n), int(d))
            cb = p["amt"]["comm"]
            if isinstance(a, str) or (ca and cb and ca != cb):
                raise Undet()          # ordering of different commodities is not the property's subject
            if op == "eq" and ca != cb and not (a == 0 and b == 0):
                if ca == "" or cb == "":
                    raise Undet()
        else:
            raise Undet()
        return {"eq": a == b, "lt": a < b, "le": a <= b, "gt": a > b, "ge": a >= b}[op]
    if k == "not":
        return not py_eval(p["a"], row)
    if k == "and":
        return py_eval(p["a"], row) and py_eval(p["b"], row)
    if k == "or":
        return py_eval(p["a"], row) or py_eval(p["b"], row)
    raise Undet()                      # tags: not printed per row


# ---------------------------------------------------------------------------
# the journal-level cases


class JCase:
    def __init__(self, j, preds):
        self.j = j
        self.text = render_journal(j)
        self.mast = model_ast(j)
        self.preds = preds          # list of (P, Q)
        self.path = None


def driver_texts(preds):
    """model rendering of each predicate (the text handed to --limit)."""
    uniq = {}
    for p in preds:
        uniq.setdefault(key(p), p)
    ks = list(uniq)
    outs = vflib.driver_run(["query.render\t" + json.dumps({"pred": uniq[k]}) for k in ks])
    res = {}
    for k, o in zip(ks, outs):
        if not o.startswith("ok\t"):
            raise RuntimeError("query.render failed: %s on %s" % (o, k))
        res[k] = o[3:]
    return res


def model_rows(s):
    rows, _, err = s.rpartition("/")
    out = []
    for r in rows.split(",") if rows else []:
        line, q, comm = r.split(":", 2)
        n, d = q.split("/")
        out.append((int(line), Fraction(int(n), int(d)), comm))
    return out, (None if err == "-" else err)


def shrink_journal(case_j, fails, budget=40):
    """drop transactions while `fails(journal)` stays true."""
    j = copy.deepcopy(case_j)
    n = 0
    changed = True
    while changed and n < budget:
        changed = False
        for i in range(len(j["xacts"])):
            if len(j["xacts"]) <= 1:
                break
            t = copy.deepcopy(j)
            del t["xacts"][i]
            n += 1
            if n >= budget:
                break
            try:
                if fails(t):
                    j = t
                    changed = True
                    break
            except Exception:
                pass
    return j


def with_journal(j, fn):
    text = render_journal(j)
    path = jgen.write_tmp(text)
    try:
        return fn(path, text)
    finally:
        os.unlink(path)


def law_failures(R):
    """R: name -> (rows, err). The property as relations between ledger's own runs.
    Returns list of (fingerprint, description)."""
    bad = []
    allr, allerr = R["all"]
    if allerr:
        return [("C07:unfiltered-run-fails", "reg without a limit fails: %s" % allerr)]
    A = ms(allr)

    def ok(n):
        return n in R and R[n][1] is None

    for a, b, tag in (("P", "notP", "P"), ("Q", "notQ", "Q")):
        if a in R and b in R:
            (ra, ea), (rb, eb) = R[a], R[b]
            if (ea is None) != (eb is None):
                bad.append(("C07:error-asymmetry", "%s run error=%s but negated run error=%s" % (tag, ea, eb)))
            elif ea is None:
                ca, cb = ms(ra), ms(rb)
                if ca & cb:
                    bad.append(("C07:partition-overlap", "rows under both %s and not %s: %s" % (tag, tag, sorted((ca & cb))[:3])))
                if ca + cb != A:
                    miss = (A - (ca + cb))
                    extra = ((ca + cb) - A)
                    bad.append(("C07:partition-cover", "rows(%s)+rows(not %s) != rows(all): missing %s, extra/altered %s" %
                                (tag, tag, sorted(miss)[:3], sorted(extra)[:3])))
            else:
                if ms(ra) + ms(rb) - A:
                    bad.append(("C07:partition-cover", "rows printed before the abort are not rows of the unfiltered run"))
    if ok("P") and ok("Q"):
        cp, cq = ms(R["P"][0]), ms(R["Q"][0])
        if ok("and") and ms(R["and"][0]) != cp & cq:
            bad.append(("C07:and", "rows(P and Q) != rows(P) ∩ rows(Q)"))
        if ok("or") and ms(R["or"][0]) != cp | cq:
            bad.append(("C07:or", "rows(P or Q) != rows(P) ∪ rows(Q)"))
        if ok("twice") and ms(R["twice"][0]) != cp & cq:
            bad.append(("C07:limit-twice", "rows(--limit P --limit Q) != rows(P) ∩ rows(Q)"))
        for n in ("and", "or", "twice"):
            if n in R and R[n][1] is not None:
                bad.append(("C07:error-asymmetry", "P and Q evaluate everywhere but the %s run fails: %s" % (n, R[n][1])))
    if ok("P") and ok("Q") and "mixed" in R:
        if R["mixed"][1] is not None or ms(R["mixed"][0]) != ms(R["P"][0]) & ms(R["Q"][0]):
            bad.append(("C07:limit-and-query", "rows(--limit Q QUERY-TERMS(P)) != rows(P) ∩ rows(Q)"))
    if "query" in R and "P" in R:
        (rq, eq), (rp, ep) = R["query"], R["P"]
        if (eq is None) != (ep is None) or (eq is None and [rowkey(r) for r in rq] != [rowkey(r) for r in rp]):
            bad.append(("C07:query-vs-expr", "command-line query terms select other rows than the equivalent --limit expression"))
    for n in ("only", "display"):
        if n in R and ok("P") and R[n][1] is None and ms(R[n][0]) != ms(R["P"][0]):
            bad.append(("C07:stage-" + n, "rows(--%s P) != rows(--limit P)" % n))
    if ok("nn") and ok("P") and ms(R["nn"][0]) != ms(R["P"][0]):
        bad.append(("C07:not-not", "rows(not not P) != rows(P)"))
    return bad


def run_jcase(ctx, jc, texts, quick):
    """all runs of one journal; returns nothing, reports through ctx."""
    path = jgen.write_tmp(jc.text)
    jc.path = path
    try:
        jobs = [("all", [])]
        plan = []
        for idx, (P, Q, qargs) in enumerate(jc.preds):
            tP, tQ = texts[key(P)], texts[key(Q)]
            tnP, tnQ = texts[key(NOT(P))], texts[key(NOT(Q))]
            runs = {"P": ["--limit", tP], "notP": ["--limit", tnP], "Q": ["--limit", tQ], "notQ": ["--limit", tnQ],
                    "and": ["--limit", texts[key(AND(P, Q))]], "or": ["--limit", texts[key(OR(P, Q))]],
                    "twice": ["--limit", tP, "--limit", tQ], "nn": ["--limit", texts[key(NOT(NOT(P)))]]}
            if idx % 3 == 0:
                runs["only"] = ["--only", tP]
                runs["display"] = ["--display", tP]
            if qargs is not None:
                runs["query"] = list(qargs)
                if idx % 2 == 1:
                    runs["mixed"] = ["--limit", tQ] + list(qargs)     # report.cc 298: the query is and-ed to --limit
            plan.append(runs)
            for n, a in runs.items():
                jobs.append(((idx, n), a))
        results = dict(zip([k for k, _ in jobs], vflib.pmap(lambda ja: reg(path, ja[1]), jobs)))
        allrun = results["all"]
        # model
        mlines = []
        for (P, Q, qargs) in jc.preds:
            mlines.append("query.filter\t" + json.dumps({"journal": jc.mast, "preds": [P, NOT(P), Q, NOT(Q), AND(P, Q), OR(P, Q), NOT(NOT(P))]}))
        mouts = vflib.driver_run(mlines + ["query.fields\t" + json.dumps({"journal": jc.mast})])
        # glue: the fields a predicate looks at
        fields = mouts[-1]
        if fields.startswith("ok\t") and not allrun[1]:
            mf = [f.split("|") for f in fields[3:].split(";")] if fields[3:] else []
            lf = [[str(r["line"]), r["account"], r["payee"], r["code"], r["note"].replace("\n", "\\n"), "1" if r["cleared"] else "0",
                   "1" if r["pending"] else "0", "1" if r["virtual"] else "0", "1" if r["real"] else "0",
                   str((datetime.date.fromisoformat(r["date"]) - EPOCH).days)] for r in allrun[0] if "bad" not in r]
            if mf != lf:
                d = next(((a, b) for a, b in zip(mf, lf) if a != b), (len(mf), len(lf)))
                ctx.tie_broken("corr:query.fields", "posting fields differ (model, ledger): %r\njournal:\n%s" % (d, jc.text[:1500]))
                ctx.feature("fields-mismatch")
            else:
                ctx.feature("fields-agree")
        else:
            ctx.tie_broken("corr:query.fields", "fields op failed: %s / %s" % (fields[:200], allrun[1]))
        for idx, ((P, Q, qargs), runs, mo) in enumerate(zip(jc.preds, plan, mouts)):
            ctx.count()
            R = {"all": allrun}
            for n in runs:
                R[n] = results[(idx, n)]
            if not mo.startswith("ok\t"):
                ctx.tie_broken("corr:query.filter", "driver: %s" % mo[:200])
                continue
            mres = [model_rows(s) for s in mo[3:].split(";")]
            names = ["P", "notP", "Q", "notQ", "and", "or", "nn"]
            agree = True
            for n, mr in zip(names, mres):
                irows, ierr = R[n]
                if [rowkey(r) for r in irows if "bad" not in r] != mr[0] or (mr[1] or None) != ierr:
                    agree = False
                    ctx.tie_broken("corr:query.filter", "model and ledger disagree on %s = %s\nmodel rows %s err %s\nledger rows %s err %s\njournal:\n%s" %
                                   (n, runs[n], mr[0][:8], mr[1], [rowkey(r) for r in irows][:8], ierr, jc.text[:2000]))
                    ctx.mism.append({"run": n, "args": runs[n], "journal": jc.text, "model": [str(x) for x in mr[0]], "model_err": mr[1],
                                     "ledger": [str(rowkey(r)) for r in irows], "ledger_err": ierr})
                    break
            for n, ref in (("twice", "and"), ("query", "P"), ("only", "P"), ("display", "P")):
                if n in R:
                    mr = mres[names.index(ref)]
                    irows, ierr = R[n]
                    if [rowkey(r) for r in irows if "bad" not in r] != mr[0] or (mr[1] or None) != ierr:
                        agree = False
                        ctx.tie_broken("corr:query.filter:" + n, "model and ledger disagree on %s = %s\nmodel %s %s\nledger %s %s\njournal:\n%s" %
                                       (n, runs[n], mr[0][:8], mr[1], [rowkey(r) for r in irows][:8], ierr, jc.text[:2000]))
            if agree:
                ctx.traces_validated += 1
            # ---- oracle on ledger's own outputs
            fails = law_failures(R)
            # independent evaluation on printed fields
            if not allrun[1]:
                for n, pr in (("P", P), ("Q", Q)):
                    if R[n][1] is None:
                        try:
                            want = [rowkey(r) for r in allrun[0] if py_eval(pr, r)]
                        except Undet:
                            ctx.feature("oracle:direct-undetermined")
                            continue
                        ctx.feature("oracle:direct-evaluated")
                        if want != [rowkey(r) for r in R[n][0]]:
                            if ctx.direct_budget > 0:
                                ctx.direct_budget -= 1
                                site, sub, subtext = localise_pred(jc.path, pr, allrun[0])
                            else:
                                site, sub, subtext = "unlocalised", pr, runs[n][1]
                            fails.append(("C07:selects-nonmatching:" + site,
                                          "rows under --limit %s are not the postings that satisfy it (smallest failing part: %s)" %
                                          (runs[n][1], subtext), sub))
            for f in fails:
                report_violation(ctx, jc, P, Q, qargs, runs, f[0], f[1], texts, sub=(f[2] if len(f) > 2 else None))
            # ---- accounting
            for n, pr in (("P", P), ("Q", Q)):
                rows, e = R[n]
                if e is None and 0 < len(rows) < len(allrun[0]):
                    ctx.nontrivial(("rows", key(pr), zlib.crc32(jc.text.encode())))
                    ctx.feature("nontrivial")
                elif e is None and len(rows) == 0:
                    ctx.feature("selects-nothing")
                elif e is None:
                    ctx.feature("selects-everything")
                else:
                    ctx.feature("evaluation-error")
                ctx.feature("depth:%d" % depth(pr))
                for l in leaves(pr):
                    ctx.feature("leaf:" + l["k"] + (":" + l.get("f", l.get("s", "")) if l["k"] in ("match", "cmp", "flag") else ""))
            if qargs is not None:
                ctx.feature("query-syntax-run")
            if "mixed" in runs:
                ctx.feature("limit-plus-query-run")
            ctx.sample({"limit": runs["P"][1], "query_args": qargs, "rows": len(R["P"][0]), "of": len(allrun[0])}, cap=6)
    finally:
        os.unlink(path)


def site_of(p):
    k = p["k"]
    if k == "match":
        return "match:" + p["f"]
    if k == "cmp":
        return "cmp:%s:%s" % (p["s"], p["op"])
    if k == "flag":
        return "flag:" + p["f"]
    return k


def localise_pred(path, pr, allrows):
    """smallest sub-predicate whose --limit run differs from its direct evaluation on
    the rows of the unfiltered run: (site, sub-predicate, its text)."""
    cur = pr
    for _ in range(8):
        kids = [cur[x] for x in ("a", "b") if x in cur and isinstance(cur[x], dict) and "k" in cur[x]]
        nxt = None
        if kids:
            tx = driver_texts(kids)
            for kd in kids:
                rows, e = reg(path, ["--limit", tx[key(kd)]])
                try:
                    want = [rowkey(r) for r in allrows if py_eval(kd, r)]
                except Undet:
                    continue
                if e is None and want != [rowkey(r) for r in rows]:
                    nxt = kd
                    break
        if nxt is None:
            break
        cur = nxt
    return site_of(cur), cur, driver_texts([cur])[key(cur)]


def report_violation(ctx, jc, P, Q, qargs, runs, fp, what, texts, sub=None):
    """shrink the journal for this law and report (once per fingerprint)."""
    if any(v[0] == fp for v in ctx.violations) or any(h[0] == fp for h in ctx.known_hits):
        return
    which = {"C07:and": ["P", "Q", "and"], "C07:or": ["P", "Q", "or"], "C07:limit-twice": ["P", "Q", "twice"],
             "C07:query-vs-expr": ["P", "query"], "C07:limit-and-query": ["P", "Q", "mixed"], "C07:stage-only": ["P", "only"], "C07:stage-display": ["P", "display"],
             "C07:not-not": ["P", "nn"]}.get(fp, ["P", "notP", "Q", "notQ"])
    sel = {n: runs[n] for n in which if n in runs}
    direct = fp.startswith("C07:selects-nonmatching")
    if direct and sub is not None:
        sel = {"P": ["--limit", driver_texts([sub])[key(sub)]]}

    def fails(j):
        def go(path, text):
            R = {"all": reg(path, [])}
            for n, a in sel.items():
                R[n] = reg(path, a)
            if direct:
                pr = sub if sub is not None else P
                if R["P"][1] is None:
                    try:
                        return [rowkey(r) for r in R["all"][0] if py_eval(pr, r)] != [rowkey(r) for r in R["P"][0]]
                    except Undet:
                        return False
                return False
            return any(f[0] == fp for f in law_failures(R))
        return with_journal(j, go)
    text = jc.text
    if ctx.shrink_budget > 0:
        ctx.shrink_budget -= 1
        try:
            text = render_journal(shrink_journal(jc.j, fails))
        except Exception:
            pass
    rep = {"journal": text, "runs": {n: ["reg", "--empty", "--format", FMT] + a for n, a in sel.items()},
           "law": fp, "P": texts.get(key(P)), "Q": texts.get(key(Q)), "query_args": qargs}
    if direct and sub is not None:
        rep["pred"] = sub
    ctx.violation(fp, what, rep)


# ---------------------------------------------------------------------------
# --begin / --end and the fixed options


def date_arg(day):
    return jgen.date_text(day)


def run_options(ctx, jc, days):
    path = jgen.write_tmp(jc.text)
    try:
        allrows, allerr = reg(path, [])
        jobs = []
        for d in days:
            jobs.append((("begin", d), ["--begin", date_arg(d)]))
            jobs.append((("end", d), ["--end", date_arg(d)]))
            jobs.append((("pfrom", d), ["-p", "from " + date_arg(d)]))
            jobs.append((("puntil", d), ["-p", "until " + date_arg(d)]))
        for o in ("real", "cleared", "uncleared", "pending", "actual"):
            jobs.append(((o, 0), ["--" + o]))
        jobs.append((("virtual", 0), ["--limit", "virtual"]))
        res = dict(zip([k for k, _ in jobs], vflib.pmap(lambda ja: reg(path, ja[1]), jobs)))
        NOMODEL = ("virtual", "pfrom", "puntil")
        mlines = ["query.option\t" + json.dumps({"journal": jc.mast, "opt": k[0], "day": k[1]}) for k, _ in jobs if k[0] not in NOMODEL]
        mouts = dict(zip([k for k, _ in jobs if k[0] not in NOMODEL], vflib.driver_run(mlines)))
        A = ms(allrows)
        for (k, args) in jobs:
            if k[0] in NOMODEL:
                continue
            ctx.count()
            mo = mouts[k]
            rows, err = res[k]
            if not mo.startswith("ok\t"):
                ctx.tie_broken("corr:query.option", "driver %s on %s" % (mo, k))
                continue
            _, text, r = mo.split("\t")
            mr = model_rows(r)
            if mr[0] != [rowkey(x) for x in rows] or (mr[1] or None) != err:
                ctx.tie_broken("corr:query.option:" + k[0], "model and ledger disagree on %s (model text %s)\nmodel %s\nledger %s %s\njournal:\n%s" %
                               (args, text, mr[0][:10], [rowkey(x) for x in rows][:10], err, jc.text[:1500]))
                ctx.mism.append({"run": k[0], "args": args, "journal": jc.text})
            else:
                ctx.traces_validated += 1
        # oracle
        for d in days:
            for a, b in (("begin", "pfrom"), ("end", "puntil")):
                (r1, e1), (r2, e2) = res[(a, d)], res[(b, d)]
                if e1 != e2 or [rowkey(r) for r in r1] != [rowkey(r) for r in r2]:
                    ctx.violation("C07:period-" + a, "-p '%s %s' selects other postings than --%s %s" % (b[1:], date_arg(d), a, date_arg(d)),
                                  {"journal": jc.text, "law": "C07:period-" + a,
                                   "runs": {a: ["reg", "--empty", "--format", FMT, "--" + a, date_arg(d)],
                                            b: ["reg", "--empty", "--format", FMT, "-p", "%s %s" % (b[1:], date_arg(d))]}})
                else:
                    ctx.feature("period-form-agrees")
            (rb, eb), (re_, ee) = res[("begin", d)], res[("end", d)]
            fp = what = None
            if eb or ee or allerr:
                fp, what = "C07:begin-end", "--begin/--end run failed: %s %s" % (eb, ee)
            else:
                cb, ce = ms(rb), ms(re_)
                iso = (EPOCH + datetime.timedelta(days=d)).isoformat()
                if cb & ce:
                    fp, what = "C07:begin-end", "a posting is reported under --begin %s and under --end %s" % (date_arg(d), date_arg(d))
                elif cb + ce != A:
                    fp, what = "C07:begin-end", "--begin %s and --end %s together are not the journal's postings: missing %s extra %s" % (
                        date_arg(d), date_arg(d), sorted(A - (cb + ce))[:3], sorted((cb + ce) - A)[:3])
                elif any(r["date"] < iso for r in rb) or any(r["date"] >= iso for r in re_):
                    fp, what = "C07:begin-end", "--begin/--end %s: a posting is on the wrong side of the date" % date_arg(d)
                on = [r for r in allrows if r["date"] == iso]
                if on:
                    ctx.feature("begin-end:posting-dated-on-D")
                    if not fp and not all(rowkey(r) in cb for r in on):
                        fp, what = "C07:begin-end", "postings dated exactly %s are not under --begin" % date_arg(d)
                if 0 < len(rb) < len(allrows):
                    ctx.nontrivial(("beginend", d, zlib.crc32(jc.text.encode())))
            if fp and not any(v[0] == fp for v in ctx.violations) and not any(h[0] == fp for h in ctx.known_hits):
                def fails(j, d=d):
                    def go(path2, text2):
                        a, _ = reg(path2, [])
                        b, e1 = reg(path2, ["--begin", date_arg(d)])
                        e, e2 = reg(path2, ["--end", date_arg(d)])
                        iso2 = (EPOCH + datetime.timedelta(days=d)).isoformat()
                        return bool(e1 or e2 or (ms(b) & ms(e)) or ms(b) + ms(e) != ms(a) or any(r["date"] < iso2 for r in b) or any(r["date"] >= iso2 for r in e))
                    return with_journal(j, go)
                small = jc.text
                if ctx.shrink_budget > 0:
                    ctx.shrink_budget -= 1
                    try:
                        small = render_journal(shrink_journal(jc.j, fails))
                    except Exception:
                        pass
                ctx.violation(fp, what, {"journal": small, "law": "begin-end", "day": d,
                                         "runs": {"begin": ["reg", "--empty", "--format", FMT, "--begin", date_arg(d)],
                                                  "end": ["reg", "--empty", "--format", FMT, "--end", date_arg(d)]}})
        pairs = [("real", "virtual", "C07:real-virtual"), ("cleared", "uncleared", "C07:cleared-uncleared")]
        for a, b, fp in pairs:
            (ra, ea), (rb, eb) = res[(a, 0)], res[(b, 0)]
            if ea or eb or (ms(ra) & ms(rb)) or ms(ra) + ms(rb) != A:
                ctx.violation(fp, "--%s and %s do not split the postings" % (a, b),
                              {"journal": jc.text, "law": fp, "runs": {a: ["reg", "--empty", "--format", FMT, "--" + a],
                                                                       b: ["reg", "--empty", "--format", FMT] + (["--" + b] if b != "virtual" else ["--limit", "virtual"])}})
            elif 0 < len(ra) < len(allrows):
                ctx.nontrivial((a, zlib.crc32(jc.text.encode())))
        for o, f in (("real", "real"), ("cleared", "cleared"), ("pending", "pending")):
            rows, e = res[(o, 0)]
            if not e and [rowkey(r) for r in rows] != [rowkey(r) for r in allrows if r[f]]:
                ctx.violation("C07:option-" + o, "--%s does not select the postings whose `%s` is true" % (o, f),
                              {"journal": jc.text, "law": "option", "runs": {o: ["reg", "--empty", "--format", FMT, "--" + o]}})
    finally:
        os.unlink(path)



# ---------------------------------------------------------------------------
# chained limit sources: a first --limit TEXT combined with a later source of the
# limit predicate (report.h 748-753: value = "(" + value + ")&(" + str + ")")


def paren(t):
    """(T) unless the rendering already is one parenthesised group."""
    return t if t.startswith("(") else "(" + t + ")"


def bare(p, t):
    """a predicate written without its outer parentheses (`account =~ /x/`, `cleared`)."""
    return t[1:-1] if p["k"] in ("match", "cmp") else t


def first_forms(P, Q, tx):
    """(name, --limit TEXT, predicate it denotes)"""
    tP, tQ = paren(tx[key(P)]), paren(tx[key(Q)])
    return [("(P)|(Q)", tP + "|" + tQ, OR(P, Q)), ("(P)&(Q)", tP + "&" + tQ, AND(P, Q)),
            ("P|Q", bare(P, tx[key(P)]) + "|" + bare(Q, tx[key(Q)]), OR(P, Q)), ("(P)", tP, P),
            ("((P)|(Q))", "(" + tP + "|" + tQ + ")", OR(P, Q))]


def later_sources(R, rargs, tx, day):
    """(name, command-line arguments, predicate it denotes)"""
    return [("--begin", ["--begin", date_arg(day)], CMPD("ge", day)), ("--end", ["--end", date_arg(day)], CMPD("lt", day)),
            ("--real", ["--real"], FL("real")), ("--cleared", ["--cleared"], FL("cleared")),
            ("--uncleared", ["--uncleared"], OR(FL("uncleared"), FL("pending"))),
            ("--limit R", ["--limit", tx[key(R)]], R), ("query terms", list(rargs), R)]


def simple_query_pred(rng, facts):
    """a predicate with an obvious command-line spelling: (pred, args)"""
    r = rng.random()
    a = rng.choice(facts["acct"])
    if r < 0.4:
        return M("account", a), [a]
    if r < 0.6:
        pay = rng.choice(facts["payee"])
        return M("payee", pay), ["@" + pay]
    if r < 0.8:
        return NOT(M("account", a)), ["not", a]
    b = rng.choice(facts["acct"])
    return OR(M("account", a), M("account", b)), [a, b]


def chain_law(first, later, both):
    (rf, ef), (rl, el), (rb, eb) = first, later, both
    if ef or el:
        return None
    if eb:
        return "the combined run fails (%s) although both single-source runs succeed" % eb
    want = ms(rf) & ms(rl)
    if ms(rb) != want:
        return "rows != rows(first) ∩ rows(later): missing %s, extra %s" % (sorted(want - ms(rb))[:4], sorted(ms(rb) - want)[:4])
    return None


def run_chain(ctx, j, text, mast, combos, tx):
    """combos: list of (P, Q, R, rargs, day, [names of first forms], [names of later sources])."""
    path = jgen.write_tmp(text)
    try:
        jobs = {}
        plan = []
        for ci, (P, Q, R, rargs, day, fsel, lsel) in enumerate(combos):
            jobs[("P", ci)] = ["--limit", tx[key(P)]]
            for fn, ftext, fpred in first_forms(P, Q, tx):
                if fn not in fsel:
                    continue
                jobs[("first", ci, fn)] = ["--limit", ftext]
                for ln, largs, lpred in later_sources(R, rargs, tx, day):
                    if ln not in lsel:
                        continue
                    jobs[("later", ci, ln)] = largs
                    jobs[("both", ci, fn, ln, 0)] = ["--limit", ftext] + largs
                    jobs[("both", ci, fn, ln, 1)] = largs + ["--limit", ftext]
                    plan.append((ci, fn, ftext, fpred, ln, largs, lpred))
        keys = list(jobs)
        res = dict(zip(keys, vflib.pmap(lambda k: reg(path, jobs[k]), keys)))
        mouts = vflib.driver_run(["query.filter\t" + json.dumps({"journal": mast, "preds": [AND(fp, lp)]}) for _, _, _, fp, _, _, lp in plan])
        for (ci, fn, ftext, fpred, ln, largs, lpred), mo in zip(plan, mouts):
            first, later, rP = res[("first", ci, fn)], res[("later", ci, ln)], res[("P", ci)]
            discr = rP[1] is None and later[1] is None and bool(ms(rP[0]) - ms(later[0]))
            for order in (0, 1):
                ctx.count()
                both = res[("both", ci, fn, ln, order)]
                args = jobs[("both", ci, fn, ln, order)]
                ctx.feature("chain:first " + fn)
                ctx.feature("chain:later " + ln)
                if discr:
                    ctx.feature("chain:some posting matches P but fails the later source")
                    ctx.nontrivial(("chain", ftext, tuple(largs), order, zlib.crc32(text.encode())))
                # tie: the model's and-combination
                if mo.startswith("ok\t"):
                    mr = model_rows(mo[3:])
                    if mr[1] is None and first[1] is None and later[1] is None:
                        if [rowkey(r) for r in both[0]] != mr[0] or both[1] is not None:
                            ctx.tie_broken("corr:query.filter:chained", "model and ledger disagree on %s\nmodel %s\nledger %s %s\njournal:\n%s" %
                                           (args, mr[0][:10], [rowkey(r) for r in both[0]][:10], both[1], text[:1500]))
                        else:
                            ctx.traces_validated += 1
                else:
                    ctx.tie_broken("corr:query.filter:chained", "driver: %s" % mo[:200])
                # oracle on ledger's own three runs
                why = chain_law(first, later, both)
                if why:
                    fp = "C07:chained-limits"
                    if any(v[0] == fp for v in ctx.violations) or any(h[0] == fp for h in ctx.known_hits):
                        continue
                    sel = {"first": jobs[("first", ci, fn)], "later": largs, "both": args}

                    def fails(jj, sel=sel):
                        def go(path2, text2):
                            return chain_law(reg(path2, sel["first"]), reg(path2, sel["later"]), reg(path2, sel["both"])) is not None
                        return with_journal(jj, go)
                    small = text
                    if j is not None and ctx.shrink_budget > 0:
                        ctx.shrink_budget -= 1
                        try:
                            small = render_journal(shrink_journal(j, fails))
                        except Exception:
                            pass
                    ctx.violation(fp, "a first limit %s combined with %s is not the intersection of the two: reg %s: %s" %
                                  (ftext, " ".join(largs), " ".join(args), why),
                                  {"journal": small, "law": fp, "first_form": fn, "later_source": ln,
                                   "runs": {n: ["reg", "--empty", "--format", FMT] + a for n, a in sel.items()}})
    finally:
        os.unlink(path)


def boundary_chain_journal():
    """three transactions on which `Assets` postings exist on both sides of every later source."""
    E = lambda q: jgen.amt(Fraction(q), COMMS[1])
    A = lambda q: jgen.amt(Fraction(q), COMMS[2])

    def post(acct, a, kind="real", state=0):
        return {"account": acct, "kind": kind, "state": state, "amount": a, "cost": None, "assert": None, "note": "",
                "note_lines": [], "tags": []}

    def xact(d, payee, state, code, posts):
        return {"date": d, "aux": None, "state": state, "code": code, "payee": payee, "note": "", "note_lines": [], "tags": [],
                "posts": posts}
    d = jgen.day_of(2020, 2, 1)
    return {"xacts": [
        xact(d - 1, "shop", 1, "c1", [post("Assets:Cash", E(-10)), post("Expenses:Food", E(10))]),
        xact(d, "work", 0, "", [post("Assets:Bank", E(100)), post("Expenses:Rent", A(5), "virtual", 2), post("Income:Salary", E(-100))]),
        xact(d + 1, "shop", 2, "c2", [post("Expenses:Food", E("7/2")), post("Assets:Cash", E("-7/2"), "bvirtual"),
                                      post("Assets:Cash", E(0), "bvirtual", 1)])]}, d


ALL_FIRST = ["(P)|(Q)", "(P)&(Q)", "P|Q", "(P)", "((P)|(Q))"]
ALL_LATER = ["--begin", "--end", "--real", "--cleared", "--uncleared", "--limit R", "query terms"]


def run_chain_boundary(ctx):
    j, d = boundary_chain_journal()
    text = render_journal(j)
    mast = model_ast(j)
    P, Q = M("account", "Assets"), M("payee", "work")
    combos = [(P, Q, M("account", "Bank"), ["Bank"], d, ALL_FIRST, ALL_LATER),
              (P, FL("pending"), NOT(M("account", "Cash")), ["not", "Cash"], d + 1, ALL_FIRST, ALL_LATER),
              (FL("cleared"), M("account", "Rent"), M("payee", "shop"), ["@shop"], d, ALL_FIRST, ALL_LATER)]
    tx = driver_texts([x for c in combos for x in c[:3]])
    run_chain(ctx, j, text, mast, combos, tx)


# ---------------------------------------------------------------------------
# AST level: `ledger query ARGS` vs Query.parseAll


SOUP = ["(", ")", "and", "or", "not", "@", "#", "=", "%", "&", "|", "!", "foo", "Bar:Baz", "a=b", "%x=", "%x=y", "=n", "@p", "#c",
        "'q r'", "'open", '"ab"', "''", "x(y", "(a", "b)", "a b", " lead", "show", "only", "bold", "payee", "code", "note", "tag",
        "desc", "meta", "data", "f&g", "h|i", "!j", "k!l", "tail ", "@(", "%(", "x", "y", "z", "", "'ab\\", "\\foo", "\\and",
        "'a\\'b'", "= n", "%t =v"]


def run_ast_level(ctx, n_trees, n_soup, maxdepth):
    rng = ctx.rng
    # canonical renderings of random query trees (leaves: terms in every context, tags, expr)
    fake_facts = {"acct": ["Assets", "Bank", "Expenses:Food", "Cash", "Inc"], "payee": ["payee 1", "shop"], "code": ["c1", "c12"],
                  "dates": [18262, 18293, 18300], "amounts": [(Fraction(10), "EUR"), (Fraction(5, 2), "EUR"), (Fraction(7), "AAA")]}
    preds = []
    shapes = boundary_shapes()
    for s in shapes:
        preds.append(s)
    while len(preds) < n_trees:
        p = gen_pred(rng, None, fake_facts, rng.randint(1, maxdepth))
        if query_ok(p):
            preds.append(p)
    leaf_preds = [l for p in preds for l in leaves(p) if l["k"] in ("cmp", "flag")]
    texts = driver_texts(preds + leaf_preds)
    cases = []
    for p in preds:
        q = to_qtree(rng, p, texts)
        exprs = {texts[key(l)]: l for l in leaves(p) if l["k"] in ("cmp", "flag")}
        cases.append((p, q, exprs))
    canon = vflib.driver_run(["query.canon\t" + json.dumps({"q": q, "exprs": ex}) for p, q, ex in cases])
    jobs = []
    for (p, q, ex), c in zip(cases, canon):
        if not c.startswith("ok\t"):
            ctx.tie_broken("corr:query.canon", "driver: %s on %s" % (c, json.dumps(q)[:300]))
            continue
        _, a, rendered = c.split("\t")
        args = json.loads(a)
        jobs.append(("canon", args, ex, rendered, p))
        v = variants(rng, args)
        if v != args:
            jobs.append(("variant", v, ex, rendered, p))
        if rng.random() < 0.25:
            # a display / only / bold section after the limit
            sec = rng.choice(["show", "only", "bold"])
            jobs.append(("section:" + sec, args + [sec] + args[:3], ex, rendered, p))
    for i in range(n_soup):
        n = rng.randint(1, 7)
        jobs.append(("soup", [rng.choice(SOUP) for _ in range(n)], {}, None, None))
    mouts = vflib.driver_run(["query.parse\t" + json.dumps({"args": a, "exprs": ex}) for _, a, ex, _, _ in jobs])
    louts = vflib.pmap(lambda jb: query_cmd(jb[1]), jobs)
    for (kind, args, ex, rendered, p), mo, (lim, disp, ek) in zip(jobs, mouts, louts):
        ctx.count()
        ctx.feature("ast:" + kind.split(":")[0])
        f = mo.split("\t")
        if f[0] == "ok":
            mlim, mshow = (None if f[1] == "-" else f[1]), (None if f[2] == "-" else f[2])
            if f[5] == "1":
                ctx.feature("ast:period-section-skipped")
                continue
            if ek is not None and ek.startswith("other:") and norm_lits(lim) == norm_lits(mlim):
                # the limit was parsed alike; `ledger query` then failed re-reading its own text (C15's subject)
                ctx.feature("ast:reparse-error-after-equal-limit")
                ctx.traces_validated += 1
                continue
            if (norm_lits(lim), norm_lits(disp), ek) != (norm_lits(mlim), norm_lits(mshow), None):
                ctx.tie_broken("corr:query.parse", "ledger query %r\n ledger: limit=%r display=%r err=%r\n model : limit=%r display=%r" %
                               (args, lim, disp, ek, mlim, mshow))
                ctx.mism.append({"args": args, "ledger": [lim, disp, ek], "model": mo})
                continue
            if rendered is not None and kind in ("canon", "variant") and mlim != rendered:
                ctx.tie_broken("corr:query.canon", "parse(args of q) != pred(q): %r -> %r, expected %r" % (args, mlim, rendered))
                continue
            ctx.traces_validated += 1
            if p is not None and depth(p) >= 1:
                ctx.nontrivial(("ast", tuple(args)))
        else:
            mk = f[1]
            if mk == "bad-expr":
                ctx.feature("ast:expr-text-unknown-to-model")
                continue
            ctx.feature("ast:error:" + mk.split(":")[0])
            if ek != mk:
                ctx.tie_broken("corr:query.parse", "ledger query %r: ledger err=%r limit=%r, model err=%r" % (args, ek, lim, mk))
                ctx.mism.append({"args": args, "ledger": [lim, disp, ek], "model": mo})
            else:
                ctx.traces_validated += 1
        ctx.sample({"query_args": args, "ledger_limit": lim, "model": mo[:200]}, cap=9)


def boundary_shapes():
    a, b, c, d = M("account", "Assets"), M("payee", "shop"), M("code", "c1"), M("note", "memo")
    t = T("tga")
    return [a, NOT(a), NOT(OR(a, b)), NOT(AND(a, b)), AND(AND(a, b), c), AND(a, AND(b, c)), OR(OR(a, b), c), OR(a, OR(b, c)),
            OR(a, AND(b, c)), AND(OR(a, b), c), AND(a, OR(b, c)), OR(AND(a, b), c), OR(AND(a, b), AND(c, d)), AND(OR(a, b), OR(c, d)),
            NOT(NOT(a)), AND(NOT(a), NOT(b)), OR(NOT(AND(a, NOT(b))), t), AND(T("kk", "vv1"), NOT(t)),
            OR(a, OR(b, AND(c, d))), AND(AND(AND(a, b), c), d), OR(OR(OR(a, b), c), d), NOT(OR(AND(a, b), NOT(OR(c, d))))]


# ---------------------------------------------------------------------------


def fixed_preds(facts):
    """boundary predicates for every journal: nothing / everything, exact dates, exact amounts."""
    d0 = facts["dates"][0]
    am = [q for q, c in facts["amounts"] if c == "EUR" and q < 1000 and (q * 100).denominator == 1][:1] or [Fraction(10)]
    a, b, c = M("account", "Assets"), M("account", "Expenses"), FL("cleared")
    return [(M("account", "zzz"), FL("actual")), (CMPD("ge", d0), CMPD("lt", d0 + 1)),
            (CMPA("ge", am[0], 2, "EUR"), CMPA("gt", am[0], 2, "EUR")), (CMPA("le", am[0], 2, ""), CMPA("eq", am[0], 2, "EUR")),
            (NOT(OR(a, b)), AND(AND(a, c), FL("real"))), (OR(OR(a, b), c), NOT(AND(a, c)))]


def run(tier, seed):
    ctx = Check("C07", tier, seed)
    ctx.mism = []
    ctx.shrink_budget = 6
    ctx.direct_budget = 6
    ctx.rule = ("seeded journals (jgen: 3 commodities, real/virtual/balanced-virtual postings, states, codes, notes, tags, costs, elided "
                "amounts) x predicate pairs to depth 4 over account/payee/code/note matches, tags, amount and date comparisons "
                "(boundary operands taken from the journal), state/kind flags, and/or/not, plus ill-typed comparisons; each run under "
                "--limit P, not P, Q, not Q, P&Q, P|Q, not not P, --limit twice, --only, --display and as command-line query terms; "
                "--begin/--end at every transaction date and its neighbours; chained limit sources (a first --limit written as (P)|(Q), "
                "(P)&(Q), P|Q, (P), ((P)|(Q)) x a later --begin/--end/--real/--cleared/--uncleared/--limit/query terms, both orders, "
                "on a fixed boundary journal and on every generated one); `ledger query` on canonical and variant renderings of "
                "query trees and on a malformed token soup. Non-trivial = the predicate selects a proper non-empty subset of the "
                "postings (distinct by predicate and journal) or a query tree of depth >= 1 parsed alike (distinct by arguments)")
    ctx.assumptions = ["boost::regex on letters/digits/blank/colon patterns is case-insensitive substring search",
                       "the value-expression parser reads the model's canonical rendering of a predicate as that predicate (C15)",
                       "postings have no date of their own; --aux-date is not used"]
    if not ctx.prepare():
        return ctx.finish()
    search = bool(ctx.ties_broken)
    rng = ctx.rng
    quick = tier == "quick"
    n_j = 40 if quick else 450
    per_j = 10 if quick else 16
    maxd = 4
    if search:
        n_j *= 3
        ctx.feature("search-mode")
    # corpus first
    cdir = os.path.join(vflib.ROOT, "corpus", "C07")
    if os.path.isdir(cdir):
        for fn in sorted(os.listdir(cdir)):
            if fn.endswith(".json"):
                try:
                    replay(json.load(open(os.path.join(cdir, fn))), ctx=ctx)
                except Exception as e:
                    ctx.feature("corpus-error")
    # boundary stream: chained limit sources on a fixed journal, every run
    run_chain_boundary(ctx)
    # AST level
    run_ast_level(ctx, 260 if quick else 8000, 260 if quick else 10000, maxd)
    # journal level
    jcases = []
    allpreds = []
    for i in range(n_j):
        j = gen_journal(rng, rng.randint(3, 9) if i % 4 else rng.randint(1, 3))
        facts = facts_of(j)
        pairs = list(fixed_preds(facts)) if i % 2 == 0 else []
        while len(pairs) < per_j:
            r = rng.random()
            if r < 0.08:
                P, Q = ill_typed(rng, facts), gen_pred(rng, j, facts, rng.randint(0, 2))
            else:
                P, Q = gen_pred(rng, j, facts, rng.randint(0, maxd)), gen_pred(rng, j, facts, rng.randint(0, maxd - 1))
            pairs.append((P, Q))
        jcases.append((j, facts, pairs))
        for P, Q in pairs:
            allpreds += [P, Q, NOT(P), NOT(Q), AND(P, Q), OR(P, Q), NOT(NOT(P))] + [l for l in leaves(P) if l["k"] in ("cmp", "flag")]
    texts = driver_texts(allpreds)
    # query-syntax arguments for P (canonical, sometimes a spelling variant)
    canon_jobs = []
    for j, facts, pairs in jcases:
        for P, Q in pairs:
            if query_ok(P) and all(l["k"] != "cmp" or ("amt" in l) == (l["s"] == "amount") for l in leaves(P)):
                q = to_qtree(rng, P, texts)
                ex = {texts[key(l)]: l for l in leaves(P) if l["k"] in ("cmp", "flag")}
                canon_jobs.append((key(P), q, ex))
    couts = vflib.driver_run(["query.canon\t" + json.dumps({"q": q, "exprs": ex}) for _, q, ex in canon_jobs])
    qargs_of = {}
    for (k, q, ex), c in zip(canon_jobs, couts):
        if c.startswith("ok\t"):
            _, a, rendered = c.split("\t")
            if rendered != texts[k]:
                ctx.tie_broken("corr:query.canon", "pred of query tree %s renders %s, expected %s" % (json.dumps(q)[:200], rendered, texts[k]))
                continue
            args = json.loads(a)
            qargs_of[k] = variants(rng, args) if rng.random() < 0.4 else args
    for j, facts, pairs in jcases:
        jc = JCase(j, [(P, Q, qargs_of.get(key(P))) for P, Q in pairs])
        run_jcase(ctx, jc, texts, quick)
        days = sorted(set(facts["dates"] + [d + 1 for d in facts["dates"][:3]]))
        if quick:
            days = days[:6] + days[-2:]
        run_options(ctx, jc, sorted(set(days)))
        # chained limit sources on this journal
        combos = []
        nco = 2 if quick else 4
        for _ in range(nco):
            P, Q = gen_leaf(rng, j, facts), gen_leaf(rng, j, facts)
            if rng.random() < 0.5:
                P = M("account", rng.choice(facts["acct"][:6] + ["a", "e"]))
            R, rargs = simple_query_pred(rng, facts)
            day = rng.choice(facts["dates"][:-2])
            full = (not quick) and rng.random() < 0.25
            fsel = ALL_FIRST if full else rng.sample(ALL_FIRST, 2) + ["(P)|(Q)"]
            lsel = ALL_LATER if full else rng.sample(ALL_LATER, 3)
            if all(l["k"] != "cmp" or ("amt" in l) == (l["s"] == "amount") for l in [P, Q]):
                combos.append((P, Q, R, rargs, day, fsel, lsel))
        if combos:
            tx = driver_texts([x for c in combos for x in c[:3]])
            run_chain(ctx, j, jc.text, jc.mast, combos, tx)
    if ctx.mism:
        ctx.extra_cov["mismatches"] = ctx.mism[:6]
    return ctx.finish()


def replay(obj, ctx=None):
    r = obj.get("replay", obj)
    if "journal" not in r:
        print(json.dumps(obj, indent=1)[:3000])
        return 1
    if ctx is None:
        vflib.ensure_ledger()
    path = jgen.write_tmp(r["journal"])
    try:
        R = {"all": reg(path, [])}
        for n, a in r.get("runs", {}).items():
            extra = a[a.index(FMT) + 1:] if FMT in a else a
            R[n] = reg(path, extra)
        if r.get("law") == "begin-end":
            b, e, a = ms(R["begin"][0]), ms(R["end"][0]), ms(R["all"][0])
            iso = (EPOCH + datetime.timedelta(days=r["day"])).isoformat()
            bad = bool((b & e) or b + e != a or any(x["date"] < iso for x in R["begin"][0]) or any(x["date"] >= iso for x in R["end"][0]))
            fails = [("C07:begin-end", "split at %s" % iso)] if bad else []
        elif r.get("law") == "C07:chained-limits":
            why = chain_law(R["first"], R["later"], R["both"])
            fails = [(r["law"], why)] if why else []
        elif str(r.get("law", "")).startswith("C07:period-"):
            (n1, r1), (n2, r2) = [(n, v) for n, v in R.items() if n != "all"][:2]
            fails = [(r["law"], "rows differ")] if (r1[1] != r2[1] or [rowkey(x) for x in r1[0]] != [rowkey(x) for x in r2[0]]) else []
        elif r.get("law") in ("C07:real-virtual", "C07:cleared-uncleared"):
            (n1, r1), (n2, r2) = [(n, v) for n, v in R.items() if n != "all"][:2]
            bad = bool(ms(r1[0]) & ms(r2[0])) or ms(r1[0]) + ms(r2[0]) != ms(R["all"][0])
            fails = [(r["law"], "split")] if bad else []
        elif str(r.get("law", "")).startswith("C07:selects-nonmatching") and "pred" in r:
            try:
                want = [rowkey(x) for x in R["all"][0] if py_eval(r["pred"], x)]
                fails = [(r["law"], "expected lines %s" % [w[0] for w in want])] if want != [rowkey(x) for x in R["P"][0]] else []
            except Undet:
                fails = []
        else:
            fails = [f for f in law_failures(R) if f[0] == r.get("law") or not r.get("law")]
        if ctx is not None:
            ctx.count()
            for fp, what in fails:
                ctx.violation(fp, what, r)
            return 0
        print("journal:\n" + r["journal"])
        for n, (rows, e) in R.items():
            print("%-8s %s  err=%s" % (n, [rowkey(x)[0] for x in rows], e))
        print("law failures now:", fails)
        return 1 if fails else 0
    finally:
        os.unlink(path)
