"""C08 — aggregate reports do not depend on input order or file layout.

Theorems: lean/LedgerModel/Props/C08.lean over the model Model/OrderFree.lean
(amount text scan under the learned DECIMAL_COMMA flag, style learning, finalize
with elided postings, add_xact / add_post accumulation, include directives over a
virtual file tree, stable date sort).  Tie: Gen/OrderFree.lean re-extracted on
every run (pinned bodies + three interpreted shapes) and this differential check:
driver op `of.load` against the rebuilt binary on real temporary file trees.

Implementation-side oracle (plain Python, no model): PAIRED RUNS of the binary on
the same transactions presented in another transaction order, another posting
order inside transactions, and cut into 1-4 included files in nested directories;
`bal --flat --empty` balances (own and family, exact, per base commodity) must be
identical, the `reg --sort date --empty` rows must form the same multiset per date
with the same running total at each date boundary, every commodity must
print a sample amount with the same precision and style, and every account's
printed own amount and total (and the precision counters behind them) must be identical.
"""
import os, re, json, shutil, tempfile, itertools, random, hashlib
from fractions import Fraction
import vflib, jgen
from vflib import Check

MANIFEST = dict(
    text="Machine-checked proof (Lean 4) over an executable model of journal loading (amount text scan under the learned "
         "DECIMAL_COMMA flag, max/OR style learning, finalize with elided postings, add_xact/add_post accumulation, sorted-glob "
         "include directives over a virtual file tree, stable date sort) that on the decidable order-free fragment every "
         "permutation of the transactions, every permutation of postings inside a transaction and every cut into included files "
         "yields the same exact per-account per-commodity balances, the same learned precision/style, the same per-date register "
         "multisets and running totals at date boundaries (all journals, all permutations, no bound). The mirrored C++ is "
         "re-extracted and compared with its pinned copy on every run; the model is run against the rebuilt binary on real "
         "temp file trees; an independent paired-run oracle on ledger's own outputs (exhaustive permutations for <=5 "
         "transactions, sampled beyond, posting permutations, 1-4 nested included files incl. glob includes) supplies the "
         "failing input when a proof or the tie breaks.",
    note="Guards made explicit and proved necessary on witnesses that are replayed on the binary every run (recorded as excluded "
         "points, not violations): styleConsistent (amount parsing consults the commodity's DECIMAL_COMMA flag, amount.cc "
         "1107-1172: `1,5 EUR` then `1.000 EUR` vs the reverse) and exactlyBalanced (acceptance tests the balance at the display "
         "precision learned so far, xact.cc 377 / amount.cc 832-865). Commodities are base symbols (lot annotations from costs "
         "are not modelled). Displayed balances are compared too: the printed own amount and total of every account and the precision counters behind them (what an amount without commodity is displayed with) must be identical across all presentations, and the model carries the counter of accumulated balances (C08.balance_prec_is_max, C08.load_perm_prec). Known finding: a cancelled commodity kept "
         "as a zero entry by balance += yields a posting-order dependent zero-amount generated row (C08:zero-row:balance-keeps-zero-entry, "
         "same root cause as C03:zero-entry-balance).",
    technique="Lean 4 proof of permutation/flattening invariance + regenerated pinned source + differential model/binary check with paired-run oracle",
    ref="DESIGN.md §5 C08")

# ---------------------------------------------------------------------------
# commodities: jgen's standard styles plus one written with the decimal comma


class DCCommodity(jgen.Commodity):
    dc = True


EUX = DCCommodity("EUX", 2, prefix=False, space=True, thousands=True)
COMMS = jgen.STD_COMMS[:6]
ALL_COMMS = COMMS + [EUX]
CMAP = {c.name: c for c in ALL_COMMS}

_orig_fmt = jgen.fmt_amount


def _fmt_amount(q, c, dec=None, thousands=None):
    s = _orig_fmt(q, c, dec, thousands)
    if getattr(c, "dc", False):
        s = s.translate({ord(","): ".", ord("."): ","})
    return s


def num_text(a):
    """the quantity exactly as render_amount writes it, without sign and symbol."""
    c = CMAP.get(a["comm"]) or jgen.Commodity(a["comm"], a["prec"])
    bare = jgen.Commodity("", c.dec, thousands=c.thousands)
    s = _orig_fmt(abs(jgen.amt_q(a)), bare, a["prec"])
    if getattr(c, "dc", False):
        s = s.translate({ord(","): ".", ord("."): ","})
    return s


def wamt(a):
    if a is None:
        return None
    c = CMAP.get(a["comm"]) or jgen.Commodity(a["comm"], a["prec"])
    q = jgen.amt_q(a)
    d = {"comm": a["comm"], "neg": q < 0, "text": num_text(a), "suffixed": not c.prefix, "separated": bool(c.space),
         "q": a["q"]}
    if "per_unit" in a:
        d["per_unit"] = a["per_unit"]
    return d


def xact_item(x):
    return {"t": "x", "date": x["date"],
            "posts": [{"account": p["account"], "kind": p["kind"], "amount": wamt(p["amount"]),
                       "cost": wamt(p["cost"]), "assert": wamt(p.get("assert"))} for p in x["posts"]]}


def xact_text(x):
    return "\n".join(jgen.render_xact(x, ALL_COMMS)) + "\n"


# ---------------------------------------------------------------------------
# layouts: a layout is {"main": (dir tuple, name), "files": [{"dir": [...], "name": str, "items": [ITEM]}]}
# ITEM = ("x", xact id) | ("inc", [path parts], glob) | ("raw", text, model item or None)


def single_file(order):
    return {"main": ((), "main.ledger"), "files": [{"dir": [], "name": "main.ledger", "items": [("x", i) for i in order]}]}


def realise(xs, layout, post_orders=None):
    """-> (files {relpath: text}, model json string)."""
    post_orders = post_orders or {}
    files = {}
    mfiles = []
    for f in layout["files"]:
        lines = []
        items = []
        for it in f["items"]:
            if it[0] == "x":
                x = xs[it[1]]
                po = post_orders.get(it[1])
                if po is not None:
                    x = dict(x, posts=[x["posts"][k] for k in po])
                lines.append(xact_text(x))
                items.append(xact_item(x))
            elif it[0] == "inc":
                lines.append("include " + "/".join(list(it[1]) + [it[2]]) + "\n")
                items.append({"t": "inc", "path": list(it[1]), "glob": it[2]})
            else:
                lines.append(it[1])
                if it[2] is not None:
                    items.append(it[2])
        files["/".join(list(f["dir"]) + [f["name"]])] = "\n".join(lines)
        mfiles.append({"dir": list(f["dir"]), "name": f["name"], "items": items})
    md, mn = layout["main"]
    mj = {"main": {"dir": list(md), "name": mn}, "fuel": 8, "files": mfiles}
    return files, json.dumps(mj, ensure_ascii=False)


def cut_layout(rng, order, k, style=None, cuts=None):
    """Cut `order` into k chunks (some may be empty) stored in nested directories and joined by include directives."""
    n = len(order)
    if cuts is None:
        cuts = sorted(rng.randint(0, n) for _ in range(k - 1))
    bounds = [0] + list(cuts) + [n]
    chunks = [order[bounds[i]:bounds[i + 1]] for i in range(k)]
    style = style or rng.choice(["explicit", "glob", "chain", "mixed", "dotdot", "decoy"])
    files = []
    main_items = []
    if k == 1:
        style = rng.choice(["explicit", "glob"]) if style not in ("explicit", "glob") else style
    if style == "explicit":
        dirs = [["inc"], ["inc", "a"], ["inc", "a", "b"], ["other"]]
        for i, ch in enumerate(chunks):
            d = dirs[i % len(dirs)]
            files.append({"dir": d, "name": "f%d.dat" % i, "items": [("x", j) for j in ch]})
            main_items.append(("inc", d, "f%d.dat" % i))
    elif style == "glob":
        # one glob include; the files are visited in sorted name order, whatever the chunk order was
        names = ["p%d.dat" % i for i in range(k)]
        rng.shuffle(names)
        for i, ch in enumerate(chunks):
            files.append({"dir": ["inc", "g"], "name": names[i], "items": [("x", j) for j in ch]})
        files.append({"dir": ["inc", "g"], "name": "skipped.txt", "items": [("raw", "; not matched by the glob\n", None)]})
        main_items.append(("inc", ["inc", "g"], rng.choice(["*.dat", "p*.dat", "p?.dat", "P*.DAT"])))
    elif style == "chain":
        # main includes the first file, every file includes the next one from a deeper directory
        d = ["c0"]
        for i, ch in enumerate(chunks):
            its = [("x", j) for j in ch]
            if i + 1 < k:
                pos = rng.randint(0, len(its))
                its.insert(pos, ("inc", ["c%d" % (i + 1)], "n%d.dat" % (i + 1)))
            files.append({"dir": list(d), "name": "n%d.dat" % i, "items": its})
            d = d + ["c%d" % (i + 1)]
        main_items.append(("inc", ["c0"], "n0.dat"))
    elif style == "dotdot":
        for i, ch in enumerate(chunks):
            its = [("x", j) for j in ch]
            if i + 1 < k:
                its.append(("inc", ["..", "s%d" % (i + 1)], "m.dat"))
            files.append({"dir": ["s%d" % i], "name": "m.dat", "items": its})
        main_items.append(("inc", ["s0"], "m.dat"))
    elif style == "decoy":
        # the period of the include argument is a regex dot: `c.dat` also includes `cxdat`; upper case matches too
        names = ["c.dat", "cxdat", "C.DAT", "c_dat"][:k]
        for i, ch in enumerate(chunks):
            files.append({"dir": ["d"], "name": names[i], "items": [("x", j) for j in ch]})
        main_items.append(("inc", ["d"], "c.dat"))
    else:  # mixed: some transactions stay in main, between the includes
        for i, ch in enumerate(chunks):
            if i % 2 == 0:
                main_items += [("x", j) for j in ch]
            else:
                files.append({"dir": ["mix", "d%d" % i], "name": "part.dat", "items": [("x", j) for j in ch]})
                main_items.append(("inc", ["mix", "d%d" % i], "*.dat"))
    files.append({"dir": [], "name": "main.ledger", "items": main_items})
    return {"main": ((), "main.ledger"), "files": files, "style": style, "k": k}


# ---------------------------------------------------------------------------
# observing the binary

BAL_FMT = ("%(account)|%(verif_rational(amount))|%(verif_rational(total))|"
           "%(join(scrub(display_amount)))|%(join(scrub(display_total)))\n")
REG_FMT = ('%(format_date(date, "%Y-%m-%d"))|%(account)|%(verif_rational(amount))|%(verif_rational(total))|'
           '%(amount ? (amount / amount * 1234567) : "z")\n')
_ANN = re.compile(r"^(.*?)(?: [\{\[\(].*)?$")


def base_comm(c):
    b = _ANN.match(c).group(1)
    if len(b) >= 2 and b[0] == '"' and b[-1] == '"':
        b = b[1:-1]
    return b


def parse_value(s):
    """verif_rational text -> (dict annotated commodity -> Fraction) ; None when not numeric."""
    tag, _, rest = s.partition(":")
    if tag == "I":
        n = int(rest)
        return {"": Fraction(n)} if n else {}
    if tag == "N":
        return {}
    if tag == "A":
        parts = [rest]
    elif tag == "B":
        parts = rest.split(";") if rest else []
    else:
        return None
    d = {}
    for p in parts:
        q, prec, keep, comm = p.split(":", 3)
        n, dd = q.split("/")
        d[comm] = d.get(comm, Fraction(0)) + Fraction(int(n), int(dd))
    return d


def parse_precs(s):
    """verif_rational text -> dict base commodity -> largest precision counter among its nonzero components."""
    tag, _, rest = s.partition(":")
    if tag == "A":
        parts = [rest]
    elif tag == "B":
        parts = rest.split(";") if rest else []
    else:
        return {}
    d = {}
    for p in parts:
        q, prec, keep, comm = p.split(":", 3)
        if q.split("/")[0] in ("0", "-0"):
            continue
        b = base_comm(comm)
        d[b] = max(d.get(b, 0), int(prec))
    return d


def by_base(d, keep_zero=False):
    r = {}
    for c, q in d.items():
        b = base_comm(c)
        r[b] = r.get(b, Fraction(0)) + q
    if not keep_zero:
        r = {c: q for c, q in r.items() if q != 0}
    return r


def fz(d):
    return tuple(sorted((c, str(q)) for c, q in d.items()))


def style_of_sample(text, comm):
    """(precision, flags) shown by `1234567` of the commodity; D is unobservable without a decimal or thousands mark."""
    t = _ANN.match(text).group(1).strip()
    sym = comm
    if t.startswith('"'):
        sym = '"%s"' % comm
    if t.startswith(sym):
        prefix = True
        rest = t[len(sym):]
    elif t.endswith(sym):
        prefix = False
        rest = t[:-len(sym)]
    else:
        return ("?", t)
    sep = rest != rest.strip()
    num = rest.strip()
    marks = [ch for ch in num if ch in ",."]
    if not marks:
        prec, thousands, dc = 0, False, None
    else:
        groups = re.split(r"[,.]", num)
        # 1234567 has 7 digits: with thousands marks the integer part is 1 / 234 / 567
        if groups[0] == "1234567":
            thousands = False
            dec_mark = marks[0]
            prec = len(groups[1])
            dc = dec_mark == ","
        else:
            thousands = True
            th_mark = marks[0]
            dc = th_mark == "."
            prec = len(groups[3]) if len(groups) > 3 else 0
    flags = ("P" if prefix else "") + ("S" if sep else "") + ("T" if thousands else "")
    return (prec, flags, dc)


def _kind_of(t):
    if "Transaction does not balance" in t:
        return "unbalanced"
    if "Only one posting with null amount allowed" in t:
        return "two-nulls"
    if "There cannot be null amounts after balancing" in t:
        return "null-after"
    if "File to include was not found" in t:
        return "include-not-found"
    if re.search(r"Too many (periods|commas) in amount|Incorrect use of (thousand-mark|decimal)", t):
        return "amount"
    if "Balance assertion off by" in t:
        return "assert-off"
    return "other"


def err_kinds(stderr):
    """every error ledger reports, in the order it reports them (it goes on parsing after an error)."""
    return [_kind_of(l) for l in stderr.split("\n") if l.startswith("Error:")]


def err_kind(stderr):
    """the FIRST error: the model stops there."""
    ks = err_kinds(stderr)
    return ks[0] if ks else None


class Obs:
    """canonical observation of one presentation of a journal on the binary."""
    __slots__ = ("err", "errs", "bal", "rawbal", "disp", "groups", "rows", "styles", "stderr", "cmdfail")

    def key(self):
        return (self.err, self.bal, self.groups, self.styles)


def observe(files, main):
    d = tempfile.mkdtemp(prefix="c08-")
    try:
        for rel, text in files.items():
            p = os.path.join(d, rel)
            os.makedirs(os.path.dirname(p), exist_ok=True)
            with open(p, "w", encoding="utf-8") as f:
                f.write(text)
        mp = os.path.join(d, main)
        rc1, out1, err1 = vflib.ledger_run(["-f", mp, "bal", "--flat", "--empty", "--format", BAL_FMT])
        rc2, out2, err2 = vflib.ledger_run(["-f", mp, "reg", "--sort", "date", "--empty", "--format", REG_FMT])
    finally:
        shutil.rmtree(d, ignore_errors=True)
    o = Obs()
    o.stderr = (err1 or "")[-600:].replace(d, "<tmp>")
    o.cmdfail = None
    o.err = None
    o.errs = ()
    o.bal = o.rawbal = o.disp = o.groups = o.rows = o.styles = None
    if rc1 != 0 or rc2 != 0:
        k1, k2 = err_kinds(err1 or ""), err_kinds(err2 or "")
        o.err = (k1 or k2 or ["rc=%s/%s" % (rc1, rc2)])[0]     # what the model, which stops at the first error, must answer
        o.errs = tuple(sorted(k1 or k2 or [o.err]))            # what any other presentation must report (as a multiset)
        if k1 != k2:
            o.cmdfail = "bal and reg fail differently: %r vs %r" % (k1, k2)
        return o
    bal = {}
    raw = {}
    disp = {}
    for line in out1.split("\n"):
        if not line:
            continue
        f = line.split("|")
        if len(f) != 5:
            o.cmdfail = "unparsable bal line %r" % line
            continue
        own, tot = parse_value(f[1]), parse_value(f[2])
        if own is None or tot is None:
            o.cmdfail = "unparsable bal value %r" % line
            continue
        bal[f[0]] = (fz(by_base(own)), fz(by_base(tot)))
        raw[f[0]] = (fz({c: q for c, q in own.items() if q != 0}), fz({c: q for c, q in tot.items() if q != 0}))
        # what the user sees: the printed own amount and total, and the precision counters behind them
        disp[f[0]] = (tuple(sorted(parse_precs(f[1]).items())), tuple(sorted(parse_precs(f[2]).items())), f[3], f[4])
    o.bal = tuple(sorted(bal.items()))
    o.rawbal = tuple(sorted(raw.items()))
    o.disp = tuple(sorted(disp.items()))
    rows = []
    styles = {}
    for line in out2.split("\n"):
        if not line:
            continue
        f = line.split("|")
        if len(f) != 5:
            o.cmdfail = "unparsable reg line %r" % line
            continue
        amt, tot = parse_value(f[2]), parse_value(f[3])
        if amt is None or tot is None or len(amt) != 1:
            o.cmdfail = "unparsable reg value %r" % line
            continue
        (c, q), = amt.items()
        b = base_comm(c)
        rows.append((f[0], f[1], b, str(q), fz(by_base(tot))))
        if f[4] != "z":
            if b == "":
                continue      # an amount without commodity has no commodity style; it prints at its own precision counter
            st = style_of_sample(f[4], b)
            old = styles.get(b)
            if old is not None and old != st:
                o.cmdfail = "commodity %s printed in two styles: %r %r" % (b, old, st)
            styles[b] = st
    o.rows = tuple(rows)
    # per date: multiset of rows and the running total on the last row of the group
    groups = {}
    for r in rows:
        g = groups.setdefault(r[0], [[], None])
        g[0].append((r[1], r[2], r[3]))
        g[1] = r[4]
    dates = [r[0] for r in rows]
    if dates != sorted(dates):
        o.cmdfail = "reg --sort date is not sorted by date"
    o.groups = tuple(sorted((dt, tuple(sorted(g[0])), g[1]) for dt, g in groups.items()))
    o.styles = tuple(sorted(styles.items()))
    return o


# ---------------------------------------------------------------------------
# the model's answer, brought to the same canonical form


def parse_model(ans):
    f = ans.split("\t")
    m = {"raw": ans, "ok": f[0] == "ok", "flags": None, "err": None}
    if f[0] == "err":
        m["err"] = f[1]
        m["flags"] = f[2] if len(f) > 2 else None
        return m
    m["flags"] = f[1]
    bal = {}
    precs = {}
    for rec in (f[2].split(";") if f[2] else []):
        a, own, tot = rec.split("|")
        def comps(s):
            d = {}
            pr = {}
            for c in (s.split(",") if s else []):
                k, q, prec = c.rsplit("~", 2)
                d[k] = Fraction(q)
                pr[k] = int(prec)
            return fz(d), tuple(sorted(pr.items()))
        (o1, p1), (o2, p2) = comps(own), comps(tot)
        bal[a] = (o1, o2)
        precs[a] = (p1, p2)
    m["bal"] = bal
    m["precs"] = precs
    rows = []
    for rec in (f[3].split(";") if f[3] else []):
        dt, a, cq = rec.split("|")
        c, q = cq.rsplit("~", 1)
        rows.append((jgen.date_text(int(dt), "-"), a, c, str(Fraction(q))))
    m["rows"] = tuple(rows)
    st = {}
    for rec in (f[4].split(";") if f[4] else []):
        c, prec, fl = rec.split("|")
        st[c] = (int(prec), fl)
    m["styles"] = st
    return m


def model_vs_binary(m, o):
    """None when the model's answer and the observation agree, else a description."""
    if o.cmdfail:
        return "observation: " + o.cmdfail
    if o.err or m["err"]:
        if (o.err or "ok") != (m["err"] or "ok"):
            return "model %s, ledger %s" % (m["err"] or "ok", o.err or "ok")
        return None
    obal = dict(o.bal)
    for a, v in m["bal"].items():
        if a not in obal:
            # `bal --flat --empty` lists the accounts that have postings of their own, not bare ancestors
            if v[0]:
                return "account %r: model %r, not listed by ledger" % (a, v)
        elif obal[a] != v:
            return "account %r: model %r ledger %r" % (a, v, obal[a])
    for a, v in obal.items():
        if a and a not in m["bal"]:
            return "account %r listed by ledger %r, unknown to the model" % (a, v)
    if "" in obal:
        tot = {}
        for a, v in m["bal"].items():
            for c, q in v[0]:
                tot[c] = tot.get(c, Fraction(0)) + Fraction(q)
        if fz({c: q for c, q in tot.items() if q != 0}) != obal[""][1]:
            return "grand total: model %r ledger %r" % (fz(tot), obal[""][1])
    # precision counters of the accumulated balances (what commodity-less totals are displayed with).  Accounts that
    # received a zero-amount posting are left out: value_t += counts a zero operand while the sum is still a single
    # AMOUNT, balance_t += skips it (the model keeps balances as balance_t throughout).
    zero_accts = {r[1] for r in o.rows if Fraction(r[3]) == 0}
    for a, (pown, ptot, _, _) in dict(o.disp).items():
        if not a or a not in m["precs"] or any(accountish == a or accountish.startswith(a + ":") for accountish in zero_accts):
            continue
        if (pown, ptot) != m["precs"][a]:
            return "precision counters of account %r: model %r ledger %r" % (a, m["precs"][a], (pown, ptot))
    orows = tuple(r[:4] for r in o.rows)
    if orows != m["rows"]:
        for i, (x, y) in enumerate(itertools.zip_longest(m["rows"], orows)):
            if x != y:
                return "register row %d: model %r ledger %r" % (i, x, y)
    for c, st in dict(o.styles).items():
        if st[0] == "?":
            return "style sample of %s not understood: %r" % (c, st)
        # a commodity seen only in costs (PARSE_NO_MIGRATE) exists with the default style: precision 0, no flags
        ms = m["styles"].get(c) or (0, "P")
        mflags = ms[1].replace("D", "")
        if (ms[0], mflags) != (st[0], st[1]):
            return "style of %s: model %r ledger %r" % (c, ms, st)
        if st[2] is not None and st[2] != ("D" in ms[1]):
            return "decimal-comma style of %s: model %r ledger %r" % (c, ms, st)
    return None


# ---------------------------------------------------------------------------
# the oracle: two presentations of the same transactions must be observed alike

ZERO_FP = "C08:zero-row:balance-keeps-zero-entry"


def compare_obs(a, b, kind, elided_accounts):
    """[] when observation b (a variant) equals a (the base); else [(fingerprint, description)]."""
    out = []
    if a.cmdfail or b.cmdfail:
        return [("C08:observation", a.cmdfail or b.cmdfail)]
    if a.errs != b.errs:
        return [("C08:accept:%s" % kind, "accepted/rejected differently: base %s, variant %s" %
                 (",".join(a.errs) or "ok", ",".join(b.errs) or "ok"))]
    if a.err:
        return []
    if a.bal != b.bal:
        da, db = dict(a.bal), dict(b.bal)
        diff = [(k, da.get(k), db.get(k)) for k in sorted(set(da) | set(db)) if da.get(k) != db.get(k)]
        out.append(("C08:balance:%s" % kind, "exact balance differs: %r" % (diff[:3],)))
    # lot components (`$ {2.1085... EUR} [date]`) are not compared: the TEXT of a computed lot price shows the
    # internal precision counter of the division (amount.cc operator/=), which is clamped by the precision the
    # price commodity had when the transaction was finalized; the price itself is the same exact rational.
    if a.disp != b.disp and a.bal == b.bal:
        da, db = dict(a.disp), dict(b.disp)
        diff = [(k, da.get(k), db.get(k)) for k in sorted(set(da) | set(db)) if da.get(k) != db.get(k)]
        out.append(("C08:display:%s" % kind, "same exact balances but displayed differently (printed amount/total or "
                    "precision counter): %r" % (diff[:2],)))
    if a.styles != b.styles:
        out.append(("C08:style:%s" % kind, "commodity precision/style differs: base %r variant %r" % (a.styles, b.styles)))
    if a.groups != b.groups:
        ga = {g[0]: g for g in a.groups}
        gb = {g[0]: g for g in b.groups}
        only_zero = True
        other = []
        for dt in sorted(set(ga) | set(gb)):
            x, y = ga.get(dt), gb.get(dt)
            if x == y:
                continue
            if x is None or y is None:
                only_zero = False
                other.append("date %s present in one run only" % dt)
                continue
            if x[2] != y[2]:
                only_zero = False
                other.append("running total at the end of %s: %r vs %r" % (dt, x[2], y[2]))
            rx, ry = list(x[1]), list(y[1])
            for r in list(rx):
                if r in ry:
                    rx.remove(r)
                    ry.remove(r)
            for r in rx + ry:
                if not (Fraction(r[2]) == 0 and r[0] in elided_accounts):
                    only_zero = False
                    other.append("row %r of %s in one run only" % (r, dt))
        if only_zero:
            out.append((ZERO_FP, "the registers differ only by zero-amount generated rows on the account of the elided posting"))
        else:
            out.append(("C08:register:%s" % kind, "date-sorted register differs: " + "; ".join(other[:3])))
    return out


# ---------------------------------------------------------------------------
# cases


class Case:
    def __init__(self, name, xs, comms_used=None):
        self.name = name
        self.xs = xs                  # list of jgen transactions; ids are list positions
        self.variants = []            # (kind, layout, post_orders)

    def ids(self):
        return list(range(len(self.xs)))

    def elided_accounts(self):
        return {p["account"] for x in self.xs for p in x["posts"] if p["amount"] is None}


def exchange_xact(rng, day):
    """two commodities without a cost: the implicit exchange of xact.cc 220-283."""
    a, b = rng.sample(COMMS[:4], 2)
    qa = Fraction(rng.randint(1, 5000 * 10 ** a.dec), 10 ** a.dec)
    qb = Fraction(rng.randint(1, 5000 * 10 ** b.dec), 10 ** b.dec)
    posts = [{"account": "Assets:Broker", "kind": "real", "state": 0, "amount": jgen.amt(qa, a), "cost": None, "assert": None, "note": ""},
             {"account": "Assets:Cash", "kind": "real", "state": 0, "amount": jgen.amt(-qb, b), "cost": None, "assert": None, "note": ""}]
    if rng.random() < 0.4:   # split one side over two postings
        h = Fraction(rng.randint(1, max(1, int(qa * 10 ** a.dec) - 1)), 10 ** a.dec)
        if 0 < h < qa:
            posts[0]["amount"] = jgen.amt(h, a)
            posts.append({"account": "Assets:Broker:Sub", "kind": "real", "state": 0, "amount": jgen.amt(qa - h, a), "cost": None,
                          "assert": None, "note": ""})
    rng.shuffle(posts)
    return {"date": day, "aux": None, "state": 0, "code": "", "payee": "exchange", "note": "", "posts": posts}


NOCOMM = jgen.Commodity("", 2)
PLAIN_ACCTS = ["Units:Stock", "Units:Stock:Shelf", "Units:Sold", "Assets:Cash"]


def plain_xact(rng, day):
    """amounts WITHOUT commodity, written with different numbers of decimals, at least two on one account."""
    acct = rng.choice(PLAIN_ACCTS)
    n = rng.randint(2, 4)
    posts = []
    tot = Fraction(0)
    decs = rng.sample([0, 1, 2, 3, 4, 6], n)
    for i in range(n):
        dec = decs[i]
        q = Fraction(rng.randint(1, 99999), 10 ** dec) * rng.choice([1, 1, -1])
        tot += q
        posts.append({"account": acct if i < 2 else rng.choice(PLAIN_ACCTS), "kind": "real", "state": 0,
                      "amount": jgen.amt(q, NOCOMM, dec), "cost": None, "assert": None, "note": ""})
    other = rng.choice([a for a in PLAIN_ACCTS if a != acct])
    if rng.random() < 0.5 or tot == 0:
        posts.append({"account": other, "kind": "real", "state": 0, "amount": None, "cost": None, "assert": None, "note": ""})
    else:
        posts.append({"account": other, "kind": "real", "state": 0, "amount": jgen.amt(-tot, NOCOMM, max(decs)), "cost": None,
                      "assert": None, "note": ""})
    rng.shuffle(posts)
    return {"date": day, "aux": None, "state": 0, "code": "", "payee": "plain", "note": "", "posts": posts}


def gen_xacts(rng, n, comms=None, same_date=False, n_days=40, **kw):
    comms = comms or rng.sample(COMMS, rng.randint(1, 4))
    g = jgen.Gen(rng, comms=comms, n_days=n_days, p_elide=kw.pop("p_elide", 0.5), **kw)
    xs = []
    for i in range(n):
        if rng.random() < 0.08 and len(comms) >= 1:
            x = exchange_xact(rng, g.kw["start"] + rng.randint(0, n_days))
        elif rng.random() < 0.15:
            x = plain_xact(rng, g.kw["start"] + rng.randint(0, n_days))
        else:
            x = g.xact()
        if same_date:
            x["date"] = g.kw["start"]
        x["aux"] = None
        x["payee"] = "x%d %s" % (i, x["payee"])
        xs.append(x)
    return xs


def post_orders_for(rng, xs, how="shuffle"):
    po = {}
    for i, x in enumerate(xs):
        k = list(range(len(x["posts"])))
        if len(k) < 2:
            continue
        if how == "reverse":
            k.reverse()
        elif how == "rotate":
            k = k[1:] + k[:1]
        else:
            rng.shuffle(k)
        po[i] = k
    return po


def literal_case(name, texts):
    """a case given as journal text per transaction, with hand-written model items."""
    c = Case(name, [])
    c.literal = texts
    return c


# ---------------------------------------------------------------------------


def run_case(ctx, case, exhaustive_perms, n_perm, n_posts, n_cuts, model_all=True):
    rng = ctx.rng
    xs = case.xs
    ids = case.ids()
    variants = [("base", single_file(ids), None)]
    if exhaustive_perms:
        for p in itertools.permutations(ids):
            if list(p) != ids:
                variants.append(("perm", single_file(list(p)), None))
    else:
        seen = {tuple(ids)}
        special = [list(reversed(ids)), ids[1:] + ids[:1], sorted(ids, key=lambda i: (xs[i]["date"], i)),
                   sorted(ids, key=lambda i: (-xs[i]["date"], i))]
        for p in special[:n_perm]:
            if tuple(p) not in seen:
                seen.add(tuple(p))
                variants.append(("perm", single_file(p), None))
        for _ in range(n_perm):
            p = ids[:]
            rng.shuffle(p)
            if tuple(p) not in seen:
                seen.add(tuple(p))
                variants.append(("perm", single_file(p), None))
    for j in range(n_posts):
        how = ["reverse", "rotate", "shuffle"][j] if j < 3 else "shuffle"
        po = post_orders_for(rng, xs, how)
        if po:
            variants.append(("posts", single_file(ids), po))
    for j in range(n_cuts):
        k = 1 + (j % 4) if n_cuts >= 4 else rng.randint(1, 4)
        order = ids[:]
        if rng.random() < 0.3:
            rng.shuffle(order)
        variants.append(("cut", cut_layout(rng, order, k), None))
    return evaluate(ctx, case, variants)


def evaluate(ctx, case, variants, report=True):
    xs = case.xs
    real = [realise(xs, lay, po) for (_, lay, po) in variants]
    obs = vflib.pmap(lambda r_l: observe(r_l[0][0], "/".join(list(r_l[1]["main"][0]) + [r_l[1]["main"][1]])),
                     list(zip(real, [v[1] for v in variants])))
    try:
        answers = vflib.driver_run(["of.load\t" + r[1] for r in real])
    except Exception as ex:   # the model side must never take the implementation-side oracle down with it
        ctx.tie_broken("corr:driver", "the Lean driver failed on case %s: %s" % (case.name, str(ex)[:500]))
        answers = ["err\tdriver\t1100"] * len(real)
    models = [parse_model(a) for a in answers]
    base_o, base_m = obs[0], models[0]
    # the generator only writes transactions that balance exactly, have an elided posting, or are plain
    # two-commodity exchanges, so membership in the fragment is decided by the model's `orderFree` alone;
    # `exactlyBalanced` (second flag) is recorded
    in_fragment = base_m["flags"] is not None and base_m["flags"][0] == "1"
    if base_m["flags"]:
        ctx.feature("case:exactlyBalanced=" + base_m["flags"][1])
    elided = case.elided_accounts()
    res = {"fail": [], "tie": []}
    intent_differs = False
    for (kind, lay, po), (files, mj), o, m in zip(variants, real, obs, models):
        ctx.count()
        ctx.feature("variant:" + kind)
        if kind == "cut":
            ctx.feature("cut:%s:k=%d" % (lay.get("style"), lay.get("k", 0)))
        d = None if m["err"] == "driver" else model_vs_binary(m, o)
        if d:
            res["tie"].append((kind, d, files, mj))
        elif m["err"] != "driver":
            ctx.traces_validated += 1
        if m["flags"] and len(m["flags"]) >= 4 and m["err"] != "driver":
            if m["flags"][2] != "1":
                res["tie"].append((kind, "model: loading the file tree differs from loading its flattening", files, mj))
            if m["flags"][3] != "1" and kind == "base":
                # The generator meant another quantity than the model reads (e.g. `1.212,266534 EUX` written before EUX
                # is flagged DECIMAL_COMMA: both the model and the binary answer "Too many periods in amount").  That is
                # a property of the generated text, not a correspondence difference: whether the BINARY reads it like the
                # model is decided by model_vs_binary above; here it is only counted.
                ctx.feature("generator-intent-differs")
                intent_differs = True
        if o.err:
            ctx.feature("impl:err:" + o.err)
        if kind == "base":
            continue
        if not in_fragment:
            ctx.feature("outside-fragment-variant")
            continue
        for fp, what in compare_obs(base_o, o, kind, elided):
            if fp == ZERO_FP:
                ctx.feature("zero-row-differs")
            res["fail"].append((fp, what, kind, lay, po, files))
    if in_fragment:
        ctx.feature("case:in-fragment")
        if len(xs) >= 2 and base_o.err is None and not intent_differs:
            nonzero_groups = len(base_o.groups or ())
            ctx.nontrivial((case.name, base_o.bal, nonzero_groups))
    else:
        ctx.feature("case:outside-fragment:" + (base_m["flags"] or "?")[:2])
    if report:
        for kind, d, files, mj in res["tie"][:1]:
            ctx.tie_broken("corr:of.load", "%s [%s variant of %s]\nfiles: %s" % (d, kind, case.name, json.dumps(files)[:1500]))
            ctx.mism.append({"case": case.name, "variant": kind, "what": d, "files": files})
        # one shrunk report per fingerprint and run (shrinking costs dozens of paired runs)
        seen_fp = {v[0] for v in ctx.violations} | {h[0] for h in ctx.known_hits}
        for fp, what, kind, lay, po, files in res["fail"]:
            ctx.feature("oracle-failure:" + fp)
            if fp in seen_fp:
                continue
            seen_fp.add(fp)
            report_failure(ctx, case, fp, what, kind, lay, po)
    ctx.sample({"case": case.name, "transactions": len(xs), "variants": len(variants),
                "balances": [list(b) for b in (base_o.bal or ())[:3]], "error": base_o.err}, cap=5)
    return res


def fails_with(case_xs, keep, kind, lay, po, fp):
    """re-run base and the variant restricted to the transactions in `keep`; True when the same fingerprint fails."""
    def restrict(layout):
        return dict(layout, files=[dict(f, items=[it for it in f["items"] if it[0] != "x" or it[1] in keep]) for f in layout["files"]])
    base = restrict(single_file(sorted(keep)))
    var = restrict(lay)
    fb, _ = realise(case_xs, base, None)
    fv, _ = realise(case_xs, var, po)
    ob = observe(fb, "main.ledger")
    ov = observe(fv, "/".join(list(var["main"][0]) + [var["main"][1]]))
    elided = {p["account"] for i in keep for p in case_xs[i]["posts"] if p["amount"] is None}
    got = compare_obs(ob, ov, kind, elided)
    return any(f == fp for f, _ in got), fb, fv, got


def report_failure(ctx, case, fp, what, kind, lay, po):
    """shrink by dropping transactions (same variant transformation), then report."""
    keep = set(case.ids())
    changed = True
    rounds = 0
    while changed and rounds < 6:
        changed = False
        rounds += 1
        for i in sorted(keep):
            if len(keep) <= 1:
                break
            trial = keep - {i}
            ok, _, _, _ = fails_with(case.xs, trial, kind, lay, po, fp)
            if ok:
                keep = trial
                changed = True
    ok, fb, fv, got = fails_with(case.xs, keep, kind, lay, po, fp)
    if not ok:
        keep = set(case.ids())
        ok, fb, fv, got = fails_with(case.xs, keep, kind, lay, po, fp)
    desc = [w for f, w in got if f == fp]
    vmain = "/".join(list(lay["main"][0]) + [lay["main"][1]])
    ctx.violation(fp, "%s (%s of %d transaction(s)): %s" % (what if not desc else desc[0], kind, len(keep), case.name),
                  {"kind": kind, "base_files": fb, "base_main": "main.ledger", "variant_files": fv, "variant_main": vmain,
                   "commands": ["ledger -f MAIN bal --flat --empty --format '%s'" % BAL_FMT.replace("\n", "\\n"),
                                "ledger -f MAIN reg --sort date --empty --format '%s'" % REG_FMT.replace("\n", "\\n")],
                   "elided_accounts": sorted({p["account"] for i in keep for p in case.xs[i]["posts"] if p["amount"] is None}),
                   "fingerprint": fp})


# ---------------------------------------------------------------------------
# excluded points (documented guards of the theorems; replayed on the binary every run)


def lit_wamt(comm, text, neg=False):
    return {"comm": comm, "neg": neg, "text": text, "suffixed": True, "separated": True, "q": "0/1"}


def lit_xact(day, posts):
    """posts: (account, comm, text or None, neg, cost (comm, text) or None)."""
    lines = [jgen.date_text(day) + " lit"]
    mp = []
    for acct, comm, text, neg, cost in posts:
        l = "    " + acct
        amt = None
        cst = None
        if text is not None:
            l += "  " + ("-" if neg else "") + text + " " + comm
            amt = lit_wamt(comm, text, neg)
            if cost:
                l += " @ " + cost[1] + " " + cost[0]
                cst = dict(lit_wamt(cost[0], cost[1]), per_unit=True)
        lines.append(l)
        mp.append({"account": acct, "kind": "real", "amount": amt, "cost": cst, "assert": None})
    return "\n".join(lines) + "\n", {"t": "x", "date": day, "posts": mp}


def lit_run(xacts):
    text = "\n".join(t for t, _ in xacts)
    mj = {"main": {"dir": [], "name": "main.ledger"}, "fuel": 4,
          "files": [{"dir": [], "name": "main.ledger", "items": [m for _, m in xacts]}]}
    o = observe({"main.ledger": text}, "main.ledger")
    m = parse_model(vflib.driver_run(["of.load\t" + json.dumps(mj)])[0])
    return o, m, text


D0 = jgen.day_of(2020, 1, 1)


def excluded_points(ctx):
    pts = {
        "decimal-comma:1,5-then-1.000": ([lit_xact(D0, [("A", "EUR", "1,5", False, None), ("B", "EUR", None, False, None)]),
                                          lit_xact(D0 + 1, [("C", "EUR", "1.000", False, None), ("D", "EUR", None, False, None)])], 0),
        "decimal-comma:1,500-then-2,25": ([lit_xact(D0, [("A", "EUX", "1,500", False, None), ("B", "EUX", None, False, None)]),
                                           lit_xact(D0 + 1, [("C", "EUX", "2,25", False, None), ("D", "EUX", None, False, None)])], 0),
        "accept-by-learned-precision": ([lit_xact(D0, [("A", "AAA", "10", False, ("EUR", "0.3333")), ("B", "EUR", "3.33", True, None)]),
                                         lit_xact(D0 + 1, [("C", "EUR", "1.000", False, None), ("D", "EUR", None, False, None)])], 1),
    }
    for name, (xa, flag_idx) in pts.items():
        o1, m1, t1 = lit_run(xa)
        o2, m2, t2 = lit_run(list(reversed(xa)))
        ctx.count(2)
        for o, m, t in ((o1, m1, t1), (o2, m2, t2)):
            d = model_vs_binary(m, o)
            if d:
                ctx.tie_broken("corr:of.load", "excluded point %s: %s\n%s" % (name, d, t))
                ctx.mism.append({"case": "excluded:" + name, "what": d, "journal": t})
            else:
                ctx.traces_validated += 1
        guard_off = (m1["flags"] or "11")[flag_idx] == "0"
        differs = bool(compare_obs(o1, o2, "perm", set()))
        ctx.feature("excluded:%s:%s" % (name, "order-dependent" if differs else "order-free"))
        ctx.extra_cov.setdefault("excluded_points", {})[name] = {
            "order_dependent_on_binary": differs, "model_guard_excludes_it": guard_off,
            "first_order": {"error": o1.err, "rows": [list(r[:4]) for r in (o1.rows or ())]},
            "reverse_order": {"error": o2.err, "rows": [list(r[:4]) for r in (o2.rows or ())]}}
        if not guard_off:
            ctx.tie_broken("model:guard:" + name, "the model's decidable guard does not exclude the documented excluded point " + name)
    # posting order inside a transaction: implicit exchange with a third, cancelled commodity (same root cause as the zero row)
    e1 = [lit_xact(D0, [("A", "EUR", "1.00", False, None), ("B", "EUR", "1.00", True, None), ("C", "USD", "5.00", False, None), ("D", "AAA", "3", True, None)])]
    e2 = [lit_xact(D0, [("A", "EUR", "1.00", False, None), ("C", "USD", "5.00", False, None), ("B", "EUR", "1.00", True, None), ("D", "AAA", "3", True, None)])]
    o1, m1, t1 = lit_run(e1)
    o2, m2, t2 = lit_run(e2)
    ctx.count(2)
    for o, m, t in ((o1, m1, t1), (o2, m2, t2)):
        d = model_vs_binary(m, o)
        if d:
            ctx.tie_broken("corr:of.load", "excluded point implicit-exchange: %s\n%s" % (d, t))
            ctx.mism.append({"case": "excluded:implicit-exchange", "what": d, "journal": t})
        else:
            ctx.traces_validated += 1
    differs = o1.err != o2.err
    ctx.feature("excluded:implicit-exchange-with-cancelled-commodity:%s" % ("order-dependent" if differs else "order-free"))
    ctx.extra_cov.setdefault("excluded_points", {})["implicit-exchange-with-cancelled-commodity"] = {
        "order_dependent_on_binary": differs, "first_order": o1.err or "ok", "second_order": o2.err or "ok",
        "model_guard_excludes_it": (m1["flags"] or "11")[1] == "0"}


# ---------------------------------------------------------------------------
# amount text under both settings of the DECIMAL_COMMA flag (unit tie of the scan)


def scan_stream(ctx, maxlen, cap):
    texts = []
    for n in range(1, maxlen + 1):
        for t in itertools.product("17,.", repeat=n):
            s = "".join(t)
            if s[0] in ",." or s[-1] in ",.":
                continue
            texts.append(s)
    if len(texts) > cap:
        keep = [t for t in texts if len(t) <= 4]
        rest = [t for t in texts if len(t) > 4]
        ctx.rng.shuffle(rest)
        texts = keep + rest[:cap - len(keep)]
    jobs = []
    for t in texts:
        for dc in (0, 1):
            xa = []
            if dc:
                xa.append(lit_xact(D0, [("P", "TST", "1,5", False, None), ("Q", "TST", None, False, None)]))
            xa.append(lit_xact(D0 + 1, [("A", "TST", t, False, None), ("B", "TST", None, False, None)]))
            jobs.append((t, dc, xa))
    res = vflib.pmap(lambda j: lit_run(j[2]), jobs)
    units = vflib.driver_run(["of.scan\t%d\t%s" % (dc, t) for t, dc, _ in jobs])
    for (t, dc, xa), (o, m, text), u in zip(jobs, res, units):
        ctx.count()
        ctx.feature("scan:" + ("err" if o.err else "ok"))
        d = model_vs_binary(m, o)
        if d is None and (u.startswith("err") != bool(o.err)):
            d = "of.scan answers %r, ledger %s" % (u, o.err or "ok")
        if d:
            ctx.tie_broken("corr:of.scan", "amount text %r with DECIMAL_COMMA=%d: %s" % (t, dc, d))
            ctx.mism.append({"case": "scan", "text": t, "dc": dc, "what": d})
        else:
            ctx.traces_validated += 1
            if ("," in t or "." in t):
                ctx.nontrivial(("scan", t, dc))


# ---------------------------------------------------------------------------
# boundary streams


def boundary_cases(rng):
    cases = []
    F = Fraction
    eur, usd, aaa = CMAP["EUR"], CMAP["$"], CMAP["AAA"]

    def post(acct, q, c, dec=None, kind="real"):
        return {"account": acct, "kind": kind, "state": 0, "amount": None if q is None else jgen.amt(F(q), c, dec),
                "cost": None, "assert": None, "note": ""}

    def xact(day, posts, payee="b"):
        return {"date": day, "aux": None, "state": 0, "code": "", "payee": payee, "note": "", "posts": posts}
    # two transactions only
    cases.append(Case("boundary:two-xacts", [xact(D0 + 1, [post("A", 5, eur), post("B", None, eur)]),
                                              xact(D0, [post("B", F(5, 2), eur), post("C", F(-5, 2), eur)])]))
    # identical dates everywhere
    cases.append(Case("boundary:same-date", [xact(D0, [post("A:x", i + 1, eur), post("B", None, eur)], "p%d" % i) for i in range(4)]))
    # a commodity seen first with the fewest vs the most decimals
    cases.append(Case("boundary:precision-fewest-first", [xact(D0, [post("A", 1, eur, 0), post("B", -1, eur, 0)]),
                                                          xact(D0 + 1, [post("A", F(1, 4), eur, 2), post("B", None, eur)]),
                                                          xact(D0 + 2, [post("A", F(1, 8), eur, 5), post("B", F(-1, 8), eur, 3)])]))
    # thousands marks / prefix / no space learned from one amount only
    cases.append(Case("boundary:flags-from-one-amount", [xact(D0, [post("A", 5, usd, 0), post("B", -5, usd, 0)]),
                                                         xact(D0 + 1, [post("A", 1234567, usd), post("B", None, usd)]),
                                                         xact(D0 + 1, [post("C", 3, aaa), post("D", -3, aaa)])]))
    # elided posting receiving several commodities; one side cancels (the zero-row finding needs posting permutations)
    cases.append(Case("boundary:elided-multi-commodity", [xact(D0, [post("A", 1, eur), post("B", -1, eur), post("C", 5, usd), post("D", None, eur)]),
                                                          xact(D0, [post("A", 2, eur), post("C", 7, usd), post("E", 3, aaa), post("D", None, eur)])]))
    # virtual postings
    cases.append(Case("boundary:virtual", [xact(D0, [post("A", 2, eur), post("B", -2, eur), post("V", 9, eur, kind="virtual")]),
                                           xact(D0 + 3, [post("A", 2, eur, kind="bvirtual"), post("B", None, eur, kind="bvirtual")])]))
    # a single transaction
    # amounts without commodity: the displayed precision is the largest number of decimals seen, whichever came first
    nc = NOCOMM
    cases.append(Case("boundary:no-commodity-decimals", [
        xact(D0, [post("A", F(3, 2), nc, 1), post("B", F(-3, 2), nc, 1)]),
        xact(D0 + 1, [post("A", F(1, 4), nc, 2), post("B", None, nc)]),
        xact(D0 + 1, [post("A", 2, nc, 0), post("A:sub", F(1, 8), nc, 3), post("B", None, nc)])]))
    cases.append(Case("boundary:no-commodity-one-xact", [
        xact(D0, [post("A", F(3, 2), nc, 1), post("A", F(1, 4), nc, 2), post("B", F(-7, 4), nc, 2)])]))
    cases.append(Case("boundary:one-xact", [xact(D0, [post("A", 1, eur), post("C", 5, usd), post("B", None, eur)])]))
    return cases


def boundary_layouts(case):
    """include of a single-file glob, of an empty file, files cut in the middle of a date group, empty main."""
    ids = case.ids()
    n = len(ids)
    lays = []
    lays.append({"main": ((), "main.ledger"), "style": "single-glob", "k": 1, "files": [
        {"dir": ["only"], "name": "one.dat", "items": [("x", i) for i in ids]},
        {"dir": [], "name": "main.ledger", "items": [("inc", ["only"], "*.dat")]}]})
    lays.append({"main": ((), "main.ledger"), "style": "empty-file", "k": 2, "files": [
        {"dir": ["e"], "name": "a.dat", "items": []},
        {"dir": ["e"], "name": "b.dat", "items": [("x", i) for i in ids]},
        {"dir": [], "name": "main.ledger", "items": [("inc", ["e"], "a.dat"), ("inc", ["e"], "b.dat")]}]})
    for cut in range(0, n + 1):
        lays.append({"main": ((), "main.ledger"), "style": "cut-at", "k": 2, "files": [
            {"dir": ["x"], "name": "l.dat", "items": [("x", i) for i in ids[:cut]]},
            {"dir": ["x", "y"], "name": "r.dat", "items": [("x", i) for i in ids[cut:]]},
            {"dir": [], "name": "main.ledger", "items": [("inc", ["x", "y"], "r.dat"), ("inc", ["x"], "l.dat")]}]})
    return lays


def malformed_cases(rng):
    cases = []
    g = jgen.Gen(rng, comms=COMMS[:3], n_days=30)
    for k in range(3):
        xs = [g.xact() for _ in range(3)]
        bad = g.xact(balanced=False)
        xs.insert(rng.randint(0, 3), bad)
        for i, x in enumerate(xs):
            x["aux"] = None
        cases.append(Case("malformed:unbalanced-%d" % k, xs))
    xs = [g.xact() for _ in range(2)]
    two = g.xact()
    two["posts"] = [p for p in two["posts"] if p["amount"] is not None][:1] + [
        {"account": "X", "kind": "real", "state": 0, "amount": None, "cost": None, "assert": None, "note": ""},
        {"account": "Y", "kind": "real", "state": 0, "amount": None, "cost": None, "assert": None, "note": ""}]
    xs.append(two)
    for x in xs:
        x["aux"] = None
    cases.append(Case("malformed:two-nulls", xs))
    return cases


# ---------------------------------------------------------------------------


def run(tier, seed):
    ctx = Check("C08", tier, seed)
    ctx.mism = []
    ctx.rule = ("journals of 1-14 balanced transactions (jgen: 1-4 commodities in several styles incl. a decimal-comma one, costs, "
                "elided and virtual postings, implicit two-commodity exchanges) presented as base order, as permutations of the "
                "transactions (all of them for <=5 transactions, sampled beyond), with postings permuted inside transactions, and cut "
                "into 1-4 files in nested directories joined by include directives (explicit, glob, chained, `..`, regex-dot decoys) on a "
                "real temp tree; every presentation is one evaluation; a case is non-trivial when it is in the order-free fragment, has "
                ">=2 transactions and is accepted; distinct by its canonical balances")
    ctx.assumptions = ["commodities are compared per base symbol (lot annotations created by costs are not modelled)",
                       "precision counters are compared on accumulated balances (own/family) and across presentations; lot price text is not",
                       "file names over [A-Za-z0-9_.]; --decimal-comma is not given",
                       "std::stable_sort is a stable sort; boost::filesystem path order on one directory is byte order of the file name"]
    if not ctx.prepare():
        return ctx.finish()
    jgen.fmt_amount = _fmt_amount
    try:
        body(ctx, tier)
    finally:
        jgen.fmt_amount = _orig_fmt
    if ctx.mism:
        ctx.extra_cov["mismatches"] = ctx.mism[:8]
    return ctx.finish()


def body(ctx, tier):
    rng = ctx.rng
    quick = tier == "quick"
    widen = bool(ctx.ties_broken)   # a proof obligation / extractor broke: search harder
    if widen:
        ctx.feature("search-mode")
    excluded_points(ctx)
    scan_stream(ctx, 6, 240 if quick and not widen else 1400)
    # corpus
    cdir = os.path.join(vflib.ROOT, "corpus", "C08")
    if os.path.isdir(cdir):
        for fn in sorted(os.listdir(cdir)):
            if fn.endswith(".json"):
                with open(os.path.join(cdir, fn)) as f:
                    obj = json.load(f)
                case = Case("corpus:" + fn, obj["xacts"])
                run_case(ctx, case, len(case.xs) <= 5, 4, 3, 4)
    # boundary streams
    for case in boundary_cases(rng):
        run_case(ctx, case, True, 0, 3, 4)
        variants = [("base", single_file(case.ids()), None)] + [("cut", lay, None) for lay in boundary_layouts(case)]
        evaluate(ctx, case, variants)
    # malformed stream: every presentation must be rejected alike
    for case in malformed_cases(rng):
        run_case(ctx, case, False, 3, 1, 2)
    # bounded-exhaustive: all permutations for <= 5 transactions
    plan = [(2, 6), (3, 6), (4, 4), (5, 2)] if quick else [(2, 40), (3, 40), (4, 30), (5, 14)]
    if widen:
        plan = [(n, k * 3) for n, k in plan]
    nex = 0
    for n, k in plan:
        for j in range(k):
            same = rng.random() < 0.25
            comms = None
            if rng.random() < 0.3:
                comms = rng.sample(COMMS[:4], rng.randint(1, 2)) + [EUX]
            xs = gen_xacts(rng, n, comms=comms, same_date=same, n_days=rng.choice([3, 10, 60]))
            run_case(ctx, Case("exh:n=%d:%d" % (n, j), xs), True, 0, 3, 4)
            nex += 1
    ctx.exhaustive = {"what": "all permutations of the transactions for journals of 2..5 transactions", "journals": nex}
    # sampled beyond
    nrand = 36 if quick else 700
    if widen:
        nrand *= 3
    for j in range(nrand):
        n = rng.randint(6, 14)
        comms = None
        if rng.random() < 0.3:
            comms = rng.sample(COMMS, rng.randint(1, 3)) + [EUX]
        xs = gen_xacts(rng, n, comms=comms, same_date=rng.random() < 0.1, n_days=rng.choice([2, 8, 30, 400]),
                       p_cost=rng.choice([0.0, 0.15, 0.4]), p_elide=rng.choice([0.2, 0.5, 0.9]))
        run_case(ctx, Case("rnd:n=%d:%d" % (n, j), xs), False, 5, 3, 4)


def replay(obj):
    r = obj.get("replay", {})
    if "base_files" not in r:
        print(json.dumps(obj, indent=1)[:3000])
        return 1
    vflib.ensure_ledger()
    ob = observe(r["base_files"], r["base_main"])
    ov = observe(r["variant_files"], r["variant_main"])
    got = compare_obs(ob, ov, r.get("kind", "perm"), set(r.get("elided_accounts", [])))
    print("base    :", ob.err or "ok", ob.bal)
    print("variant :", ov.err or "ok", ov.bal)
    for fp, what in got:
        print("DIFFERS :", fp, what)
    return 1 if got else 0
