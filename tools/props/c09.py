"""C09 — balance assertions and assignments use the true running balance in file order.

Theorems: lean/LedgerModel/Props/C09.lean over Model/Assert.lean (the `= AMOUNT`
block of textual.cc parse_post, account_t::amount, commodity_amount, the part of
finalize that appends postings to accounts).  Tie: tools/extract_assert.py
(Gen/Assert.lean: pinned block text + the two interpreted statements) and this
differential check: driver op `assert.run` against the rebuilt binary on
generated histories, with and without --permissive.  Oracle: `spec_walk` below
restates the property with Fractions on the AST only (no Lean, no knowledge of
the code path) and is compared with what ledger itself reports.
"""
import os, re, sys, json, copy, glob, tempfile, itertools
from fractions import Fraction
import vflib, jgen
from vflib import Check
from jgen import Commodity, amt, amt_q

MANIFEST = dict(
    text="Machine-checked proof (Lean 4) that the `= AMOUNT` code path of parse_post (account total of the exact account from the "
         "postings appended by finalize in file order, minus the earlier postings of the same transaction, restricted to the asserted "
         "commodity) equals the specification 'sum of every earlier posting to that very account in file order, ordinary only / "
         "ordinary+virtual, in AMOUNT's commodity', for posting logs and transactions of any length: assertion accepted iff spec + "
         "own amount = AMOUNT, assignment receives exactly AMOUNT - spec, bare 0 needs every commodity zero, dates never enter, "
         "sub-accounts never enter, --permissive skips the comparison only. The block is re-extracted from textual.cc/account.cc/"
         "balance.cc/xact.cc on every run (pinned text + two interpreted statements the model follows) and the model is run against "
         "the rebuilt binary on generated histories (1-40 transactions, 1-5 accounts incl. parent/child names, 1-3 commodities, "
         "true/false assertions, assignments, dates out of file order, real/(virtual)/[balanced], lots via costs and explicit {price} [date] (tag) annotations); an independent "
         "Fraction oracle on ledger's own exit status, error lines and assigned amounts supplies the failing input.",
    note="Full statements C09.AssertIffSpec / C09.AssignMakesTrue are refuted on the current tree (theorems C09.*_refuted_*): "
         "(1) an assertion/assignment on a virtual posting ignores earlier ordinary postings of the same transaction to the same "
         "account (textual.cc 1714), (2) an assertion whose own amount is of another commodity than AMOUNT is always rejected "
         "(own amount subtracted after the commodity restriction, textual.cc 1752). The _partial theorems carry exactly these two "
         "guards. Modelled, not verified: stripping annotations is the identity on quantity and base commodity; amounts written "
         "with at most the display precision (is_zero is then exact; invariant proved for the model, C09.log_fine).",
    technique="Lean 4 refinement proof (code path = per-account file-order specification) + re-extracted block text/flags + "
              "differential model/binary check + independent running-balance oracle",
    ref="DESIGN.md §5 C09")

FMT = "%(beg_line)|%(account)|%(verif_rational(amount))\n"
POOL = [Commodity("$", 2, prefix=True, space=False, thousands=True), Commodity("EUR", 2), Commodity("AAA", 0),
        Commodity("BTC", 8), Commodity("£", 2, prefix=True, space=False), Commodity("XY", 4, thousands=True),
        Commodity("H2O", 1)]
ACCT_SETS = [["A", "A:B", "A:B:C", "B", "AB"], ["Assets", "Assets:Cash", "Assets:Cash:Wallet", "Expenses:Food", "Equity"],
             ["X", "X:Y", "Z", "Z:X", "X Y:Z"], ["Liabilities:Card", "Liabilities", "Income", "Income:Salary", "Card"]]
FP_VIRT = "C09:same-xact-real-before-virtual"
FP_COMM = "C09:own-commodity-differs-from-asserted"


# ---------------------------------------------------------------------------
# AST extension: post["lot"] = {"price": amount|None, "date": day|None, "tag": str|None} — an explicit lot
# annotation `{PRICE} [DATE] (TAG)` written after the amount.  The annotated commodity is a different
# commodity for balancing, but the `= AMOUNT` block strips annotations: a lot counts in its BASE commodity
# (the Lean model and the oracle both read only amount.comm, i.e. the base commodity).


def lot_text(lot, comms):
    s = ""
    if lot.get("price") is not None:
        s += " {" + jgen.render_amount(lot["price"], comms) + "}"
    if lot.get("date") is not None:
        s += " [" + jgen.date_text(lot["date"]) + "]"
    if lot.get("tag"):
        s += " (" + lot["tag"] + ")"
    return s


def render_post(p, comms):
    if not p.get("lot") or p["amount"] is None:
        return jgen.render_post(p, comms)
    q = dict(p, cost=None, note="")
    q["assert"] = None
    s = jgen.render_post(q, comms) + lot_text(p["lot"], comms)
    if p["cost"]:
        s += (" @ " if p["cost"]["per_unit"] else " @@ ") + jgen.render_amount(p["cost"], comms)
    if p.get("assert") is not None:
        s += "  = " + jgen.render_amount(p["assert"], comms)
    if p.get("note"):
        s += "  ; " + p["note"]
    return s


def render(journal, comms):
    """jgen.render with lot annotations; fills line numbers into the AST."""
    out = []
    for x in journal["xacts"]:
        lines = [jgen.render_xact(dict(x, posts=[]), comms)[0]] + [render_post(p, comms) for p in x["posts"]]
        x["line"] = len(out) + 1
        for i, p in enumerate(x["posts"]):
            p["line"] = len(out) + 2 + i
        out += lines
        x["end_line"] = len(out)
        out.append("")
    return "\n".join(out) + "\n"


# ---------------------------------------------------------------------------
# independent oracle: the property restated over the AST with Fractions


class Undefined(Exception):
    """the property does not determine the outcome (shape outside its scope)"""


def cost_total(p):
    q = amt_q(p["amount"])
    c = p["cost"]
    cq = amt_q(c)
    if c["per_unit"]:
        return cq * q, c["comm"]
    return (cq if q >= 0 else -cq), c["comm"]


def spec_walk(j, permissive, ignore_lots=False):
    """Per transaction: ('accept', {line: (q, comm)} assigned amounts) or
    ('reject', line, kind).  Running balances are kept per (exact account name,
    commodity): `real` counts ordinary postings, `both` ordinary + virtual; every
    posting of every accepted earlier transaction counts, in file order; dates
    are not looked at."""
    comms = set()
    for x in j["xacts"]:
        for p in x["posts"]:
            for k in ("amount", "assert"):
                if p.get(k) is not None:
                    comms.add(p[k]["comm"])
    real, both = {}, {}
    out = []
    for x in j["xacts"]:
        pend = []   # (account, virtual, comm|None, q|None) of the earlier postings of this transaction
        verdict = None
        assigned = {}
        for p in x["posts"]:
            acct, v = p["account"], p["kind"] != "real"

            def running(c):
                t = (both if v else real).get((acct, c), Fraction(0))
                for a2, v2, c2, q2 in pend:
                    if a2 == acct and c2 == c and (v or not v2):
                        t += q2
                return t
            own = (amt_q(p["amount"]), p["amount"]["comm"]) if p["amount"] is not None else None
            A = p.get("assert")
            if A is not None:
                if any(a2 == acct and c2 is None and (v or not v2) for a2, v2, c2, q2 in pend):
                    raise Undefined("assertion after an elided posting to the same account in the same transaction")
                aq, ac = amt_q(A), A["comm"]
                if not ac and aq != 0:
                    raise Undefined("uncommoditized non-zero AMOUNT")
                if own is None:
                    if ac:
                        own = (aq - running(ac), ac)
                    else:
                        nz = {c: running(c) for c in comms if running(c) != 0}
                        if not nz:
                            own = (Fraction(0), "")
                        elif len(nz) == 1:
                            c, q = list(nz.items())[0]
                            own = (-q, c)
                        else:
                            verdict = ("reject", p["line"], "multiComm")   # no single amount makes every commodity zero
                            break
                    assigned[p["line"]] = own
                else:
                    if ac:
                        ok = running(ac) + (own[0] if own[1] == ac else 0) == aq
                    else:
                        ok = all(running(c) + (own[0] if own[1] == c else 0) == 0 for c in comms)
                    if not ok and not permissive:
                        verdict = ("reject", p["line"], "assert-off")
                        break
            pend.append((acct, v, own[1] if own else None, own[0] if own else None))
        if verdict is None:
            # does it balance? (C01's subject; needed here only to know which postings reach the accounts).
            # `val` follows value_t: the first amount is kept as it is, a second commodity turns it into a
            # balance whose entries are opened by non-zero amounts only and never closed.
            val = None
            nulls = 0
            for p, (a2, v2, c2, q2) in zip(x["posts"], pend):
                if c2 is None:
                    if p["kind"] == "virtual":
                        verdict = ("reject", x["end_line"], "other")
                    else:
                        nulls += 1
                    continue
                if p["kind"] == "virtual":
                    continue
                if p.get("cost"):
                    q, c = cost_total(dict(p, amount={"q": "%d/%d" % (q2.numerator, q2.denominator), "comm": c2}))
                else:
                    q, c = q2, c2
                # an annotated commodity is a commodity of its own while the transaction is balanced
                c = (c, json.dumps(p["lot"], sort_keys=True) if p.get("lot") and not ignore_lots and not p.get("cost") else "")
                if val is None:
                    val = ("amt", c, q)
                elif val[0] == "amt":
                    if val[1] == c:
                        val = ("amt", c, val[2] + q)
                    else:
                        d = {}
                        for cc, qq in ((val[1], val[2]), (c, q)):
                            if qq != 0:
                                d[cc] = d.get(cc, Fraction(0)) + qq
                        val = ("bal", d)
                elif q != 0:
                    val[1][c] = val[1].get(c, Fraction(0)) + q
            entries = {} if val is None else ({val[1]: val[2]} if val[0] == "amt" else dict(val[1]))
            nz = {c: q for c, q in entries.items() if q != 0}
            if verdict is None:
                if nulls >= 2:
                    verdict = ("reject", None, "two-nulls")
                elif nulls == 1:
                    if val is None:
                        verdict = ("reject", x["end_line"], "other")
                    elif not nz and val[0] == "bal":
                        # nothing left for the elided posting in a multi-commodity transaction: C02's subject
                        raise Undefined("elided posting with a zero multi-commodity remainder")
                    else:
                        i = [k for k, t in enumerate(pend) if t[2] is None][0]
                        a2, v2 = pend[i][0], pend[i][1]
                        pend[i:i + 1] = [(a2, v2, c[0], -q) for c, q in sorted(entries.items())]
                elif nz:
                    if val[0] == "bal" and len(entries) == 2 and len(nz) == 2 and not any(p.get("cost") for p in x["posts"]):
                        a, b = nz.values()          # price implied by the two sums: balances iff they have opposite signs
                        if (a < 0) == (b < 0):
                            verdict = ("reject", x["end_line"], "unbalanced")
                    else:
                        verdict = ("reject", x["end_line"], "unbalanced")
        if verdict is None:
            for a2, v2, c2, q2 in pend:
                both[(a2, c2)] = both.get((a2, c2), Fraction(0)) + q2
                if not v2:
                    real[(a2, c2)] = real.get((a2, c2), Fraction(0)) + q2
            out.append(("accept", assigned))
        else:
            out.append(verdict)
    return out


# ---------------------------------------------------------------------------
# observing ledger


def base_comm(s):
    s = s.strip()
    if s.startswith('"'):
        return s[1:s.index('"', 1)]
    for sep in (" {", " [", " ("):
        k = s.find(sep)
        if k >= 0:
            s = s[:k]
    return s


def parse_vr(s):
    """A:num/den:prec:keep:commodity -> (Fraction, base commodity)"""
    if not s.startswith("A:"):
        return None
    q, prec, keep, comm = s[2:].split(":", 3)
    n, d = q.split("/")
    return Fraction(int(n), int(d)), base_comm(comm)


def observe(text, permissive):
    """Run ledger on the journal text. Returns dict(rc, errors=[(line, kind)], rows={line: [(account, q, comm)]}, crashed)."""
    with tempfile.NamedTemporaryFile("w", suffix=".dat", delete=False, encoding="utf-8") as f:
        f.write(text)
        path = f.name
    try:
        args = ["-f", path] + (["--permissive"] if permissive else []) + ["reg", "--empty", "--format", FMT]
        rc, out, err = vflib.ledger_run(args)
    finally:
        os.unlink(path)
    errors = []
    cur = None
    for line in err.split("\n"):
        m = re.match(r'While parsing file "[^"]*", line (\d+):', line)
        if m:
            cur = int(m.group(1))
        elif line.startswith("Error: "):
            errors.append((cur, vflib.err_kind(line) or "other"))
            cur = None
    rows = {}
    bad = None
    for line in out.split("\n"):
        if not line:
            continue
        parts = line.split("|")
        if len(parts) < 3:
            bad = line
            continue
        ln, acct, vr = parts[0], "|".join(parts[1:-1]), parts[-1]
        pv = parse_vr(vr)
        if pv is None or not ln.isdigit():
            bad = line
            continue
        rows.setdefault(int(ln), []).append((acct.strip('"') if False else acct, pv[0], pv[1]))
    return dict(rc=rc, errors=errors, rows=rows, crashed=(rc is None or rc < 0), bad=bad, stderr=err[-1500:])


def canon_obs(o):
    if o["errors"]:
        return "ok\tE\t" + ",".join("%s:%s" % (l, k) for l, k in o["errors"])
    rows = []
    for ln, rs in o["rows"].items():
        for acct, q, c in rs:
            rows.append("%d|%s|%d/%d|%s" % (ln, acct, q.numerator, q.denominator, c))
    return "ok\tR\t" + ";".join(sorted(rows))


def canon_model(m):
    """rows of the model are sorted by the Lean side with the same code-point order; re-sort to be safe."""
    if m.startswith("ok\tR\t"):
        body = m[5:]
        return "ok\tR\t" + ";".join(sorted(body.split(";"))) if body else m
    return m


# ---------------------------------------------------------------------------
# comparing ledger with the oracle


def post_at(x, line):
    for p in x["posts"]:
        if p["line"] == line:
            return p
    return None


def classify(x, lines):
    """Fingerprint of a disagreement inside transaction x: the guard of a `_partial` theorem when the
    posting concerned has the excluded shape, else None (generic)."""
    concerned = [p for p in x["posts"] if p.get("assert") is not None and (p["line"] in lines or p["amount"] is None)]
    if not concerned:
        concerned = [p for p in x["posts"] if p.get("assert") is not None]
    for p in concerned:
        if p["kind"] != "real":
            k = x["posts"].index(p)
            if any(e["account"] == p["account"] and e["kind"] == "real" for e in x["posts"][:k]):
                return FP_VIRT
    for p in concerned:
        if p["amount"] is not None and p["assert"]["comm"] and p["amount"]["comm"] != p["assert"]["comm"] and amt_q(p["amount"]) != 0:
            return FP_COMM
    return None


def assigned_mismatch(x, assigned, rows):
    for line, (q, c) in assigned.items():
        got = rows.get(line)
        if not got or len(got) != 1 or got[0][1] != q or (got[0][2] != c and q != 0):
            return (line, q, c, [(str(g[1]), g[2]) for g in got] if got else None)
    return None


def judge(j, obs, permissive, comms=None):
    """First disagreement between ledger's own report and the property, or None.
    Returns (fingerprint, what, xact index)."""
    try:
        spec = spec_walk(j, permissive)
    except Undefined:
        return "undefined"
    errs = list(obs["errors"])
    for xi, (x, v) in enumerate(zip(j["xacts"], spec)):
        mine = [(l, k) for l, k in errs if l is not None and x["line"] <= l <= x["end_line"]]
        if v[0] == "accept":
            if mine:
                l, k = mine[0]
                fp = classify(x, [l]) or ("C09:true-rejected" if k == "assert-off" else "C09:unexpected-" + k)
                why = "--permissive is given (no assertion may fail)" if permissive else "every assertion in it is true"
                return (fp, "ledger reports '%s' at line %s for the transaction at lines %d-%d although %s and it balances"
                        % (k, l, x["line"], x["end_line"], why), xi)
            if errs and v[1] and comms is not None and classify(x, list(v[1])) == FP_VIRT:
                # ledger prints no register when any transaction failed, so an assigned amount of this journal cannot be
                # read off; a wrong one would silently shift every later balance.  Re-run the accepted prefix.
                pre = {"xacts": [copy.deepcopy(y) for y, w in zip(j["xacts"][:xi], spec[:xi]) if w[0] == "accept"] + [copy.deepcopy(x)]}
                po = observe(render(pre, comms), permissive)
                px = pre["xacts"][-1]
                sp = spec_walk(pre, permissive)[-1]
                if po["errors"]:
                    return (FP_VIRT, "ledger reports %s on the accepted prefix ending with the transaction at lines %d-%d, all of whose assertions are true"
                            % (po["errors"], x["line"], x["end_line"]), xi)
                bad = assigned_mismatch(px, sp[1], po["rows"]) if sp[0] == "accept" else None
                if bad:
                    return (FP_VIRT, "posting at line %d of the accepted prefix has only '= AMOUNT'; it must receive %s %s but ledger gave %s"
                            % bad, xi)
        else:
            _, line, kind = v
            if not mine:
                fp = classify(x, [line]) or ("C09:false-accepted" if kind == "assert-off" else "C09:missing-" + kind)
                return (fp, "ledger accepts the transaction at lines %d-%d although the property requires '%s' at line %s"
                        % (x["line"], x["end_line"], kind, line), xi)
            l, k = mine[0]
            if k != kind or (line is not None and l != line):
                fp = classify(x, [l, line]) or "C09:wrong-error"
                return (fp, "ledger reports '%s' at line %s where the property requires '%s' at line %s" % (k, l, kind, line), xi)
    if errs and any(l is None or not any(x["line"] <= l <= x["end_line"] for x in j["xacts"]) for l, k in errs):
        return ("C09:stray-error", "ledger reports an error outside every transaction: %s" % errs, len(j["xacts"]) - 1)
    if not errs:
        for xi, (x, v) in enumerate(zip(j["xacts"], spec)):
            if v[0] != "accept":
                continue
            bad = assigned_mismatch(x, v[1], obs["rows"])
            if bad:
                fp = classify(x, [bad[0]]) or "C09:assigned-amount"
                return (fp, "posting at line %d has only '= AMOUNT'; it must receive %s %s (AMOUNT minus the running balance) but ledger gave %s"
                        % bad, xi)
    return None


def shrink(j, comms, permissive, fp):
    """Greedy removal of whole transactions while the same fingerprint is still reported on the real binary."""
    cur = copy.deepcopy(j)
    changed = True
    while changed and len(cur["xacts"]) > 1:
        changed = False
        for k in range(len(cur["xacts"]) - 1, -1, -1):
            cand = {"xacts": [copy.deepcopy(x) for i, x in enumerate(cur["xacts"]) if i != k]}
            if not cand["xacts"]:
                continue
            text = render(cand, comms)
            r = judge(cand, observe(text, permissive), permissive, comms)
            if r not in (None, "undefined") and r[0] == fp:
                cur = cand
                changed = True
                break
    return cur


def lot_sensitive(j, permissive):
    """Do explicit lot annotations change which transactions balance (judged by the oracle with and without them)?"""
    if not any(p.get("lot") for x in j["xacts"] for p in x["posts"]):
        return False
    try:
        a = spec_walk(j, permissive)
    except Undefined:
        a = "undefined"
    try:
        b = spec_walk(j, permissive, ignore_lots=True)
    except Undefined:
        b = "undefined"
    return a != b


def shrink_mismatch(j, comms, permissive):
    """Greedy removal of transactions, then of postings, while model and binary still disagree."""
    def differs(cand):
        text = render(cand, comms)
        o = observe(text, permissive)
        m = vflib.driver_run(["assert.run\t%d\t%s\t%s" % (1 if permissive else 0, env_of(comms), json.dumps(cand))])[0]
        return canon_obs(o) != canon_model(m)
    cur = copy.deepcopy(j)
    changed = True
    while changed:
        changed = False
        for k in range(len(cur["xacts"]) - 1, -1, -1):
            if len(cur["xacts"]) == 1:
                break
            cand = {"xacts": [copy.deepcopy(x) for i, x in enumerate(cur["xacts"]) if i != k]}
            if differs(cand):
                cur = cand
                changed = True
                break
        if changed:
            continue
        for xi in range(len(cur["xacts"]) - 1, -1, -1):
            for pi in range(len(cur["xacts"][xi]["posts"]) - 1, -1, -1):
                if len(cur["xacts"][xi]["posts"]) == 1:
                    break
                cand = copy.deepcopy(cur)
                del cand["xacts"][xi]["posts"][pi]
                if differs(cand):
                    cur = cand
                    changed = True
                    break
            if changed:
                break
    return cur


def report(ctx, j, comms, permissive, res):
    fp, what, xi = res
    small = shrink(j, comms, permissive, fp)
    text = render(small, comms)
    obs = observe(text, permissive)
    r2 = judge(small, obs, permissive, comms)
    if r2 not in (None, "undefined"):
        what = r2[1]
    ctx.violation(fp, what, {"journal": text, "permissive": permissive, "ast": small,
                             "comms": [[c.name, c.dec, c.prefix, c.space, c.thousands] for c in comms],
                             "ledger_errors": obs["errors"], "ledger_rc": obs["rc"],
                             "stderr": re.sub(r'"/[^"]*\.dat"', '"J"', obs["stderr"]),
                             "how": "ledger -f J %sreg --empty --format '%s'" % ("--permissive " if permissive else "", FMT.strip())})


# ---------------------------------------------------------------------------
# generator of histories (keeps its own spec-level running balances so that it can
# write true assertions, false ones off by >= 1 display unit, and balanced transactions)


class Hist:
    def __init__(self, rng, comms, accounts, divergent=False, p_assert=0.55, p_cost=0.08, p_elide=0.35, small=False):
        self.r, self.comms, self.accounts = rng, comms, accounts
        self.real, self.both = {}, {}
        self.divergent = divergent        # may emit the shapes excluded by the guards of the _partial theorems
        self.p_assert, self.p_cost, self.p_elide, self.small = p_assert, p_cost, p_elide, small
        self.p_lot = 0.0
        self.day0 = jgen.day_of(2019, 1, 1)
        self.feat = {}

    def f(self, name):
        self.feat[name] = self.feat.get(name, 0) + 1

    def qty(self, c):
        r = self.r
        mag = r.choice([5, 50, 2000] if self.small else [10, 1000, 10 ** 5, 10 ** 7])
        dec = c.dec if r.random() < 0.8 else r.randint(0, c.dec)
        n = r.randint(1, mag * 10 ** dec)
        q = Fraction(n, 10 ** dec)
        return (q if r.random() < 0.6 else -q), dec

    def make_lot(self, c):
        r = self.r
        others = [k for k in self.comms if k.name != c.name] or [Commodity("USD", 2)]
        pc = r.choice(others)
        lot = {"price": None, "date": None, "tag": None}
        shape = r.choice(["price", "date", "tag", "price+date", "all"])
        if "price" in shape or shape == "all":
            lot["price"] = amt(Fraction(r.randint(1, 900 * 10 ** pc.dec), 10 ** pc.dec), pc)
        if "date" in shape or shape == "all":
            lot["date"] = self.day0 + r.randint(0, 400)
        if shape in ("tag", "all"):
            lot["tag"] = "lot %d" % r.randint(1, 9)
        return lot

    def running(self, pend, acct, v, c):
        t = (self.both if v else self.real).get((acct, c), Fraction(0))
        for a2, v2, c2, q2 in pend:
            if a2 == acct and c2 == c and (v or not v2):
                t += q2
        return t

    def xact(self):
        r = self.r
        n = r.randint(1, 4)
        posts, pend = [], []
        falsified = False
        has_cost = False
        has_lot = False
        for i in range(n):
            acct = r.choice(self.accounts)
            kind = r.choices(["real", "virtual", "bvirtual"], [0.62, 0.2, 0.18])[0]
            v = kind != "real"
            c = r.choice(self.comms)
            q, dec = self.qty(c)
            p = {"account": acct, "kind": kind, "state": r.choice([0, 0, 0, 1, 2]), "amount": amt(q, c, dec), "cost": None,
                 "assert": None, "note": ""}
            earlier_real_same = any(a2 == acct and not v2 for a2, v2, c2, q2 in pend)
            mode = None
            if r.random() < self.p_assert and not falsified:
                mode = r.choices(["true", "false", "assign", "zero", "zero-assign"], [0.5, 0.1, 0.25, 0.1, 0.05])[0]
            if mode and v and earlier_real_same and not self.divergent:
                mode = None                      # shape of the known divergence: kept out of the ordinary stream
            if mode and v and earlier_real_same:
                self.f("shape:virtual-after-real-same-xact")
            if mode in ("true", "false"):
                ac = c
                if self.divergent and len(self.comms) > 1 and r.random() < 0.3:
                    ac = r.choice([k for k in self.comms if k.name != c.name])
                    self.f("shape:own-commodity-differs")
                tot = self.running(pend, acct, v, ac.name) + (q if ac.name == c.name else 0)
                if mode == "false":
                    off = Fraction(r.choice([1, -1, 2, 7, -30, 100]), 10 ** ac.dec)
                    tot += off
                    falsified = True
                    self.f("assert:false")
                else:
                    self.f("assert:true")
                adec = ac.dec
                while (tot * 10 ** adec).denominator != 1:
                    adec += 1
                p["assert"] = amt(tot, ac, adec)
            elif mode == "assign":
                ac = r.choice(self.comms)
                tq, tdec = self.qty(ac)
                if r.random() < 0.15:
                    tq = self.running(pend, acct, v, ac.name)      # assigned amount becomes zero
                    tdec = ac.dec
                    while (tq * 10 ** tdec).denominator != 1:
                        tdec += 1
                p["amount"] = None
                p["assert"] = amt(tq, ac, tdec)
                q, c = tq - self.running(pend, acct, v, ac.name), ac
                self.f("assign")
            elif mode in ("zero", "zero-assign"):
                nz = {k.name: self.running(pend, acct, v, k.name) for k in self.comms}
                nz = {k: t for k, t in nz.items() if t != 0}
                zero = {"q": "0/1", "prec": 0, "comm": ""}
                if mode == "zero-assign":
                    if len(nz) <= 1:
                        p["amount"] = None
                        p["assert"] = zero
                        if nz:
                            cn, t = list(nz.items())[0]
                            q, c = -t, [k for k in self.comms if k.name == cn][0]
                        else:
                            q, c = Fraction(0), Commodity("", 0)
                        self.f("assign:bare-zero")
                    elif self.divergent or r.random() < 0.2:
                        p["amount"] = None
                        p["assert"] = zero
                        falsified = True
                        q = None
                        self.f("assign:bare-zero-multi")
                else:
                    if len(nz) == 1 and r.random() < 0.7:
                        cn, t = list(nz.items())[0]
                        c = [k for k in self.comms if k.name == cn][0]
                        q = -t
                        dec = c.dec
                        while (q * 10 ** dec).denominator != 1:
                            dec += 1
                        p["amount"] = amt(q, c, dec)
                        p["assert"] = zero
                        self.f("assert:bare-zero-true")
                    elif not nz and r.random() < 0.5:
                        q, c = Fraction(0), c
                        p["amount"] = amt(0, c, 0)
                        p["assert"] = zero
                        self.f("assert:bare-zero-true")
                    else:
                        still = dict(nz)
                        still[c.name] = still.get(c.name, 0) + q
                        if any(t != 0 for t in still.values()):
                            falsified = True
                            self.f("assert:bare-zero-false")
                        else:
                            self.f("assert:bare-zero-true")
                        p["assert"] = zero
            if q is None:
                posts.append(p)
                break
            if p["amount"] is not None and c.name and q != 0 and r.random() < self.p_lot:
                p["lot"] = self.make_lot(c)
                has_lot = True
                self.f("lot")
                if any(a2 == acct and v2 == v for a2, v2, c2, q2 in pend) or p["assert"] is not None:
                    self.f("lot:same-account-same-xact")
            if p["amount"] is not None and not p.get("lot") and kind != "virtual" and r.random() < self.p_cost and q.denominator == 1 and q != 0 and len(self.comms) > 1:
                cc = r.choice([k for k in self.comms if k.name != c.name])
                per_unit = r.random() < 0.6
                price = Fraction(r.randint(1, 300 * 10 ** cc.dec), 10 ** cc.dec)
                p["cost"] = dict(amt(price, cc), per_unit=per_unit)
                has_cost = True
                self.f("cost")
            posts.append(p)
            pend.append((acct, v, c.name, q))
            if falsified:
                break
        # balance it (spec-level amounts); a falsified transaction is rejected before balancing matters, balance it anyway
        res = {}
        lots = {}
        for p, (a2, v2, c2, q2) in zip(posts, pend):
            if p["kind"] == "virtual":
                continue
            if p["cost"]:
                tq, tc = cost_total(dict(p, amount={"q": "%d/%d" % (q2.numerator, q2.denominator), "comm": c2}))
            else:
                tq, tc = q2, c2
            if p.get("lot"):
                # an annotated commodity balances only against itself: give it its own balancing posting
                lk = json.dumps(p["lot"], sort_keys=True)
                lots[(tc, lk)] = lots.get((tc, lk), Fraction(0)) + tq
                continue
            res[tc] = res.get(tc, Fraction(0)) + tq
        nz = {c: q for c, q in res.items() if q != 0}
        cmap = {c.name: c for c in self.comms}
        cmap[""] = Commodity("", 0)
        bal_acct = r.choice(self.accounts)
        tail = []
        for (cn, lk), t in sorted(lots.items()):
            if t != 0:
                c = cmap[cn]
                dec = c.dec
                while (t * 10 ** dec).denominator != 1:
                    dec += 1
                acct = r.choice(self.accounts)
                tail.append({"account": acct, "kind": "real", "state": 0, "amount": amt(-t, c, dec), "cost": None, "assert": None,
                             "note": "", "lot": json.loads(lk)})
                pend.append((acct, False, cn, -t))
        if nz and not has_cost and not has_lot and r.random() < self.p_elide and not any(p["amount"] is None and p["assert"] is None for p in posts):
            tail.append({"account": bal_acct, "kind": "real", "state": 0, "amount": None, "cost": None, "assert": None, "note": ""})
            for cn, t in sorted(nz.items()):
                pend.append((bal_acct, False, cn, -t))
            self.f("elided")
        else:
            for cn, t in sorted(nz.items()):
                c = cmap[cn]
                dec = c.dec
                while (t * 10 ** dec).denominator != 1:
                    dec += 1
                acct = r.choice(self.accounts)
                kind = "bvirtual" if r.random() < 0.15 else "real"
                tail.append({"account": acct, "kind": kind, "state": 0, "amount": amt(-t, c, dec), "cost": None, "assert": None, "note": ""})
                pend.append((acct, kind != "real", cn, -t))
        # the balancing postings go last: an earlier position could sit before an assertion on their account
        posts += tail
        x = {"date": self.day0 + r.randint(0, 900), "aux": None, "state": r.choice([0, 0, 1, 2]), "code": "", "payee": "p%d" % r.randint(1, 30),
             "note": "", "posts": posts}
        if r.random() < 0.1:
            x["aux"] = x["date"] + r.randint(-30, 30)
        if not falsified:
            for a2, v2, c2, q2 in pend:
                self.both[(a2, c2)] = self.both.get((a2, c2), Fraction(0)) + q2
                if not v2:
                    self.real[(a2, c2)] = self.real.get((a2, c2), Fraction(0)) + q2
        return x

    def journal(self, n):
        return {"xacts": [self.xact() for _ in range(n)]}


def env_of(comms):
    return ",".join("%s=%d" % (c.name, c.dec) for c in comms)


def small_cases():
    """Bounded-exhaustive two-transaction histories around one `= AMOUNT` (boundary stream): what was posted before (nothing at
    all / to A / to its child A:B; ordinary, virtual, [balanced]), whether a second commodity is present on A, an optional
    earlier posting inside the asserting transaction (ordinary / virtual, to A or to A:B), the asserting posting's kind, and
    the check: true, false by exactly one display unit (+), false by a whole unit (-), assignment, assignment that results
    in zero, bare `= 0` true / false by one unit / as assignment (0, 1 or 2 commodities present), AMOUNT in the posting's
    own commodity or in another one."""
    D = Commodity("$", 2, prefix=True, space=False)
    E = Commodity("EUR", 2)
    comms = [D, E]
    cm = {"$": D, "EUR": E}
    ZERO = {"q": "0/1", "prec": 0, "comm": ""}
    out = []

    def P(acct, kind, a=None, asr=None):
        return {"account": acct, "kind": kind, "state": 0, "amount": a, "cost": None, "assert": asr, "note": ""}
    opens = [None] + list(itertools.product(["A", "A:B"], ["real", "virtual", "bvirtual"]))
    earliers = [None] + list(itertools.product(["A", "A:B"], ["real", "virtual"]))
    modes = [("true", False), ("true", True), ("false+", False), ("false+", True), ("false-", False), ("assign", False), ("assign", True),
             ("assign-zero", False), ("zero-true", False), ("zero-false", False), ("zero-assign", False)]
    for opn, eur, earlier, kind, (mode, other) in itertools.product(opens, [False, True], earliers, ["real", "virtual", "bvirtual"], modes):
        p1 = []
        if opn:
            p1.append(P(opn[0], opn[1], amt(10, D)))
            if opn[1] != "virtual":
                p1.append(P("Eq", "real", amt(-10, D)))
        if eur:
            p1 += [P("A", "real", amt(4, E)), P("Eq", "real", amt(-4, E))]
        if not p1:
            p1 = [P("Other", "real", amt(1, D)), P("Eq", "real", amt(-1, D))]
        x1 = {"date": jgen.day_of(2020, 3, 1), "aux": None, "state": 0, "code": "", "payee": "open", "note": "", "posts": p1}
        real, both = {}, {}
        for p in p1:
            key = (p["account"], p["amount"]["comm"])
            both[key] = both.get(key, 0) + amt_q(p["amount"])
            if p["kind"] == "real":
                real[key] = real.get(key, 0) + amt_q(p["amount"])
        posts, pend = [], []
        if earlier:
            posts.append(P(earlier[0], earlier[1], amt(5, D)))
            pend.append((earlier[0], earlier[1] != "real", "$", Fraction(5)))
        v = kind != "real"
        ac = E if other else D

        def run(c):
            t = (both if v else real).get(("A", c), Fraction(0))
            return t + sum(q2 for a2, v2, c2, q2 in pend if a2 == "A" and c2 == c and (v or not v2))
        own = Fraction(1)
        if mode in ("zero-true", "zero-false"):
            present = [c for c in ("$", "EUR") if run(c) != 0]
            for c in present[:-1]:
                posts.append(P("A", kind, amt(-run(c), cm[c])))
            if present:
                c = present[-1]
                q = -run(c) + (Fraction(1, 100) if mode == "zero-false" else 0)
            else:
                c, q = "$", (Fraction(1, 100) if mode == "zero-false" else Fraction(0))
            posts.append(P("A", kind, amt(q, cm[c]), ZERO))
        elif mode == "zero-assign":
            posts.append(P("A", kind, None, ZERO))
        elif mode == "assign":
            posts.append(P("A", kind, None, amt(16, ac)))
        elif mode == "assign-zero":
            posts.append(P("A", kind, None, amt(run("$"), D)))
        else:
            t = run(ac.name) + (own if ac.name == "$" else 0)
            t += {"true": 0, "false+": Fraction(1, 100), "false-": -1}[mode]
            posts.append(P("A", kind, amt(own, D), amt(t, ac)))
        posts.append(P("Eq", "real"))
        x2 = {"date": jgen.day_of(2020, 1, 1), "aux": None, "state": 0, "code": "", "payee": "t", "note": "", "posts": posts}
        out.append(({"xacts": [x1, x2]}, comms))
    return out


def lot_cases():
    """Boundary stream for lot annotations: two postings of the same kind to the same account, the earlier one carrying an
    explicit `{price}` / `[date]` / `(tag)` annotation (each alone and all three), the later one `= AMOUNT` in the BASE
    commodity — true, false by exactly the lot's quantity (what one gets when the lot drops out of the running balance),
    and as an assignment — with the annotated posting in the SAME transaction and, as a control, in an earlier one; with
    and without a previous balance on the account; plus a virtual assertion after an annotated ordinary posting."""
    S = Commodity("AAPL", 0)
    D = Commodity("$", 2, prefix=True, space=False)
    comms = [S, D]
    d0 = jgen.day_of(2020, 1, 1)
    lotsv = [{"price": amt(5, D), "date": None, "tag": None}, {"price": None, "date": d0 - 40, "tag": None},
             {"price": None, "date": None, "tag": "first lot"}, {"price": amt(Fraction(13, 2), D), "date": d0 - 3, "tag": "x1"}]
    out = []

    def P(acct, kind, q=None, asr=None, lot=None):
        p = {"account": acct, "kind": kind, "state": 0, "amount": None if q is None else amt(q, S), "cost": None,
             "assert": None if asr is None else amt(asr, S), "note": ""}
        if lot:
            p["lot"] = dict(lot)
        return p

    def X(day, payee, posts):
        return {"date": day, "aux": None, "state": 0, "code": "", "payee": payee, "note": "", "posts": posts}
    kinds = [("real", "real"), ("virtual", "virtual"), ("bvirtual", "bvirtual"), ("real", "virtual"), ("real", "bvirtual")]
    for (k1, k2), lot, same, mode, prior in itertools.product(kinds, lotsv, [True, False], ["true", "false-lot", "assign"], [0, 7]):
        xs = []
        if prior:
            xs.append(X(d0 + 9, "prior", [P("A", "real", prior), P("Eq", "real", -prior)]))
        # what the asserting posting (kind k2) sees of the earlier ones: ordinary postings always, virtual ones when it is virtual
        seen = prior + (10 if (k1 == "real" or k2 != "real") else 0)
        lotp = [P("A", k1, 10, lot=lot)] + ([P("Eq", "real", -10, lot=lot)] if k1 != "virtual" else [])
        target = {"true": seen + 5, "false-lot": seen + 5 - 10, "assign": seen + 5}[mode]
        own = None if mode == "assign" else 5
        ap = [P("A", k2, own, asr=target)] + ([P("Eq", "real", -5)] if k2 != "virtual" else [])
        if same:
            xs.append(X(d0, "lot and assertion", [lotp[0], ap[0]] + lotp[1:] + ap[1:]))
        else:
            xs.append(X(d0 + 5, "lot", lotp))
            xs.append(X(d0, "assertion", ap))
        out.append(({"xacts": xs}, comms))
    return out


def malformed(rng, comms, accounts):
    """AST-expressible ill-formed transactions the model also decides."""
    h = Hist(rng, comms, accounts, small=True)
    j = h.journal(rng.randint(1, 4))
    c = comms[0]
    a = rng.choice(accounts)

    def P(acct, kind="real", q=None, asr=None):
        return {"account": acct, "kind": kind, "state": 0, "amount": None if q is None else amt(q, c), "cost": None,
                "assert": asr, "note": ""}
    kind = rng.choice(["two-nulls", "null-earlier", "unbalanced", "null-virtual", "multi-zero"])
    if kind == "two-nulls":
        posts = [P(a, q=5), P("NA"), P("NB")]
    elif kind == "null-earlier":
        posts = [P(a), P(a, q=3, asr=amt(3, c)), P("Q", q=-1)]
    elif kind == "unbalanced":
        posts = [P(a, q=5, asr=amt(h.real.get((a, c.name), 0) + 5, c)), P("Q", q=-4)]
    elif kind == "null-virtual":
        posts = [P(a, q=5), P(a, kind="virtual"), P("Q", q=-5)]
    else:
        others = [k for k in comms if k.name != c.name]
        posts = [P("M", q=5)] + ([{"account": "M", "kind": "real", "state": 0, "amount": amt(2, others[0]), "cost": None, "assert": None,
                                   "note": ""}] if others else []) + [P("M", asr={"q": "0/1", "prec": 0, "comm": ""}), P("Q")]
    j["xacts"].insert(rng.randint(0, len(j["xacts"])), {"date": h.day0 + 5, "aux": None, "state": 0, "code": "", "payee": "bad " + kind,
                                                        "note": "", "posts": posts})
    return j, kind


# ---------------------------------------------------------------------------


def run_cases(ctx, cases):
    """cases: list of (journal AST, comms, tag). Renders, runs ledger (plain and --permissive), the model, the oracle."""
    texts = []
    for j, comms, tag in cases:
        texts.append(render(j, comms))
    jobs = [(k, perm) for k in range(len(cases)) for perm in (False, True)]
    obs = vflib.pmap(lambda kp: observe(texts[kp[0]], kp[1]), jobs)
    lines = []
    for k, perm in jobs:
        j, comms, tag = cases[k]
        lines.append("assert.run\t%d\t%s\t%s" % (1 if perm else 0, env_of(comms), json.dumps(j)))
    model = []
    CH = 400
    for part in vflib.pmap(lambda i: vflib.driver_run(lines[i:i + CH]), list(range(0, len(lines), CH))):
        model += part
    reported = 0
    for (k, perm), o, m in zip(jobs, obs, model):
        j, comms, tag = cases[k]
        ctx.count()
        ctx.feature("mode:" + ("permissive" if perm else "plain"))
        if o["crashed"] or o["bad"]:
            ctx.tie_broken("corr:assert.run", "ledger crashed or printed an unparsable row on:\n%s\n%s" % (texts[k], o["bad"]))
            continue
        lo, mo = canon_obs(o), canon_model(m)
        for l, kd in o["errors"]:
            ctx.feature("ledger-error:" + kd)
        if lo != mo and lot_sensitive(j, perm):
            # the model reads base commodities only; whether THIS journal's transactions balance depends on the
            # annotated commodities (implied price / per-lot remainder): outside the model, the oracle still judges
            ctx.feature("model-skip:balancing-depends-on-lots")
        elif lo != mo:
            if len(ctx.mism) < 3:
                sj = shrink_mismatch(j, comms, perm)
                st = render(sj, comms)
                so = canon_obs(observe(st, perm))
                sm = canon_model(vflib.driver_run(["assert.run\t%d\t%s\t%s" % (1 if perm else 0, env_of(comms), json.dumps(sj))])[0])
                ctx.mism.append({"journal": st, "permissive": perm, "model": sm[:600], "ledger": so[:600], "tag": tag})
                ctx.tie_broken("corr:assert.run", "model and ledger disagree (%s, permissive=%s):\n%s\nmodel : %s\nledger: %s"
                               % (tag, perm, st, sm[:800], so[:800]))
            else:
                ctx.mism.append({"tag": tag, "permissive": perm})
        else:
            ctx.traces_validated += 1
        res = judge(j, o, perm, comms)
        if res == "undefined":
            ctx.feature("oracle:undefined")
        elif res is not None:
            ctx.feature("oracle:disagreement")
            ctx.oracle_fail += 1
            if reported < 60 and (res[0] not in ctx.reported_fp or ctx.reported_fp[res[0]] < 2):
                ctx.reported_fp[res[0]] = ctx.reported_fp.get(res[0], 0) + 1
                reported += 1
                report(ctx, j, comms, perm, res)
        else:
            ctx.feature("oracle:agrees")
        # non-trivial: at least one assertion/assignment on an account that already had postings
        seen = set()
        nt = False
        na = 0
        for x in j["xacts"]:
            for p in x["posts"]:
                if p.get("assert") is not None:
                    na += 1
                    if p["account"] in seen:
                        nt = True
            for p in x["posts"]:
                seen.add(p["account"])
        if nt:
            ctx.nontrivial((texts[k], perm))
        if na:
            ctx.feature("assertions", na)
        ctx.sample({"journal": texts[k][:700], "permissive": perm, "ledger": lo[:300], "model": mo[:300]}, cap=4)


def load_corpus():
    out = []
    d = os.path.join(vflib.ROOT, "corpus", "C09")
    for p in sorted(glob.glob(os.path.join(d, "*.json"))):
        with open(p) as f:
            o = json.load(f)
        comms = [Commodity(*c) for c in o["comms"]]
        out.append((o["ast"], comms, "corpus:" + os.path.basename(p)))
    return out


def run(tier, seed):
    ctx = Check("C09", tier, seed, trusted=[
        "tools/extract_assert.py recognises the same-transaction filter and the place of the own-amount subtraction (closed list of forms)",
        "tools/jgen.py renders the AST the model receives into the journal text ledger reads"])
    ctx.mism, ctx.oracle_fail, ctx.reported_fp = [], 0, {}
    ctx.rule = ("a case = one generated history (1-40 transactions, 1-5 accounts incl. parent/child names, 1-3 commodities, dates out of "
                "file order, real/(virtual)/[balanced], costs and explicit {price}/[date]/(tag) annotations creating lots, true/false(off by >=1 display unit) assertions, assignments, bare 0) "
                "run once plainly and once with --permissive; bounded-exhaustive two-transaction shapes and lot-annotation shapes first; non-trivial = some assertion/"
                "assignment sits on an account that already received postings; distinct by journal text and mode")
    ctx.assumptions = ["stripping annotations is the identity on quantity and base commodity",
                       "amounts are written with at most the commodity's display precision, cost totals included (is_zero exact)",
                       "value expressions after '=', automated transactions, deferred postings, apply account/alias are outside the model",
                       "whether a transaction balances is decided exactly (C01 owns the display-precision tolerance and implied prices)"]
    if not ctx.prepare():
        return ctx.finish()
    rng = ctx.rng
    quick = ctx.tier == "quick"
    cases = load_corpus()
    ctx.extra_cov["corpus"] = len(cases)
    sm = small_cases()
    ctx.extra_cov["exhaustive_small_shapes"] = len(sm)
    cases += [(j, comms, "small") for j, comms in sm]
    lc = lot_cases()
    ctx.extra_cov["exhaustive_lot_shapes"] = len(lc)
    cases += [(j, comms, "lot") for j, comms in lc]
    n_rand = 260 if quick else 20000
    if ctx.ties_broken:
        # a proof obligation / extractor / pinned text no longer checks: search mode, widen every stream
        n_rand *= 5
        ctx.extra_cov["search_mode"] = [t[0] for t in ctx.ties_broken]
    feats = {}
    for i in range(n_rand):
        nc = rng.choice([1, 2, 2, 3])
        comms = rng.sample(POOL, nc)
        accounts = rng.sample(rng.choice(ACCT_SETS), rng.randint(1, 5))
        divergent = rng.random() < 0.5     # both shapes are ordinary behaviour since the repairs 30d5da0, ccbf198
        h = Hist(rng, comms, accounts, divergent=divergent, small=rng.random() < 0.5,
                 p_assert=rng.choice([0.3, 0.55, 0.8]), p_cost=rng.choice([0, 0.08, 0.2]))
        if rng.random() < 0.3:
            h.p_lot = rng.choice([0.15, 0.4])       # explicit lot annotations {price} [date] (tag)
            ctx.feature("journals-with-lots")
        n = rng.choice([1, 2, 3, 5, 8, 13, 20, 40]) if rng.random() < 0.7 else rng.randint(1, 40)
        j = h.journal(n)
        for k, v in h.feat.items():
            feats[k] = feats.get(k, 0) + v
        ctx.feature("xacts:%s" % ("1" if n == 1 else "2-5" if n <= 5 else "6-20" if n <= 20 else "21-40"))
        ctx.feature("commodities:%d" % nc)
        ctx.feature("accounts:%d" % len(accounts))
        cases.append((j, comms, "random%s" % ("-divergent" if divergent else "")))
    for i in range((40 if quick else 2000) * (3 if ctx.ties_broken else 1)):
        comms = rng.sample(POOL, rng.choice([1, 2, 3]))
        accounts = rng.sample(rng.choice(ACCT_SETS), rng.randint(1, 4))
        j, kind = malformed(rng, comms, accounts)
        ctx.feature("malformed:" + kind)
        cases.append((j, comms, "malformed:" + kind))
    for k, v in feats.items():
        ctx.feature("gen:" + k, v)
    run_cases(ctx, cases)
    # text-level malformed: '=' with nothing after it must be an error at that line
    bad = "2020/01/01 x\n    A  $5 = \n    B\n"
    o = observe(bad, False)
    ctx.count()
    if o["crashed"] or o["errors"] != [(2, "other")]:
        ctx.violation("C09:empty-assertion-amount", "a posting written `A  $5 = ` (no AMOUNT) is not rejected at its line: %s" % o["errors"],
                      {"journal": bad, "permissive": False})
    ctx.extra_cov["oracle_disagreements"] = ctx.oracle_fail
    ctx.extra_cov["source_flags"] = source_flags()
    if ctx.mism:
        ctx.extra_cov["mismatches"] = ctx.mism[:6]
    return ctx.finish()


def source_flags():
    p = os.path.join(vflib.LEAN, "LedgerModel", "Gen", "Assert.lean")
    try:
        t = open(p, encoding="utf-8").read()
    except OSError:
        return {}
    return {m.group(1): m.group(2) == "true" for m in re.finditer(r"def (\w+) : Bool := (\w+)", t)}


def replay(obj):
    r = obj.get("replay", {})
    if "journal" not in r:
        print(json.dumps(obj, indent=1)[:3000])
        return 1
    vflib.ensure_ledger()
    perm = bool(r.get("permissive"))
    o = observe(r["journal"], perm)
    print(r["journal"])
    print("command:", r.get("how"))
    print("ledger now: rc=%s errors=%s" % (o["rc"], o["errors"]))
    if o["stderr"]:
        print(o["stderr"])
    if "ast" in r:
        comms = [Commodity(*c) for c in r.get("comms", [])]
        j = r["ast"]
        render(j, comms)      # line numbers
        res = judge(j, o, perm, comms)
        print("oracle:", res)
        return 0 if res in (None, "undefined") else 1
    return 0 if o["errors"] == [(2, "other")] else 1
