"""C10 — market valuation uses the most recent price not after the valuation date.

Theorems: lean/LedgerModel/Props/C10.lean over Model/Prices.lean (per-pair sorted map with
overwrite, upper_bound lookup, path search over the edges priced at the moment, product
with inversion, price x quantity; -V with the COMMODITY_PRIMARY rule).
Tie: Gen/Prices.lean (operators/rules + code text of the mirrored statements, re-extracted
by tools/extract_prices.py) and this differential check of the driver ops px.value /
px.list against `ledger bal|reg -X T|-V --now D` and `ledger pricedb --now D`.
Oracle on the implementation: an independent Fraction/datetime evaluation of the property
(latest price of the pair dated <= D, last in file order on equal moments, reciprocal for a
reversed quote, product along the unique path, unconverted when there is none) on every
case, and the paired-run relation "removing the prices dated after D changes nothing".
"""
import os, re, json, glob, time, shutil, tempfile, itertools, hashlib
from datetime import datetime, date, timedelta
from fractions import Fraction
import vflib
from vflib import Check

MANIFEST = dict(
    text="Machine-checked proof (Lean 4) about a model of ledger's price graph (one sorted date->price map per commodity pair with "
         "overwrite on equal moments, upper_bound lookup, route choice by boost's Dijkstra with distance_combine = max over the edges "
         "priced at the moment, product of edge prices with inversion, price x quantity) that, for every history of any length and "
         "every valuation moment: the price chosen for a pair is the latest recorded not after the moment (last recorded on equal "
         "moments); the route taken is a simple path of such price points whose oldest price is as recent as on ANY other path "
         "(Dijkstra correctness, for every admissible tie-break), found whenever one exists; the result is exactly q*p, q/p for a "
         "reversed quote, q*prod(p_i^+-1) along the route; amounts without an applicable price stay unconverted; insertion order is "
         "irrelevant when dates are distinct; on single edges, reversed edges and simple chains (the property's graphs) the route is "
         "the chain and prices dated after the moment never influence -X (42 theorems). The comparison operators, the code text of "
         "the mirrored ledger statements and of the boost 1.83 routines whose tie behaviour the model copies are re-extracted on "
         "every run (C10.flags, C10.source_pinned); the model is run against the rebuilt binary on generated journals (P lines with and "
         "without times, costs, equal-date and out-of-order entries; single/reversed edges, chains, triangles, diamonds, webs over 2-5 "
         "commodities) at valuation dates before/on/after every price date via bal -X/-V, reg -X (also --sort -date) and pricedb; an "
         "independent Fraction oracle with its own Dijkstra and the paired-run relation (drop the future prices, output must not "
         "change) supply the failing input when a proof or the tie breaks.",
    note="Valuation moments are midnights (--now takes a date). Precision counters of the result are not compared (C04). Which of "
         "several equally old routes is taken follows boost's 4-ary heap, which the executable model copies (proofs do not rest on it). "
         "Full-strength 'future prices never matter' is proved FALSE and reproduced on the binary in three places: -V, a price dated after "
         "D marks its unit COMMODITY_PRIMARY (known finding C10:-V:future-price-marks-primary); -V, it can reorder equal-date neighbours "
         "(known finding C10:-V:future-price-reorders-neighbours); -X on graphs with several equally old routes it can change the route "
         "(C10.exchange_future_irrelevant_general_false, fingerprint C10:-X:future-price-reorders-routes - outside the property's "
         "quantifier, recorded in the evidence as an observation).",
    technique="Lean 4 proof by refinement (sorted-map machinery = fold over the history; functional Dijkstra with invariants) and "
              "induction + regenerated operator flags / pinned code text + differential model/binary check + independent oracle with "
              "paired runs",
    ref="DESIGN.md §5 C10")

COMMS = ["AAA", "BBB", "CCC", "DDD", "EEE"]
OUTSIDE_QUANTIFIER = {"C10:-X:future-price-reorders-routes"}
FOREST_TAGS = ("single", "reversed", "mixed", "chain", "exh", "boundary")
BASE = date(2020, 3, 1)
TIMES = [None, None, None, (0, 0, 0), (12, 0, 0), (23, 59, 59), (0, 0, 1)]
FMT_BAL = "%(account)|%(verif_rational(display_total))\n"
FMT_REG = "%(date)|%(account)|%(verif_rational(amount))|%(verif_rational(display_amount))|%(verif_rational(display_total))\n"
FMT_DB = '%(format_datetime(datetime, "%Y-%m-%d %H:%M:%S"))|%(display_account)|%(verif_rational(display_amount))\n'


# ---------------------------------------------------------------------------
# journal AST


def dec_str(q, dec):
    n = q * 10 ** dec
    assert n.denominator == 1, (q, dec)
    a = abs(n.numerator)
    s = str(a).rjust(dec + 1, "0")
    s = s if dec == 0 else s[:-dec] + "." + s[-dec:]
    return ("-" if n < 0 else "") + s


def fr(q):
    q = Fraction(q)
    return "%d/%d" % (q.numerator, q.denominator)


def dt_text(dt, has_time):
    return dt.strftime("%Y/%m/%d %H:%M:%S") if has_time else dt.strftime("%Y/%m/%d")


def P(dt, src, tgt, price, pdec, has_time=False):
    return {"k": "P", "dt": dt, "has_time": has_time, "src": src, "tgt": tgt, "price": Fraction(price), "pdec": pdec}


def T(d, posts, bal="E:bal"):
    """posts: dicts acct, q, dec, comm, cost (None | dict per_unit, k, kdec, comm)."""
    return {"k": "T", "date": d, "posts": posts, "bal": bal}


def post(acct, q, dec, comm, cost=None):
    return {"acct": acct, "q": Fraction(q), "dec": dec, "comm": comm, "cost": cost}


def item_text(it, n):
    if it["k"] == "P":
        return "P %s %s %s %s\n" % (dt_text(it["dt"], it["has_time"]), it["src"], dec_str(it["price"], it["pdec"]), it["tgt"])
    if it["k"] == "RAW":
        return it["text"]
    lines = ["%s * t%d" % (it["date"].strftime("%Y/%m/%d"), n)]
    for p in it["posts"]:
        s = "    %-12s  %s %s" % (p["acct"], dec_str(p["q"], p["dec"]), p["comm"])
        c = p["cost"]
        if c:
            s += " %s %s %s" % ("@" if c["per_unit"] else "@@", dec_str(c["k"], c["kdec"]), c["comm"])
        lines.append(s)
    lines.append("    %s" % it["bal"])
    return "\n".join(lines) + "\n"


def journal_text(items):
    return "\n".join(item_text(it, n) for n, it in enumerate(items))


def midnight(d):
    return datetime(d.year, d.month, d.day)


def entries_of(items):
    """Recorded prices in file order: (src, tgt, datetime, price) — written from the
    property's text, not from the Lean model."""
    out = []
    for it in items:
        if it["k"] == "P":
            out.append((it["src"], it["tgt"], it["dt"], it["price"]))
        elif it["k"] == "T":
            for p in it["posts"]:
                c = p["cost"]
                if not c:
                    continue
                total = c["k"] * abs(p["q"]) if c["per_unit"] else c["k"]
                per = abs(total / p["q"]) if p["q"] != 0 else abs(total)
                if per != 0 and p["comm"] != c["comm"]:
                    out.append((p["comm"], c["comm"], midnight(it["date"]), per))
    return out


def model_hist(items):
    out = []
    for it in items:
        if it["k"] == "P":
            out.append("P,%s,%s,%s,%s" % (dt_text(it["dt"], it["has_time"]), it["src"], it["tgt"], fr(it["price"])))
        elif it["k"] == "T":
            for p in it["posts"]:
                c = p["cost"]
                if c:
                    out.append("C,%s,%s,%s,%d,%s,%s" % (it["date"].strftime("%Y/%m/%d"), fr(p["q"]), p["comm"],
                                                        1 if c["per_unit"] else 0, fr(c["k"]), c["comm"]))
    return ";".join(out)


def holdings_of(items, prefix="A:"):
    """account -> list of (q, comm, lot commodity or '')."""
    h = {}
    for it in items:
        if it["k"] != "T":
            continue
        for p in it["posts"]:
            if p["acct"].startswith(prefix):
                h.setdefault(p["acct"], []).append((p["q"], p["comm"], p["cost"]["comm"] if p["cost"] else ""))
    return h


def comms_of(items):
    s = set()
    for it in items:
        if it["k"] == "P":
            s.update([it["src"], it["tgt"]])
        elif it["k"] == "T":
            for p in it["posts"]:
                s.add(p["comm"])
                if p["cost"]:
                    s.add(p["cost"]["comm"])
    return s


def posted_comms(items):
    s = set()
    for it in items:
        if it["k"] == "T":
            for p in it["posts"]:
                s.add(p["comm"])
                if p["cost"]:
                    s.add(p["cost"]["comm"])
    return s


def strip_future(items, D):
    """The journal without the prices dated after D that can be removed without touching
    the reported accounts: P lines, and cost transactions in F: accounts."""
    out = []
    for it in items:
        if it["k"] == "P" and it["dt"] > D:
            continue
        if it["k"] == "T" and midnight(it["date"]) > D and all(p["acct"].startswith("F:") for p in it["posts"]) \
                and any(p["cost"] for p in it["posts"]):
            continue
        out.append(it)
    return out


# ---------------------------------------------------------------------------
# the independent oracle (Fractions, datetime)


class Ambiguous(Exception):
    pass


def o_recent(entries, a, b, D):
    best = None
    for e in entries:
        if {e[0], e[1]} == {a, b} and e[2] <= D:
            if best is None or e[2] >= best[2]:
                best = e
    return best


def o_paths(entries, D, src, tgt):
    """All simple paths from src to tgt over the pairs that have a price dated <= D."""
    comms = set()
    for e in entries:
        comms.update([e[0], e[1]])
    res = []

    def go(cur, path):
        if cur == tgt:
            res.append(path)
            return
        for c in sorted(comms):
            if c not in path and o_recent(entries, cur, c, D) is not None:
                go(c, path + [c])
    go(src, [src])
    return res


def o_age(entries, D, a, b):
    return int((D - o_recent(entries, a, b, D)[2]).total_seconds())


def o_dijkstra(entries, D, src):
    """My own Dijkstra over ages with ledger's route length: the age of the OLDEST price on the
    route (history.cc 464-467, distance_combine = max).  Returns {commodity: least such age}."""
    import heapq
    comms = set()
    for e in entries:
        comms.update([e[0], e[1]])
    dist = {src: 0}
    done = set()
    pq = [(0, src)]
    while pq:
        d, u = heapq.heappop(pq)
        if u in done:
            continue
        done.add(u)
        for v in comms:
            if v != u and v not in done and o_recent(entries, u, v, D) is not None:
                nd = max(d, o_age(entries, D, u, v))
                if v not in dist or nd < dist[v]:
                    dist[v] = nd
                    heapq.heappush(pq, (nd, v))
    return dist


def o_rate(entries, D, path):
    r = Fraction(1)
    inverted = False
    for a, b in zip(path, path[1:]):
        e = o_recent(entries, a, b, D)
        if e[1] == b:
            r *= e[3]
        else:
            inverted = True
            r *= (1 / e[3]) if e[3] != 0 else 0
    return r, inverted


def o_value_x(entries, D, tgt, q, c):
    """(set of acceptable (quantity, commodity), shape) of q c converted into tgt as of D.
    With several routes ledger takes one whose oldest price is as recent as possible; which of
    several equally good routes it takes is not fixed by the property, so all of them are acceptable."""
    if c == tgt:
        return {(q, c)}, "same"
    paths = o_paths(entries, D, c, tgt)
    if not paths:
        return {(q, c)}, "none"
    best = o_dijkstra(entries, D, c)[tgt]
    good = [p for p in paths if max(o_age(entries, D, a, b) for a, b in zip(p, p[1:])) == best]
    assert good and all(max(o_age(entries, D, a, b) for a, b in zip(p, p[1:])) >= best for p in paths)
    vals = set()
    shape = None
    for path in good:
        r, inverted = o_rate(entries, D, path)
        vals.add((q * r, tgt))
        shape = "chain" if len(path) > 2 else ("reversed" if inverted else "direct")
    if len(paths) > 1:
        shape = "routes-tied" if len(vals) > 1 else "routes"
    return vals, shape


def o_value_v(entries, D, q, c, lot, date_aware):
    """Set of acceptable (quantity, commodity) for -V; date_aware: a commodity counts as a
    price unit only through prices dated <= D (the property's reading)."""
    prim = {e[1] for e in entries if (e[2] <= D or not date_aware)}
    if c in prim:
        return {(q, c)}
    if lot:
        return o_value_x(entries, D, lot, q, c)[0]
    cands = []
    for n in {e[0] for e in entries} | {e[1] for e in entries}:
        if n != c:
            e = o_recent(entries, c, n, D)
            if e is not None:
                cands.append((e, n))
    if not cands:
        return {(q, c)}
    top = max(e[2] for e, n in cands)
    out = set()
    for e, n in cands:
        if e[2] == top:
            f = e[3] if e[1] == n else ((1 / e[3]) if e[3] != 0 else 0)
            out.add((q * f, n))
    return out


def add_to(bal, q, c):
    bal[c] = bal.get(c, Fraction(0)) + q


def clean(bal):
    return {c: q for c, q in bal.items() if q != 0}


def combos(alts):
    n = 1
    for a in alts:
        n *= len(a)
    if n > 64:
        raise Ambiguous
    res = []
    for combo in itertools.product(*alts):
        bal = {}
        for q, c in combo:
            add_to(bal, q, c)
        bal = clean(bal)
        if bal not in res:
            res.append(bal)
    return res


def o_balance_x(entries, D, tgt, holds):
    """(all acceptable balances, shapes of the conversions)."""
    alts, shapes = [], set()
    for q, c, lot in holds:
        vals, shape = o_value_x(entries, D, tgt, q, c)
        alts.append(sorted(vals))
        shapes.add(shape)
    return combos(alts), shapes


def o_balance_v(entries, D, holds, date_aware):
    """All acceptable balances (ties between equal-date neighbours multiply out)."""
    return combos([sorted(o_value_v(entries, D, q, c, lot, date_aware)) for q, c, lot in holds])


def o_listing(entries, D, posted):
    out = []
    for c in sorted(posted):
        neigh = {e[0] for e in entries} | {e[1] for e in entries}
        for n in sorted(neigh):
            if n == c or o_recent(entries, c, n, D) is None:
                continue
            last = {}
            for e in entries:
                if {e[0], e[1]} == {c, n}:
                    last[e[2]] = e
            seen = set()
            for t in sorted(last):
                e = last[t]
                if t <= D and e[0] == c:
                    if (t.date(), e[1], e[3]) in seen:      # the listing shows a price once per day (iterators.cc 102-118)
                        continue
                    seen.add((t.date(), e[1], e[3]))
                    out.append((t.strftime("%Y-%m-%d %H:%M:%S"), c, e[1], e[3]))
    return sorted(out)


# ---------------------------------------------------------------------------
# reading ledger's answers


def parse_vr(ans):
    """verif_rational text -> {base commodity: Fraction} (zero entries dropped), or None."""
    tag, _, rest = ans.partition(":")
    if tag == "I":
        n = int(rest)
        return {"": Fraction(n)} if n else {}
    if tag == "A":
        parts = [rest]
    elif tag == "B":
        parts = rest.split(";") if rest else []
    elif tag == "N":
        return {}
    else:
        return None
    d = {}
    for p in parts:
        q, prec, keep, comm = p.split(":", 3)
        n, dd = q.split("/")
        f = Fraction(int(n), int(dd))
        base = comm.split(" ")[0]
        if f != 0:
            d[base] = d.get(base, Fraction(0)) + f
    return {c: q for c, q in d.items() if q != 0}


def parse_bal(out):
    rows = {}
    for line in out.split("\n"):
        if not line:
            continue
        acct, _, v = line.partition("|")
        rows[acct] = parse_vr(v)
    return rows


def parse_model_bal(ans):
    assert ans.startswith("ok\t"), ans
    d = {}
    body = ans[3:]
    for kv in body.split(";") if body else []:
        c, _, q = kv.partition("=")
        n, dd = q.split("/")
        d[c] = Fraction(int(n), int(dd))
    return d


def show(bal):
    if bal is None:
        return None
    return {c: fr(q) for c, q in sorted(bal.items())}


# ---------------------------------------------------------------------------
# one journal, all its observations


def mode_text(mode):
    return "-V" if mode == "V" else "-X " + mode[2:]


def classify_value(entries, D, mode, hs, got):
    """Oracle for one account.  Returns (fingerprint or None, acceptable balances, shapes).
    The two -V fingerprints are assigned only when the localised cause is exactly that one."""
    if mode == "V":
        want_all = o_balance_v(entries, D, hs, True)
        blind = o_balance_v(entries, D, hs, False)
        shapes = {"market"}
    else:
        want_all, shapes = o_balance_x(entries, D, mode[2:], hs)
        blind = None
    if got in want_all:
        return None, want_all, shapes
    if mode == "V" and got in blind:
        return "C10:-V:future-price-marks-primary", want_all, shapes
    if mode == "V":
        return "C10:-V:value", want_all, shapes
    main = next((x for x in ("routes-tied", "routes", "chain", "reversed", "direct") if x in shapes), "unconverted")
    return "C10:-X:value:" + main, want_all, shapes


def coarse(fp):
    """-X value fingerprints differ only in the shape of the conversion; shrinking may simplify the shape."""
    return "C10:-X:value" if fp and fp.startswith("C10:-X:value:") else fp


def classify_pair(entries, st_entries, D, mode, holds, r1, r2, only=None):
    """Cause of a difference between the run with and the run without the prices dated after D
    (for the one account `only`, or for the report as a whole)."""
    if only is not None:
        r1 = {only: r1.get(only)}
        r2 = None if r2 is None else {only: r2.get(only)}
    if r1 == r2:
        return None
    if mode != "V" and r2 is not None:
        # several routes whose oldest prices are equally old: both runs acceptable, they differ in the route taken
        try:
            tied = all(r1.get(a) in o_balance_x(entries, D, mode[2:], holds[a])[0] and
                       r2.get(a) in o_balance_x(st_entries, D, mode[2:], holds[a])[0] and
                       len(o_balance_x(entries, D, mode[2:], holds[a])[0]) > 1
                       for a in sorted(set(r1) | set(r2)) if r1.get(a) != r2.get(a) and a in holds)
        except Ambiguous:
            tied = False
        return "C10:-X:future-price-reorders-routes" if tied else "C10:-X:future-price-influences"
    if mode != "V" or r2 is None:
        return "C10:%s:future-price-influences" % ("-V" if mode == "V" else "-X")
    causes = set()
    for a in sorted(set(r1) | set(r2)):
        if r1.get(a) == r2.get(a) or a not in holds:
            continue
        try:
            aware = o_balance_v(entries, D, holds[a], True)
            blind = o_balance_v(entries, D, holds[a], False)
            aware2 = o_balance_v(st_entries, D, holds[a], True)
            blind2 = o_balance_v(st_entries, D, holds[a], False)
        except Ambiguous:
            causes.add("other")
            continue
        if r1.get(a) in aware and r2.get(a) in aware2 and len(aware) > 1:
            causes.add("tie")          # both acceptable: they differ in which equal-dated neighbour won
        elif r1.get(a) in blind and r2.get(a) in blind2:
            causes.add("primary")      # each run follows the date-blind PRIMARY rule; the sets of PRIMARY commodities differ
        else:
            causes.add("other")
    if causes == {"primary"}:
        return "C10:-V:future-price-marks-primary"
    if causes == {"tie"}:
        return "C10:-V:future-price-reorders-neighbours"
    return "C10:-V:future-price-influences"


class Case:
    def __init__(self, items, dates, targets, tag, reg=True, listing=True):
        self.items, self.dates, self.targets, self.tag = items, dates, targets, tag
        self.reg, self.listing = reg, listing


def bal_args(path, D, mode):
    a = ["-f", path, "bal", "^A", "--flat", "--empty", "--no-total", "--now", D.strftime("%Y/%m/%d")]
    a += ["-V"] if mode == "V" else ["-X", mode[2:]]
    return a + ["--format", FMT_BAL]


def lrun(args):
    """One ledger process; a timeout (overloaded machine) is retried with a longer limit and
    finally reported as rc None, which the evaluation treats as 'not observed', never as a failure."""
    r = (None, "", "")
    for t in (60, 180, 600):
        try:
            r = vflib.ledger_run(args, timeout=t)
        except OSError:             # the binary is being relinked by a concurrent check (ETXTBSY / EACCES / ENOENT)
            time.sleep(5)
            continue
        if r[0] is not None:
            break
    return r


def run_ledger_case(case):
    """All ledger runs of a case (in a private directory). Returns a dict of raw outputs."""
    d = tempfile.mkdtemp(prefix="c10-")
    res = {"bal": {}, "strip": {}, "reg": {}, "db": {}}
    try:
        full = os.path.join(d, "j.dat")
        with open(full, "w") as f:
            f.write(journal_text(case.items))
        for k, D in enumerate(case.dates):
            st_items = strip_future(case.items, D)
            stp = None
            if len(st_items) != len(case.items):
                stp = os.path.join(d, "s%d.dat" % k)
                with open(stp, "w") as f:
                    f.write(journal_text(st_items))
            for mode in ["X:" + t for t in case.targets] + ["V"]:
                res["bal"][(k, mode)] = lrun(bal_args(full, D, mode))
                if stp:
                    res["strip"][(k, mode)] = lrun(bal_args(stp, D, mode))
            if case.listing and k % 2 == 0:
                res["db"][k] = lrun(["-f", full, "pricedb", "--empty", "--now", D.strftime("%Y/%m/%d"), "--pricedb-format", FMT_DB])
        if case.reg:
            for t in case.targets[:1]:
                res["reg"][t] = lrun(["-f", full, "reg", "^A", "--empty", "--no-rounding", "-X", t,
                                                  "--now", case.dates[-1].strftime("%Y/%m/%d"), "--format", FMT_REG])
                res["reg"][t + " --sort -date"] = lrun(["-f", full, "reg", "^A", "--empty", "--no-rounding", "-X", t, "--sort", "-date",
                                                       "--now", case.dates[-1].strftime("%Y/%m/%d"), "--format", FMT_REG])
    finally:
        shutil.rmtree(d, ignore_errors=True)
    return res


def model_lines(case):
    V = ",".join(sorted(comms_of(case.items) | set(case.targets)))
    hist = model_hist(case.items)
    holds = holdings_of(case.items)
    lines, keys = [], []
    for k, D in enumerate(case.dates):
        for mode in ["X:" + t for t in case.targets] + ["V"]:
            for acct in sorted(holds):
                hs = ";".join("%s,%s,%s" % (fr(q), c, lot) for q, c, lot in holds[acct])
                lines.append("px.value\t%s\t%s\t%s\t%s\t%s" % (V, hist, mode, D.strftime("%Y/%m/%d"), hs))
                keys.append(("bal", k, mode, acct))
        if case.listing and k % 2 == 0:
            lines.append("px.list\t%s\t%s\t%s" % (hist, D.strftime("%Y/%m/%d"), ",".join(sorted(posted_comms(case.items)))))
            keys.append(("db", k))
        if case.tag in FOREST_TAGS:
            # on forests the general route choice must coincide with the forced-walk search (C10.route_coincides_on_chain)
            for acct in sorted(holds):
                hs = ";".join("%s,%s,%s" % (fr(q), c, lot) for q, c, lot in holds[acct])
                lines.append("px.value\t%s\t%s\tX0:%s\t%s\t%s" % (V, hist, case.targets[0], D.strftime("%Y/%m/%d"), hs))
                keys.append(("x0", k, acct))
    return lines, keys


def near_change(entries, D):
    return any(abs((e[2] - D).total_seconds()) <= 86400 for e in entries)


def evaluate(ctx, case, led, model):
    """Compare model and ledger, apply the oracle. Returns list of problems
    (kind, fingerprint, what, replay)."""
    probs = []
    entries = entries_of(case.items)
    holds = holdings_of(case.items)
    jt = journal_text(case.items)
    mans = dict(zip(model[1], model[0]))
    for k, D in enumerate(case.dates):
        st_items = strip_future(case.items, D)
        st_entries = entries_of(st_items)
        for mode in ["X:" + t for t in case.targets] + ["V"]:
            ctx.count()
            rc, out, err = led["bal"][(k, mode)]
            args = bal_args("J", D, mode)
            if rc is None:
                ctx.feature("infra:timeout-not-observed")
                continue
            if rc != 0 or err.strip():
                ctx.tie_broken("corr:px.value", "ledger failed on a valid journal: rc=%s %s\n%s" % (rc, err[:300], jt))
                continue
            rows = parse_bal(out)
            ok_case = True
            for acct in sorted(holds):
                got = rows.get(acct)
                m = mans[("bal", k, mode, acct)]
                mb = parse_model_bal(m) if m.startswith("ok\t") else None
                if got != mb:
                    ok_case = False
                    ctx.tie_broken("corr:px.value", "model and ledger disagree: %s %s account %s: model=%s ledger=%s\n%s" %
                                   (mode, D.date(), acct, show(mb), show(got), jt))
                    ctx.mism.append({"journal": jt, "args": args, "account": acct, "model": show(mb), "ledger": show(got)})
                # ---- oracle
                try:
                    fp, want_all, shapes = classify_value(entries, D, mode, holds[acct], got)
                except Ambiguous:
                    ctx.feature("oracle:ambiguous-skipped")
                    continue
                for sh in shapes:
                    ctx.feature("conv:" + sh)
                if fp is not None:
                    ok_case = False
                    if fp == "C10:-V:future-price-marks-primary":
                        what = ("-V as of %s leaves account %s at %s although a price dated <= that date converts it to %s: a price dated "
                                "AFTER the valuation date marked the commodity COMMODITY_PRIMARY (commodity.cc 48-55, amount.cc 769-770)"
                                % (D.date(), acct, show(got), show(want_all[0])))
                    else:
                        what = "%s as of %s: account %s is %s, the latest prices not after that date give %s" % (
                            mode_text(mode), D.date(), acct, show(got), show(want_all[0]))
                    probs.append(("oracle", fp, what, {"kind": "value", "journal": jt, "args": args, "account": acct,
                                                         "expected_any_of": [show(w) for w in want_all], "ledger": show(got)},
                                  (case, D, mode, acct)))
            # ---- paired run: the prices dated after D removed
            if (k, mode) in led["strip"]:
                rc2, out2, err2 = led["strip"][(k, mode)]
                ctx.feature("paired-runs")
                r1, r2 = rows, (parse_bal(out2) if rc2 == 0 else None)
                if rc2 is None:
                    ctx.feature("infra:timeout-not-observed")
                    r2 = r1
                if classify_pair(entries, st_entries, D, mode, holds, r1, r2) is not None:
                    ok_case = False
                    diff = [a for a in sorted(set(r1) | set(r2 or {})) if r1.get(a) != (r2 or {}).get(a)]
                    seen_fp = set()
                    for a in diff:                              # one cause per account: two known causes may meet in one journal
                        fp = classify_pair(entries, st_entries, D, mode, holds, r1, r2, only=a)
                        if fp is None or fp in seen_fp:
                            continue
                        seen_fp.add(fp)
                        what = ("%s --now %s: removing the prices dated after the valuation date changes account %s: %s with them, %s without"
                                % (mode_text(mode), D.date(), a, show(r1.get(a)), show((r2 or {}).get(a))))
                        probs.append(("oracle", fp, what, {"kind": "paired", "journal": jt, "journal_without_future": journal_text(st_items),
                                                             "args": args, "account": a}, (case, D, mode, ("pair", a))))
            if ok_case:
                ctx.traces_validated += 1
            nt = near_change(entries, D) or (mode != "V" and bool({"reversed", "chain", "routes", "routes-tied"} & set().union(
                *[o_shapes(entries, D, mode[2:], holds[a]) for a in holds])))
            if nt:
                ctx.nontrivial((hashlib.sha1(jt.encode()).hexdigest(), str(D), mode))
        for acct in sorted(holds):
            if ("x0", k, acct) in mans:
                ctx.count()
                if mans[("x0", k, acct)] != mans[("bal", k, "X:" + case.targets[0], acct)]:
                    ctx.tie_broken("model:forest-coincidence", "valueXG and valueX differ on a forest: %s vs %s (-X %s as of %s, account %s)\n%s" %
                                   (mans[("bal", k, "X:" + case.targets[0], acct)], mans[("x0", k, acct)], case.targets[0], D.date(), acct, jt))
        if ("db", k) in mans:
            ctx.count()
            rc, out, err = led["db"][k]
            if rc is None:
                ctx.feature("infra:timeout-not-observed")
                continue
            got = sorted(parse_db(out)) if rc == 0 else None
            m = mans[("db", k)]
            mm = sorted(parse_model_list(m)) if m.startswith("ok\t") else None
            want = o_listing(entries, D, posted_comms(case.items))
            if got != mm:
                ctx.tie_broken("corr:px.list", "pricedb --now %s: model=%s ledger=%s\n%s" % (D.date(), mm, got, jt))
                ctx.mism.append({"journal": jt, "args": ["pricedb", "--now", str(D.date())], "model": str(mm), "ledger": str(got)})
            if got != want:
                probs.append(("oracle", "C10:pricedb:listing", "pricedb --now %s lists %s, the recorded prices not after that date are %s" %
                              (D.date(), got, want), {"kind": "listing", "journal": jt, "now": D.strftime("%Y/%m/%d"),
                                                      "expected": [list(map(str, w)) for w in want]}, None))
            else:
                ctx.traces_validated += 1
            ctx.feature("listing")
    for t, (rc, out, err) in led["reg"].items():
        if rc is None:
            ctx.feature("infra:timeout-not-observed")
            continue
        ctx.count()
        ctx.feature("register")
        bad = check_register(entries, t.split(" ")[0], rc, out, err)
        if bad:
            probs.append(("oracle", "C10:reg:" + bad[0], "reg -X %s: %s" % (t, bad[1]),
                          {"kind": "reg", "journal": jt, "target": t.split(" ")[0], "extra": t.split(" ")[1:],
                           "now": case.dates[-1].strftime("%Y/%m/%d"),
                           "prices": [[e[0], e[1], e[2].isoformat(), fr(e[3])] for e in entries]}, None))
        else:
            ctx.traces_validated += 1
    return probs


def o_shapes(entries, D, tgt, holds):
    try:
        return o_balance_x(entries, D, tgt, holds)[1]
    except Ambiguous:
        return set()


def parse_db(out):
    rows = []
    for line in out.split("\n"):
        if not line:
            continue
        when, c, v = line.split("|")
        d = parse_vr(v)
        if d:
            (tgt, p), = d.items()
        else:                       # a zero price: commodity from the text
            tgt, p = v.split(":", 4)[4].split(" ")[0], Fraction(0)
        rows.append((when, c, tgt, p))
    return rows


def parse_model_list(ans):
    rows = []
    body = ans[3:]
    for e in body.split(";") if body else []:
        secs, s, t, p = e.split(",")
        n, dd = p.split("/")
        when = (datetime(1970, 1, 1) + timedelta(seconds=int(secs))).strftime("%Y-%m-%d %H:%M:%S")
        rows.append((when, s, t, Fraction(int(n), int(dd))))
    return rows


def check_register(entries, tgt, rc, out, err):
    """Every row of `reg -X T`: the running total is the value of the raw holdings so far
    as of the row's date (00:00:00); a posting row's amount is valued as of the posting date."""
    if rc != 0 or err.strip():
        return ("error", "ledger failed: %s" % err[:200])
    held = {}
    for line in out.split("\n"):
        if not line:
            continue
        ds, acct, amt, damt, dtot = line.split("|")
        D = datetime.strptime(ds, "%Y/%m/%d")
        try:
            if not acct.startswith("<"):
                raw = parse_vr(amt)
                hs = [(q, c, "") for c, q in raw.items()]
                for q, c, _ in hs:
                    add_to(held, q, c)
                want, _ = o_balance_x(entries, D, tgt, hs)
                if parse_vr(damt) not in want:
                    return ("amount", "row %s %s: amount %s is shown as %s, as of the posting date it is worth %s" %
                            (ds, acct, show(raw), show(parse_vr(damt)), [show(w) for w in want]))
            want, _ = o_balance_x(entries, D, tgt, [(q, c, "") for c, q in sorted(held.items())])
        except Ambiguous:
            return None
        if parse_vr(dtot) not in want:
            return ("total", "row %s %s: running total %s, the holdings so far are worth %s as of that date" %
                    (ds, acct, show(parse_vr(dtot)), [show(w) for w in want]))
    return None


# ---------------------------------------------------------------------------
# generators


def rnd_price(rng):
    pdec = rng.choice([0, 0, 1, 2, 2, 4])
    n = rng.randint(1, 10 ** rng.choice([1, 2, 3, 5]))
    return Fraction(n, 10 ** pdec), pdec


def rnd_qty(rng, nonzero=True):
    dec = rng.choice([0, 0, 1, 2, 3])
    n = rng.randint(1, 10 ** rng.choice([1, 2, 4]))
    q = Fraction(n, 10 ** dec) * rng.choice([1, 1, 1, -1])
    if not nonzero and rng.random() < 0.05:
        q = Fraction(0)
    return q, dec


def gen_case(rng, tier):
    n = rng.choice([2, 2, 3, 3, 4, 4, 5])
    comms = rng.sample(COMMS, n)
    shape = rng.choice(["single", "reversed", "mixed", "chain", "chain", "chain"]) if n > 2 else rng.choice(["single", "reversed", "mixed"])
    if n >= 3 and rng.random() < 0.35:
        # graphs with several routes between two commodities (outside the property's quantifier; the model covers them)
        shape = rng.choice(["triangle", "diamond", "web"] if n >= 4 else ["triangle"])
    # links of the forest: consecutive commodities of the chain (a 2-commodity chain is an edge)
    if shape == "triangle":
        links = [(comms[0], comms[1]), (comms[1], comms[2]), (comms[0], comms[2])] + list(zip(comms[2:], comms[3:]))
    elif shape == "diamond":
        links = [(comms[0], comms[1]), (comms[0], comms[2]), (comms[1], comms[3]), (comms[2], comms[3])] + list(zip(comms[3:], comms[4:]))
    elif shape == "web":
        allp = [(comms[i], comms[j]) for i in range(n) for j in range(i + 1, n)]
        links = list(zip(comms, comms[1:])) + rng.sample([l for l in allp if l not in list(zip(comms, comms[1:]))], rng.randint(1, 3))
        rng.shuffle(links)
    elif shape == "chain":
        links = list(zip(comms, comms[1:]))
        if n > 3 and rng.random() < 0.3:
            links.pop(rng.randrange(len(links)))            # a broken chain: one end unreachable
    else:
        links = [(comms[0], comms[1])]
    orient = {}
    for l in links:
        orient[l] = {"single": "fwd", "reversed": "rev"}.get(shape, rng.choice(["fwd", "rev", "both"]))
    multi = shape in ("triangle", "diamond", "web")
    ndays = rng.choice([1, 2, 2, 3, 4]) if multi else rng.choice([2, 3, 4, 6, 8])
    days = sorted(rng.sample(range(0, 12), min(ndays, 12)))
    nent = rng.choice([1, 2, 3, 5, 8, 12, 20, 30])
    if multi:
        nent = max(nent, rng.choice([len(links), len(links) + 2, 12]))
    items = []
    # holdings first or last (file position must not matter)
    hold_items = []
    na = rng.randint(1, 4)
    for a in range(na):
        ps = []
        for _ in range(rng.randint(1, 3)):
            q, dec = rnd_qty(rng)
            ps.append(post("A:h%d" % a, q, dec, rng.choice(comms)))
        hold_items.append(T(BASE + timedelta(days=rng.randint(-3, 14)), ps))
    price_items = []
    cn = 0
    for i in range(nent):
        l = links[i] if (multi and i < len(links)) else rng.choice(links)
        o = orient[l]
        a, b = l if (o == "fwd" or (o == "both" and rng.random() < 0.5)) else (l[1], l[0])
        d = BASE + timedelta(days=rng.choice(days))
        r = rng.random()
        if r < 0.6:
            tm = rng.choice(TIMES[:4] if multi else TIMES)      # mostly midnights on multi-route graphs: equal ages are what matters there
            dt = midnight(d) + (timedelta(hours=tm[0], minutes=tm[1], seconds=tm[2]) if tm else timedelta(0))
            p, pdec = rnd_price(rng)
            if rng.random() < 0.02:
                p, pdec = Fraction(0), 0
            elif rng.random() < 0.02:
                p = -p                                   # ledger accepts a negative P price
            price_items.append(P(dt, a, b, p, pdec, tm is not None))
        else:
            q, dec = rnd_qty(rng, nonzero=False)
            k, kdec = rnd_price(rng)
            future_ok = rng.random() < 0.4
            acct = ("F:c%d" if future_ok else "A:c%d") % cn
            cn += 1
            price_items.append(T(d, [post(acct, q, dec, a, {"per_unit": rng.random() < 0.6, "k": k, "kdec": kdec, "comm": b})]))
    if rng.random() < 0.5:
        price_items.sort(key=lambda it: it["dt"] if it["k"] == "P" else midnight(it["date"]))
        if rng.random() < 0.3:
            price_items.reverse()
    where = rng.random()
    if where < 0.4:
        items = hold_items + price_items
    elif where < 0.7:
        items = price_items + hold_items
    else:
        items = hold_items + price_items
        rng.shuffle(items)
    # valuation dates: before / on / after every price day, bounded per tier
    cand = set()
    for dd in days:
        for off in (-1, 0, 1):
            cand.add(BASE + timedelta(days=dd + off))
    cand.add(BASE + timedelta(days=-5))
    cand.add(BASE + timedelta(days=30))
    cand = sorted(cand)
    maxd = 6 if tier == "quick" else 12
    if len(cand) > maxd:
        cand = sorted(rng.sample(cand, maxd))
    targets = [comms[-1] if shape in ("chain", "web") else comms[2] if shape == "triangle" else comms[3] if shape == "diamond" else comms[1]]
    other = rng.choice(comms)
    if other not in targets:
        targets.append(other)
    return Case(items, [midnight(d) for d in cand], targets, shape)


def exhaustive_cases(tier):
    """All histories of 1..2 (thorough: 3) entries on one pair over 2 directions x 2 days x
    {midnight, noon}, valued on the 5 days around them in both commodities and with -V."""
    d1, d2 = BASE + timedelta(days=3), BASE + timedelta(days=5)
    opts = []
    for direction in ("fwd", "rev"):
        for d in (d1, d2):
            for noon in (False, True):
                opts.append((direction, d, noon))
    dates = [midnight(BASE + timedelta(days=x)) for x in (2, 3, 4, 5, 6)]
    hold = T(BASE, [post("A:a", 10, 0, "AAA"), post("A:b", Fraction(7, 2), 1, "BBB")])
    prices = [Fraction(2), Fraction(5, 2), Fraction(8)]
    cases = []
    for n in range(1, (3 if tier == "thorough" else 2) + 1):
        for combo in itertools.product(opts, repeat=n):
            items = [hold]
            for i, (direction, d, noon) in enumerate(combo):
                a, b = ("AAA", "BBB") if direction == "fwd" else ("BBB", "AAA")
                dt = midnight(d) + (timedelta(hours=12) if noon else timedelta(0))
                items.append(P(dt, a, b, prices[i], 1, noon))
            cases.append(Case(items, dates, ["BBB", "AAA"], "exh", reg=False, listing=(n == 1)))
    return cases


def exhaustive_routes(tier):
    """Every triangle AAA-BBB-CCC whose three quotes are dated on one of two days, in every file
    order (thorough: and every orientation of the quotes), valued on the five days around them."""
    d1, d2 = BASE + timedelta(days=3), BASE + timedelta(days=5)
    dates = [midnight(BASE + timedelta(days=x)) for x in (2, 3, 4, 5, 6)]
    hold = T(BASE, [post("A:a", 10, 0, "AAA"), post("A:b", Fraction(7, 2), 1, "BBB"), post("A:c", 3, 0, "CCC")])
    pairs = [("AAA", "BBB", Fraction(2)), ("BBB", "CCC", Fraction(5)), ("AAA", "CCC", Fraction(8))]
    orients = list(itertools.product((0, 1), repeat=3)) if tier == "thorough" else [(0, 0, 0), (0, 1, 0)]
    cases = []
    for ds in itertools.product((d1, d2), repeat=3):
        for perm in itertools.permutations(range(3)):
            for o in orients:
                items = [hold]
                for i in perm:
                    a, b, p = pairs[i]
                    if o[i]:
                        a, b, p = b, a, 1 / p
                    pdec = next(k for k in range(6) if (p * 10 ** k).denominator == 1)
                    items.append(P(midnight(ds[i]), a, b, p, pdec))
                cases.append(Case(items, dates, ["CCC", "BBB"], "exh-routes", reg=False, listing=False))
    return cases


def boundary_cases():
    """The edges of every comparison in the modelled code: a price exactly at the valuation
    moment, one second and one day before and after it; two and three records for the same
    moment (both directions, both file orders); a single record; no record at all; a cost
    recorded on the valuation day; each for a direct quote, a reversed quote and a chain."""
    D0 = midnight(BASE + timedelta(days=5))
    dates = [D0 - timedelta(days=1), D0, D0 + timedelta(days=1)]
    hold = T(BASE, [post("A:a", 10, 0, "AAA"), post("A:b", Fraction(-7, 2), 1, "BBB"), post("A:c", 3, 0, "CCC")])
    offs = [-86400, -1, 0, 1, 86400]
    cases = []

    def quote(shape, dt, price, timed=True):
        a, b = ("AAA", "BBB") if shape != "reversed" else ("BBB", "AAA")
        return P(dt, a, b, price, 2, timed)

    for shape in ("direct", "reversed", "chain"):
        targets = ["CCC", "BBB"] if shape == "chain" else ["BBB", "AAA"]
        fixed = [P(D0 - timedelta(days=9), "CCC", "BBB", Fraction(5, 4), 2)] if shape == "chain" else []
        for off in offs:
            dt = D0 + timedelta(seconds=off)
            # a single record
            cases.append(Case([hold] + fixed + [quote(shape, dt, Fraction(3))], dates, targets, "boundary", reg=False))
            # an older record and one at the boundary, in both file orders
            old = quote(shape, D0 - timedelta(days=3), Fraction(2), False)
            new = quote(shape, dt, Fraction(7, 2))
            cases.append(Case([hold] + fixed + [old, new], dates, targets, "boundary", reg=True))
            cases.append(Case([new, old] + fixed + [hold], dates, targets, "boundary", reg=False))
        # records for the same moment
        for dt in (D0, D0 - timedelta(seconds=1), D0 + timedelta(seconds=1)):
            e1 = quote(shape, dt, Fraction(2))
            e2 = quote(shape, dt, Fraction(9, 4))
            e3 = quote("reversed" if shape != "reversed" else "direct", dt, Fraction(4))
            for combo in ([e1, e2], [e2, e1], [e1, e3], [e3, e1], [e1, e2, e3], [e3, e2, e1], [e2, e3, e1]):
                cases.append(Case([hold] + fixed + list(combo), dates, targets, "boundary", reg=False))
        # a cost recorded on the day before / on / after the valuation day (costs are midnights)
        for dd in (-1, 0, 1):
            a, b = ("AAA", "BBB") if shape != "reversed" else ("BBB", "AAA")
            ct = T((D0 + timedelta(days=dd)).date(), [post("A:k", 4, 0, a, {"per_unit": dd != 0, "k": Fraction(6) if dd else Fraction(24), "kdec": 0, "comm": b})])
            cases.append(Case([hold] + fixed + [quote(shape, D0 - timedelta(days=4), Fraction(2), False), ct], dates, targets, "boundary", reg=True))
            cases.append(Case([ct, hold] + fixed + [P(D0 + timedelta(days=dd), a, b, Fraction(5), 0)], dates, targets, "boundary", reg=False))
    # -V: one commodity quoted in two units (the chain BBB - AAA - CCC seen from its middle)
    h2 = T(BASE, [post("A:a", 10, 0, "AAA")])
    for da, db in ((0, 0), (0, -1), (-1, 0), (1, 0), (0, 1)):
        qa = P(D0 + timedelta(days=da), "AAA", "BBB", Fraction(3), 0)
        qb = P(D0 + timedelta(days=db), "AAA", "CCC", Fraction(7), 0)
        cases.append(Case([h2, qa, qb], dates, ["BBB", "CCC"], "boundary", reg=False))
        cases.append(Case([qb, qa, h2], dates, ["BBB", "CCC"], "boundary", reg=False))
    # a price dated after every valuation date that only creates the AAA-CCC edge first / that uses AAA as a unit
    late = D0 + timedelta(days=20)
    cases.append(Case([h2, P(late, "AAA", "CCC", Fraction(9), 0), P(D0, "AAA", "BBB", Fraction(3), 0), P(D0, "AAA", "CCC", Fraction(7), 0)],
                      dates, ["BBB"], "boundary", reg=False))
    cases.append(Case([h2, P(D0, "AAA", "BBB", Fraction(2), 0), P(late, "CCC", "AAA", Fraction(4), 0)], dates, ["BBB"], "boundary", reg=False))
    # several routes (history.cc 464-467: the route whose OLDEST price is the most recent wins)
    hA = T(BASE, [post("A:a", 10, 0, "AAA"), post("A:d", 3, 0, "DDD")])
    md = [D0 - timedelta(days=1), D0, D0 + timedelta(days=1), D0 + timedelta(days=3)]
    for do, dn in ((-6, -1), (-1, -6), (-1, -1), (0, 0), (-6, 0), (0, -6), (1, -2), (-2, 1)):
        # triangle: a direct quote AAA->CCC dated D0+do against the two-hop route through BBB dated D0+dn
        direct = P(D0 + timedelta(days=do), "AAA", "CCC", Fraction(20), 0)
        hop1 = P(D0 + timedelta(days=dn), "AAA", "BBB", Fraction(3), 0)
        hop2 = P(D0 + timedelta(days=dn), "CCC", "BBB", Fraction(1, 2), 1)            # reversed quote on the second hop
        for order in ([direct, hop1, hop2], [hop2, hop1, direct], [hop1, direct, hop2]):
            cases.append(Case([hA] + order, md, ["CCC", "BBB"], "boundary-routes", reg=(do == -6)))
    for ages in ((0, 0, 0, 0), (-1, -1, -1, -1), (-1, -3, -1, -3), (-3, -1, -3, -1), (-1, -3, -3, -1), (0, -2, -1, -1), (-2, -2, 0, 0)):
        # diamond AAA-BBB-DDD / AAA-CCC-DDD; equal ages tie, otherwise the fresher bottleneck wins
        es = [P(D0 + timedelta(days=ages[0]), "AAA", "BBB", Fraction(2), 0), P(D0 + timedelta(days=ages[1]), "AAA", "CCC", Fraction(3), 0),
              P(D0 + timedelta(days=ages[2]), "BBB", "DDD", Fraction(5), 0), P(D0 + timedelta(days=ages[3]), "DDD", "CCC", Fraction(1, 8), 3)]
        for order in (es, es[::-1], [es[1], es[0], es[3], es[2]], [es[2], es[3], es[0], es[1]]):
            cases.append(Case([hA] + list(order), md, ["DDD", "AAA"], "boundary-routes", reg=False))
        # the same with a price dated after every valuation date that creates the AAA-CCC edge first
        cases.append(Case([hA, P(D0 + timedelta(days=25), "AAA", "CCC", Fraction(9), 0)] + es, md, ["DDD"], "boundary-routes", reg=False))
    # two valuation dates in one run: postings out of date order valued by reg -X (also --sort -date), several routes
    tri = [P(D0 - timedelta(days=4), "AAA", "BBB", Fraction(2), 0), P(D0 - timedelta(days=2), "AAA", "BBB", Fraction(3), 0),
           P(D0 - timedelta(days=2), "BBB", "CCC", Fraction(5), 0), P(D0, "AAA", "CCC", Fraction(20), 0)]
    hs = [T((D0 + timedelta(days=1)).date(), [post("A:x", 10, 0, "AAA")]), T((D0 - timedelta(days=3)).date(), [post("A:y", 1, 0, "AAA")]),
          T((D0 - timedelta(days=1)).date(), [post("A:z", 2, 0, "AAA")]), T((D0 - timedelta(days=3)).date(), [post("A:y", 4, 0, "BBB")])]
    cases.append(Case(tri + hs, md, ["CCC", "BBB"], "boundary-routes", reg=True))
    cases.append(Case(hs[::-1] + tri[::-1], md, ["CCC"], "boundary-routes", reg=True))
    chain3 = [P(D0 - timedelta(days=4), "AAA", "BBB", Fraction(2), 0), P(D0 - timedelta(days=2), "BBB", "CCC", Fraction(5), 0),
              P(D0 - timedelta(days=1), "AAA", "BBB", Fraction(4), 0), P(D0, "BBB", "CCC", Fraction(7), 0)]
    cases.append(Case(chain3 + hs, md, ["CCC"], "boundary", reg=True))
    cases.append(Case(hs + chain3[::-1], md, ["CCC"], "boundary", reg=True))
    # no record at all; records only for another pair; only future records
    cases.append(Case([hold], dates, ["BBB", "CCC"], "boundary", reg=True))
    cases.append(Case([hold, P(D0, "DDD", "EEE", Fraction(2), 0)], dates, ["BBB", "EEE"], "boundary", reg=False))
    cases.append(Case([hold, P(D0 + timedelta(days=1), "AAA", "BBB", Fraction(2), 0), P(D0 + timedelta(seconds=1), "CCC", "BBB", Fraction(2), 0, True)],
                      dates, ["BBB"], "boundary", reg=True))
    return cases


def malformed_cases():
    """(model op line, journal text): both sides must refuse."""
    hold = "2020/03/01 * h\n    A:a   10 AAA\n    E:bal\n"
    out = []
    out.append(("px.value\tAAA,BBB\tP,2020/03/02,AAA,AAA,2/1\tX:BBB\t2020/03/05\t10/1,AAA,", "P 2020/03/02 AAA 2 AAA\n\n" + hold, "self-priced"))
    out.append(("px.value\tAAA,BBB\tP,2020/13/02,AAA,BBB,2/1\tX:BBB\t2020/03/05\t10/1,AAA,", "P 2020/13/02 AAA 2 BBB\n\n" + hold, "bad-date"))
    out.append(("px.value\tAAA,BBB\tP,2020/02/30,AAA,BBB,2/1\tX:BBB\t2020/03/05\t10/1,AAA,", "P 2020/02/30 AAA 2 BBB\n\n" + hold, "bad-date"))
    out.append(("px.value\tAAA,BBB\tP,2020/03/02 25:00:00,AAA,BBB,2/1\tX:BBB\t2020/03/05\t10/1,AAA,", "P 2020/03/02 25:00:00 AAA 2 BBB\n\n" + hold, "bad-date"))
    out.append(("px.value\tAAA,BBB\tC,2020/03/02,10/1,AAA,1,2/1,AAA\tX:BBB\t2020/03/05\t10/1,AAA,",
                "2020/03/02 * c\n    A:a   10 AAA @ 2 AAA\n    E:bal\n", "self-priced"))
    out.append(("px.value\tAAA,BBB\tP,2020/03/02,AAA,BBB\tX:BBB\t2020/03/05\t10/1,AAA,", "P 2020/03/02 AAA BBB\n\n" + hold, "bad-op"))
    out.append(("px.value\tAAA,BBB\tP,2020/03/02,AAA\tX:BBB\t2020/03/05\t10/1,AAA,", "P 2020/03/02 AAA\n\n" + hold, "bad-op"))
    out.append(("px.value\tAAA,BBB\tP,2020/03/02\tX:BBB\t2020/03/05\t10/1,AAA,", "P 2020/03/02\n\n" + hold, "bad-op"))
    return out


# ---------------------------------------------------------------------------
# shrinking / reporting


def still_fails(items, D, mode, acct, fp):
    """Re-run one observation of a candidate journal; (replay dict, fingerprint, what) when the
    oracle still fails with the same (coarse) fingerprint, else None."""
    case = Case(items, [D], [mode[2:]] if mode != "V" else ["AAA"], "shrink", reg=False, listing=False)
    try:
        led = run_ledger_case(case)
    except Exception:
        return None
    entries = entries_of(items)
    holds = holdings_of(items)
    rc, out, err = led["bal"][(0, mode)]
    if rc != 0:
        return None
    rows = parse_bal(out)
    args = bal_args("J", D, mode)
    jt = journal_text(items)
    try:
        if acct is None or isinstance(acct, tuple):
            if (0, mode) not in led["strip"]:
                return None
            rc2, out2, err2 = led["strip"][(0, mode)]
            if rc2 is None:
                return None
            st_items = strip_future(items, D)
            r2 = parse_bal(out2) if rc2 == 0 else None
            only = acct[1] if isinstance(acct, tuple) else None
            f = classify_pair(entries, entries_of(st_items), D, mode, holds, rows, r2, only=only)
            if f != fp:
                return None
            diff = [a for a in sorted(set(rows) | set(r2 or {})) if rows.get(a) != (r2 or {}).get(a) and only in (None, a)]
            what = ("%s --now %s: removing the prices dated after the valuation date changes the report (accounts %s: %s with them, %s without)"
                    % (mode_text(mode), D.date(), diff, [show(rows.get(a)) for a in diff], [show((r2 or {}).get(a)) for a in diff]))
            rep = {"kind": "paired", "journal": jt, "journal_without_future": journal_text(st_items), "args": args}
            if only is not None:
                rep["account"] = only
            return rep, f, what
        if acct not in holds:
            return None
        got = rows.get(acct)
        f, want_all, _ = classify_value(entries, D, mode, holds[acct], got)
    except Ambiguous:
        return None
    if f is None or coarse(f) != coarse(fp):
        return None
    if f == "C10:-V:future-price-marks-primary":
        what = ("-V as of %s leaves account %s at %s although a price dated <= that date converts it to %s: a price dated AFTER the "
                "valuation date marked the commodity COMMODITY_PRIMARY (commodity.cc 48-55, amount.cc 769-770)"
                % (D.date(), acct, show(got), show(want_all[0])))
    else:
        what = "%s as of %s: account %s is %s, the latest prices not after that date give %s" % (
            mode_text(mode), D.date(), acct, show(got), show(want_all[0]))
    return ({"kind": "value", "journal": jt, "args": args, "account": acct, "expected_any_of": [show(w) for w in want_all],
             "ledger": show(got)}, f, what)


def smaller(items):
    """Candidates one step smaller: drop an item, or drop one posting of a transaction."""
    for i in range(len(items)):
        yield items[:i] + items[i + 1:]
    for i, it in enumerate(items):
        if it["k"] == "T" and len(it["posts"]) > 1:
            for j in range(len(it["posts"])):
                t2 = dict(it)
                t2["posts"] = it["posts"][:j] + it["posts"][j + 1:]
                yield items[:i] + [t2] + items[i + 1:]


def shrink(items, D, mode, acct, fp, budget=80):
    """Greedy removal of items / postings while the same observation still fails."""
    best = still_fails(items, D, mode, acct, fp)
    if best is None:
        return None
    cur = list(items)
    changed = True
    while changed and budget > 0:
        changed = False
        for cand in smaller(cur):
            budget -= 1
            r = still_fails(cand, D, mode, acct, fp)
            if r is not None:
                cur, best, changed = cand, r, True
                break
            if budget <= 0:
                break
    return best


# ---------------------------------------------------------------------------


def process(ctx, cases):
    leds = vflib.pmap(run_ledger_case, cases)
    all_lines, spans = [], []
    for c in cases:
        lines, keys = model_lines(c)
        spans.append((len(all_lines), len(lines), keys))
        all_lines += lines
    answers = vflib.driver_run(all_lines)
    probs = []
    for c, led, (off, n, keys) in zip(cases, leds, spans):
        ctx.feature("journal:" + c.tag)
        ents = entries_of(c.items)
        ctx.feature("entries", len(ents))
        if len({(frozenset(e[:2]), e[2]) for e in ents}) < len(ents):
            ctx.feature("equal-moment-entries")
        if any(it["k"] == "P" and it["has_time"] for it in c.items):
            ctx.feature("time-of-day")
        if any(it["k"] == "T" and any(p["cost"] for p in it["posts"]) for it in c.items):
            ctx.feature("cost-prices")
        if [e[2] for e in ents] != sorted(e[2] for e in ents):
            ctx.feature("out-of-order")
        probs += evaluate(ctx, c, led, (answers[off:off + n], keys))
        ctx.sample({"journal": journal_text(c.items)[:600], "dates": [str(d.date()) for d in c.dates[:3]], "targets": c.targets,
                    "model": answers[off][:120] if n else None}, cap=4)
    return probs


def report(ctx, probs):
    seen = {}
    for kind, fp, what, rep, loc in probs:
        ctx.extra_cov.setdefault("oracle_failures", {})[fp] = ctx.extra_cov.get("oracle_failures", {}).get(fp, 0) + 1
        seen.setdefault(fp, []).append((what, rep, loc))
    for fp, lst in seen.items():
        lst.sort(key=lambda x: len(x[1].get("journal", "")))
        what, rep, loc = lst[0]
        if fp in OUTSIDE_QUANTIFIER:
            # reproduced and proved (C10.exchange_future_irrelevant_general_false), but the graphs are outside the property's
            # quantifier (single edge / reversed edge / simple chain): recorded, not reported as a violation of C10
            ctx.feature("observation:" + fp, len(lst))
            ctx.extra_cov.setdefault("observations", {})[fp] = {"count": len(lst), "what": what, "journal": rep.get("journal", "")[:800],
                                                                 "args": rep.get("args", [])[2:]}
            continue
        if loc is not None:
            case, D, mode, acct = loc
            small = shrink(case.items, D, mode, acct, fp)
            if small is not None:
                rep, fp, what = small
        rep["how"] = "ledger -f JOURNAL " + " ".join("'%s'" % a if (" " in a or "%" in a) else a for a in rep.get("args", [])[2:])
        ctx.violation(fp, what, rep)


def run(tier, seed):
    ctx = Check("C10", tier, seed)
    ctx.mism = []
    ctx.rule = ("journals with 1-30 price records (P lines with/without a time of day, posting costs @ / @@) over 2-5 commodities forming a "
                "single edge, a reversed edge, a both-ways edge, a simple (possibly broken) chain, or - beyond the property's quantifier - a "
                "triangle, diamond or web with 2-3 alternative routes of different and of equal ages; equal-moment and out-of-order records, "
                "holdings in several accounts; every journal is valued with bal -X T (two targets) and -V at valuation dates one day before, on "
                "and one day after the price days plus far before/after, with reg -X T (file order and --sort -date: several valuation dates "
                "in one run) and pricedb --now D; bounded-exhaustive: all histories of <= 2 (thorough 3) records on one pair x 5 dates, all "
                "triangles with quotes on two days in every file order; non-trivial = a price record within one day of the valuation date, or "
                "a reversed/chained/multi-route conversion; distinct by (journal, date, mode)")
    ctx.assumptions = ["GMP rational arithmetic is exact", "valuation moments are midnights (--now takes a date)",
                       "route choice follows boost 1.83 (relax_target, breadth_first_visit, d_ary_heap<4>), pinned by text; the theorems hold "
                       "for every tie-break that pops a vertex of least distance",
                       "precision counters of converted amounts are not compared",
                       "on equally old routes with different prices the oracle accepts any of them; the model must match the binary exactly"]
    ctx.trusted = ["tools/extract_prices.py (operators, rules and code text of the price-history statements)"]
    if not ctx.prepare():
        return ctx.finish()
    search = bool(ctx.ties_broken)
    if search:
        ctx.extra_cov["search_mode"] = [t[0] for t in ctx.ties_broken]
    rng = ctx.rng
    probs = []
    # 1. corpus
    corpus = []
    for p in sorted(glob.glob(os.path.join(vflib.ROOT, "corpus", "C10", "*.json"))):
        with open(p) as f:
            corpus.append(json.load(f))
    for obj in corpus:
        ctx.count()
        ctx.feature("corpus")
        if replay_obj(obj, quiet=True) != 0:
            ctx.violation(obj.get("fingerprint", "C10:corpus"), obj.get("what", "corpus case fails"), obj.get("replay", obj))
    # 2. bounded-exhaustive
    exh = exhaustive_cases("thorough" if search else tier)
    ctx.exhaustive = {"histories_on_one_pair": len(exh), "valuation_dates_each": 5, "modes": "-X BBB, -X AAA, -V"}
    probs += process(ctx, exh)
    exr = exhaustive_routes("thorough" if search else tier)
    ctx.exhaustive["triangles_two_days"] = len(exr)
    probs += process(ctx, exr)
    bnd = boundary_cases()
    ctx.extra_cov["boundary_cases"] = len(bnd)
    probs += process(ctx, bnd)
    # 3. random stream (widened when an obligation or an extractor broke: search mode, DESIGN §6)
    n = 260 if tier == "quick" else 1500
    if search:
        n *= 4
    CH = 200
    done = 0
    while done < n:
        cases = [gen_case(rng, tier) for _ in range(min(CH, n - done))]
        done += len(cases)
        probs += process(ctx, cases)
    # 4. malformed stream
    mal = malformed_cases()
    answers = vflib.driver_run([m[0] for m in mal])
    for (line, jt, kind), ans in zip(mal, answers):
        ctx.count()
        ctx.feature("malformed")
        with tempfile.NamedTemporaryFile("w", suffix=".dat", delete=False) as f:
            f.write(jt)
            path = f.name
        try:
            rc, out, err = lrun(["-f", path, "bal", "^A", "--now", "2020/03/05", "-X", "BBB", "--format", FMT_BAL])
        finally:
            os.unlink(path)
        if rc is None:
            ctx.feature("infra:timeout-not-observed")
            continue
        if not ans.startswith("err\t") or ans[4:] != kind:
            ctx.tie_broken("corr:malformed", "model answered %r to %r (expected err %s)" % (ans, line, kind))
        elif rc == 0 or out.strip():
            ctx.tie_broken("corr:malformed", "ledger accepted a malformed price record: rc=%s out=%r\n%s" % (rc, out[:200], jt))
        else:
            ctx.traces_validated += 1
    for bad in ["px.value\tAAA", "px.recent\tP,x\tAAA\tBBB\t2020/03/01", "px.list\t\t2020/03/40\tAAA", "px.value\tAAA\t\tQ\t2020/03/01\t1,AAA,"]:
        ctx.count()
        a = vflib.driver_run([bad])[0]
        if not a.startswith("err\t"):
            ctx.tie_broken("corr:malformed", "model accepted %r: %r" % (bad, a))
    report(ctx, probs)
    if ctx.mism:
        ctx.extra_cov["mismatches"] = ctx.mism[:6]
    return ctx.finish()


# ---------------------------------------------------------------------------
# replay


def replay_obj(obj, quiet=False):
    r = obj.get("replay", obj)
    say = (lambda *a: None) if quiet else print
    kind = r.get("kind")
    d = tempfile.mkdtemp(prefix="c10r-")
    try:
        jp = os.path.join(d, "j.dat")
        with open(jp, "w") as f:
            f.write(r.get("journal", ""))
        if kind == "value":
            args = ["-f", jp] + r["args"][2:]
            rc, out, err = lrun(args)
            got = show(parse_bal(out).get(r["account"]))
            say("journal:\n" + r["journal"])
            say("command: ledger -f J " + " ".join(r["args"][2:]))
            say("account %s now: %s   acceptable: %s" % (r["account"], got, r["expected_any_of"]))
            return 0 if got in r["expected_any_of"] else 1
        if kind == "paired":
            sp = os.path.join(d, "s.dat")
            with open(sp, "w") as f:
                f.write(r["journal_without_future"])
            a = lrun(["-f", jp] + r["args"][2:])
            b = lrun(["-f", sp] + r["args"][2:])
            a, b = (a[0], parse_bal(a[1]), a[1]), (b[0], parse_bal(b[1]), b[1])
            say("journal:\n" + r["journal"])
            say("command: ledger -f J " + " ".join(r["args"][2:]))
            say("with the future prices:\n" + a[2] + "without them:\n" + b[2])
            if r.get("account"):
                return 0 if (a[0], a[1].get(r["account"])) == (b[0], b[1].get(r["account"])) else 1
            return 0 if a[:2] == b[:2] else 1
        if kind == "listing":
            rc, out, err = lrun(["-f", jp, "pricedb", "--empty", "--now", r["now"], "--pricedb-format", FMT_DB])
            got = [list(map(str, w)) for w in sorted(parse_db(out))]
            say("pricedb now: %s\nexpected: %s" % (got, r["expected"]))
            return 0 if got == r["expected"] else 1
        if kind == "reg":
            rc, out, err = lrun(["-f", jp, "reg", "^A", "--empty", "--no-rounding", "-X", r["target"]] + r.get("extra", []) + ["--now", r["now"], "--format", FMT_REG])
            say(out)
            ents = [(a, b, datetime.fromisoformat(t), Fraction(p)) for a, b, t, p in r.get("prices", [])]
            bad = check_register(ents, r["target"], rc, out, err)
            say("oracle now: %s" % (bad,))
            return 0 if bad is None else 1
    finally:
        shutil.rmtree(d, ignore_errors=True)
    say(obj)
    return 1


def replay(obj):
    vflib.ensure_ledger()
    return replay_obj(obj)
