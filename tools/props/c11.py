"""C11 — no input makes ledger crash, corrupt memory or hang.   PARTIAL.

PROVED (Lean, lean/LedgerModel/Props/C11.lean): for every fixed-size character buffer of
src/ (table re-extracted on every run by tools/extract_buffers.py into Gen/BufferSites.lean)
the modelled bounded-copy routine stores only inside the array, for all inputs; termination of
the modelled loops (alias expansion, stepping by a positive period length); the sites/loops
where the code has NO bound are proved to overflow / not terminate / recurse without bound, and
this check replays the model's witness on the binary.

EXERCISED ONLY (supporting evidence, not proof): memory safety of all remaining code and stack
use — structure-aware mutation of the repository's test journals and documentation examples
plus grammar-generated journals / expressions / queries / periods / formats / option values,
each run under a timeout and rlimits; quick tier on the native binary, thorough tier on an
ASan+UBSan build.  A death by signal, a sanitizer report or a timeout is a violation.
"""
import os, re, sys, json, glob, time, signal, hashlib, random, shutil, subprocess, tempfile
import vflib
from vflib import Check

MANIFEST = dict(
    text="PARTIAL. Proved in Lean 4 (for all inputs, no bounds): index-safety of the modelled bounded-copy routines — READ_INTO/READ_INTO_, "
         "parse_quantity, the commodity-symbol loop, the annotation/token/date/line/option/account copies — stated over the table of every "
         "fixed-size character buffer of src/ (capacity, offset, limit, terminator) that is re-extracted from the sources on every run "
         "(C11.all_sites_safe_partial is a `decide` over that table, C11.sites_in_bounds_partial lifts it to every input), and termination of "
         "the modelled loops (alias expansion, stepping by a positive period). Where the code has no bound the negation is proved and the "
         "model's witness is replayed on the binary (unbounded copies, off-by-one option guard, trailing-backslash over-read, zero-length "
         "period, unbounded parser / tree recursion). Memory safety of the REST of the code and stack use are NOT proved: they are only "
         "exercised (supporting evidence) by structure-aware mutation of the ~430 test journals and doc examples plus grammar-generated "
         "inputs under timeouts, natively (quick) and under ASan+UBSan (thorough).",
    note="Partial by design: a Lean model cannot express heap lifetime, stack size or the sanitizer-visible behaviour of the C++ runtime; "
         "everything outside the modelled routines is exercised, not proved, and labelled supporting evidence. Trusted additionally: "
         "tools/extract_buffers.py (finds every `char x[N]` and raw copy call; unknown shapes abort), the classification of a copy as "
         "bounded by a library count (getline/fgets/snprintf/strftime/read/memcpy), asserts stay enabled (NO_ASSERTS off), line sources of "
         "strcpy(buf, line) come from the bounded getline. Quick tier runs the native binary only (small overflows are silent there); the "
         "ASan+UBSan build (≈4 min) belongs to the thorough tier. Open findings are listed in known_findings.json by fingerprint "
         "C11:overflow:<site>, C11:overread:…, C11:stack:…, C11:hang:…, C11:sigfpe:…, C11:sigsegv:….",
    technique="Lean 4 proof of index bounds over an extracted buffer-site table + termination measures; witness replay; "
              "mutation/grammar fuzzing with timeouts and ASan/UBSan as supporting evidence",
    ref="DESIGN.md §5 C11")

REPO = vflib.REPO
TESTDIR = os.path.join(REPO, "test")
SIG = {getattr(signal, n): n for n in ("SIGSEGV", "SIGBUS", "SIGFPE", "SIGABRT", "SIGILL", "SIGKILL", "SIGXCPU", "SIGXFSZ", "SIGTRAP")}
CRASH_SIGS = {signal.SIGSEGV, signal.SIGBUS, signal.SIGFPE, signal.SIGABRT, signal.SIGILL, signal.SIGTRAP}
BASE_JOURNAL = "2020/01/01 * (c1) Payee One\n    Assets:Cash  $10.00\n    Income:Salary\n\n2020/02/15 Payee Two\n    Expenses:Food  5.50 EUR @ $1.10\n    Assets:Cash\n"
WORK = None          # temp dir of this run
FUZZ_TIMEOUT = [10]
REPL_SEQUENCES = [False]
DEADLINE = [float("inf")]   # after this time failing inputs are reported without further shrinking


def hexs(b):
    return b.hex()


# ---------------------------------------------------------------------------
# running ledger


class Case:
    """One invocation: args (list of str), journal (bytes or None, passed as -f FILE), stdin (bytes or None)."""
    __slots__ = ("args", "journal", "stdin", "kind")

    def __init__(self, args, journal=None, stdin=None, kind=""):
        self.args = list(args)
        self.journal = journal.encode("utf-8", "surrogateescape") if isinstance(journal, str) else journal
        self.stdin = stdin.encode("utf-8", "surrogateescape") if isinstance(stdin, str) else stdin
        self.kind = kind

    def key(self):
        h = hashlib.sha1()
        h.update(repr(self.args).encode("utf-8", "surrogateescape"))
        h.update(self.journal or b"-")
        h.update(self.stdin or b"-")
        return h.hexdigest()[:16]

    def to_json(self):
        def enc(b):
            if b is None:
                return None
            try:
                s = b.decode("utf-8")
                if "\x00" not in s:
                    return {"text": s}
            except UnicodeDecodeError:
                pass
            return {"hex": b.hex()}
        return {"args": self.args, "journal": enc(self.journal), "stdin": enc(self.stdin), "kind": self.kind}

    @staticmethod
    def from_json(o):
        def dec(x):
            if x is None:
                return None
            return x["text"].encode("utf-8") if "text" in x else bytes.fromhex(x["hex"])
        return Case(o["args"], dec(o.get("journal")), dec(o.get("stdin")), o.get("kind", ""))

    def size(self):
        return sum(len(a) for a in self.args) + len(self.journal or b"") + len(self.stdin or b"")


class Outcome:
    __slots__ = ("rc", "out", "err", "timeout", "wall")

    def bad(self):
        """The property's own verdict on one run: a death by signal, a sanitizer report or no termination."""
        if self.timeout:
            return "hang"
        if self.rc is not None and self.rc < 0:
            s = -self.rc
            if s in CRASH_SIGS:
                return SIG.get(s, "SIG%d" % s).lower()
            if s == signal.SIGXCPU:
                return "hang"
            return None            # SIGXFSZ (output cap), SIGKILL by us
        if b"ERROR: AddressSanitizer" in self.err or b"runtime error:" in self.err or b"ERROR: UndefinedBehaviorSanitizer" in self.err:
            return "sanitizer"
        return None


import itertools, threading
_counter = itertools.count(1)      # next() on itertools.count is atomic under the GIL


def run_case(case, binary=None, timeout=10, asan=False, raw_timeout=False):
    global WORK
    binary = binary or vflib.LEDGER
    args = list(case.args)
    jpath = None
    if case.journal is not None:
        jpath = os.path.join(WORK, "j%d_%d.dat" % (os.getpid(), next(_counter)))
        with open(jpath, "wb") as f:
            f.write(case.journal)
        args = ["-f", jpath] + args
    env = {"PATH": "/usr/bin:/bin", "HOME": "/nonexistent", "TZ": "UTC", "LC_ALL": "C", "TERM": "dumb"}
    if asan:
        env["ASAN_OPTIONS"] = "detect_leaks=0:abort_on_error=1:allocator_may_return_null=1:detect_stack_use_after_return=0"
        env["UBSAN_OPTIONS"] = "print_stacktrace=1:halt_on_error=1"
    wall = timeout if raw_timeout else timeout * (6 if asan else 1)
    cmd = ["prlimit", "--core=0", "--cpu=%d" % (wall + 2), "--fsize=%d" % (64 << 20)]
    if not asan:
        cmd.append("--as=%d" % (6 << 30))
    cmd += ["--", binary, "--args-only"] + args
    o = Outcome()
    t0 = time.time()
    try:
        p = subprocess.run(cmd, input=case.stdin if case.stdin is not None else b"", stdout=subprocess.PIPE, stderr=subprocess.PIPE,
                           env=env, timeout=wall, cwd=WORK)
        o.rc, o.out, o.err, o.timeout = p.returncode, p.stdout, p.stderr, False
    except subprocess.TimeoutExpired as ex:
        o.rc, o.out, o.err, o.timeout = None, ex.stdout or b"", ex.stderr or b"", True
    except OSError as ex:      # argument list too long etc.: not a run
        o.rc, o.out, o.err, o.timeout = 0, b"", ("harness: %s" % ex).encode(), False
    o.wall = time.time() - t0
    if jpath:
        try:
            os.unlink(jpath)
        except OSError:
            pass
    return o


LOADSTATS = {"slow-under-load": 0, "killed-under-load": 0, "reference_run_s": []}


def reference_time(binary):
    """Wall time of a trivial run (`ledger --version`) right now: the yardstick for every time limit on a loaded machine."""
    ts = []
    for _ in range(3):
        t0 = time.time()
        try:
            subprocess.run([binary, "--version"], stdout=subprocess.DEVNULL, stderr=subprocess.DEVNULL, timeout=120)
        except Exception:
            pass
        ts.append(time.time() - t0)
    ts.sort()
    LOADSTATS["reference_run_s"].append(round(ts[1], 3))
    return ts[1]


def generous_limit(binary, asan):
    """At least 60 s; scaled up when even a trivial run is slow (a normal trivial run takes ~10 ms natively)."""
    ref = reference_time(binary)
    return int(min(600, max(60, 3000 * ref) * (3 if asan else 1)))


def confirm_bad(case, binary, asan, first):
    """Nothing is reported from a parallel first pass alone.  The input is run again by itself: a crash must repeat;
    a timeout (or a SIGKILL, which may be the OOM killer) is re-tried with a generous limit scaled by the time a
    trivial run takes at this moment, and counts as slow-under-load / killed-under-load when it then completes."""
    kind = first.bad()
    killed = first.rc is not None and first.rc == -signal.SIGKILL
    if kind is None and not killed:
        return None
    if kind == "hang" or killed:
        limit = generous_limit(binary, asan)
        again = run_case(case, binary, timeout=limit, asan=asan, raw_timeout=True)
        k2 = again.bad()
        if again.rc is not None and again.rc == -signal.SIGKILL:
            return "killed"
        if k2 is None:
            LOADSTATS["slow-under-load" if kind == "hang" else "killed-under-load"] += 1
        return k2
    again = run_case(case, binary, timeout=10, asan=asan)
    if again.timeout:           # crashed in the crowd, slow alone: decide with the generous limit
        again = run_case(case, binary, timeout=generous_limit(binary, asan), asan=asan, raw_timeout=True)
    return again.bad()


# ---------------------------------------------------------------------------
# model side: the extracted site table and the routines


def model_sites():
    ans = vflib.driver_run(["buf.sites"])[0].split("\t")
    assert ans[0] == "ok", ans
    rows = []
    for r in ans[1].split(";"):
        f = r.split("|")
        rows.append(dict(name=f[0], kind=f[1], capacity=int(f[2]), offset=int(f[3]), limit=int(f[4]), extra=int(f[5]),
                         term=int(f[6]), bounded=f[7] == "1", fits=f[8] == "1", overflow_len=int(f[9]), src=f[10]))
    return rows, int(ans[2]), ans[3] == "1", (len(ans) > 4 and ans[4] == "1")


def model_run(site, payloads):
    """[(len, written bytes, stop byte or None or '-', inBounds)] for byte strings (latin-1 chars)."""
    lines = ["buf.run\t%s\t%s" % (site, p.hex()) for p in payloads]
    out = []
    for a in vflib.driver_run(lines):
        f = a.split("\t")
        if f[0] != "ok":
            out.append(None)
            continue
        stop = None if f[3] == "eof" else "-" if f[3] == "-" else bytes.fromhex(f[3])
        out.append((int(f[1]), bytes.fromhex(f[2]), stop, f[4] == "1"))
    return out


# ---------------------------------------------------------------------------
# open sites: how a payload of n bytes reaches the routine, and how to take the cause away


def realize_open(site, n):
    """Case that feeds a payload of n bytes to an unbounded / wrongly guarded site."""
    if site == "item.cc:parse_tags:buf":
        return Case(["bal"], "2020/01/01 p\n    A  $1  ; [2" + "0" * (n - 1) + "]\n    B\n", kind="open:" + site)
    if site == "format.cc:parse_elements:buf":
        return Case(["reg", "--format", "x" * n], BASE_JOURNAL, kind="open:" + site)
    if site == "utils.cc:split_arguments:buf":
        return Case([], BASE_JOURNAL, stdin="eval " + "1" * n + "\n", kind="open:" + site)
    if site == "global.cc:prompt_string:prompt":
        # the payload is one ']' per report on the stack: the default report plus one per `push`
        return Case([], BASE_JOURNAL, stdin="push\n" * (n - 1) + "eval 1\n", kind="open:" + site)
    if site == "option.cc:find_option:buf":
        return Case(["bal", "--" + "a" * n], BASE_JOURNAL, kind="open:" + site)
    return None


# native runs only show an overflow once it reaches something vital: lengths to try natively after the minimal one
NATIVE_FACTORS = {"item.cc:parse_tags:buf": [1.2, 4, 12], "format.cc:parse_elements:buf": [1.07, 1.5, 1.9],
                  "utils.cc:split_arguments:buf": [1.25, 4, 20], "global.cc:prompt_string:prompt": [2, 40, 400],
                  "option.cc:find_option:buf": []}


# ---------------------------------------------------------------------------
# correspondence: bounded sites whose stored bytes are observable in ledger's output


def _err_last(err):
    lines = [l for l in err.decode("utf-8", "replace").split("\n") if l.startswith("Error:")]
    return lines[-1] if lines else ""


class Realizer:
    def __init__(self, site, alphabet, build, stream, expect, observe, escapes=False, first=None):
        self.site, self.alphabet, self.build, self.stream = site, alphabet, build, stream
        self.expect, self.observe, self.escapes, self.first = expect, observe, escapes, first


def _j(posting):
    return "2020/01/01 p\n    %s\n    B\n" % posting


def realizers(maxline):
    R = []
    L = "abcdefghijklmnopqrstuvwxyzABCDEFGHIJKLMNOPQRSTUVWXYZ"
    # token.cc parse_ident: error message carries the identifier that was stored
    R.append(Realizer("token.cc:parse_ident:buf", L + "_", lambda P: Case(["eval", P]), lambda P: P.encode(),
                      lambda m, P: "ident:" + m[1].decode("latin-1"),
                      lambda o: "ident:" + (re.search(r"Unknown identifier '([^']*)'", o.err.decode("utf-8", "replace")) or [None, "?"])[1],
                      first="zq"))
    # token.cc string literal
    R.append(Realizer("token.cc:next:buf:string", L + " 0123456789.,;:!?()[]{}<>=+-*/%$#@~^&|_", lambda P: Case(["eval", '"' + P + '"']),
                      lambda P: P.encode() + b'"',
                      lambda m, P: ("ok:" + m[1].decode("latin-1")) if m[2] == b'"' else "err:wanted",
                      lambda o: ("ok:" + o.out.decode("latin-1")[:-1]) if o.rc == 0 else ("err:wanted" if "(wanted '\"')" in _err_last(o.err) else "err:" + _err_last(o.err)),
                      escapes=True))
    R.append(Realizer("token.cc:next:buf:regex", L + ".", lambda P: Case(["eval", "'abc' =~ /" + P + "/"]), lambda P: P.encode() + b"/",
                      lambda m, P: "ok" if m[2] == b"/" else "err:wanted",
                      lambda o: "ok" if o.rc == 0 else ("err:wanted" if "(wanted '/')" in _err_last(o.err) else "err:" + _err_last(o.err))))
    R.append(Realizer("token.cc:next:buf:date", "0123456789", lambda P: Case(["eval", "[" + P + "]"]), lambda P: P.encode() + b"]",
                      lambda m, P: "closed" if m[2] == b"]" else "err:wanted",
                      lambda o: "err:wanted" if "(wanted ']')" in _err_last(o.err) else "closed"))
    # commodity.cc symbols
    R.append(Realizer("commodity.cc:parse_symbol:buf:quoted", L + " ", lambda P: Case(["eval", '1 "' + P + '"']), lambda P: P.encode() + b'"',
                      lambda m, P: ("ok:" + m[1].decode("latin-1")) if m[2] == b'"' else "err:lacks",
                      lambda o: ("ok:" + o.out.decode("latin-1")[:-1][2:].strip('"')) if o.rc == 0 else
                      ("err:lacks" if "lacks closing quote" in _err_last(o.err) else "err:" + _err_last(o.err)), first="Zq"))
    R.append(Realizer("commodity.cc:parse_symbol:buf:unquoted", L, lambda P: Case(["eval", "1 " + P]), lambda P: P.encode(),
                      lambda m, P: "ok:" + m[1].decode("latin-1"),
                      lambda o: ("ok:" + o.out.decode("latin-1")[:-1][2:]) if o.rc == 0 else "err:" + _err_last(o.err), first="Zq"))
    # amount.cc parse_quantity
    R.append(Realizer("amount.cc:parse_quantity:buf:unsigned", "0123456789", lambda P: Case(["eval", P]), lambda P: P.encode(),
                      lambda m, P: "ok:" + m[1].decode("latin-1"),
                      lambda o: ("ok:" + o.out.decode("latin-1").strip()) if o.rc == 0 else "err:" + _err_last(o.err), first="1"))
    R.append(Realizer("amount.cc:parse_quantity:buf:signed", "0123456789",
                      lambda P: Case(["bal", "A", "--format", "%(quantity(amount))\n"], _j("A  $-" + P)), lambda P: P.encode(),
                      lambda m, P: ("ok:-" + m[1].decode("latin-1")) if m[0] == len(P) else "err:leftover",
                      lambda o: ("ok:" + o.out.decode("latin-1").strip()) if o.rc == 0 else "err:leftover", first="1"))
    # annotate.cc
    for k, (op, cl, lacks, alpha, first) in enumerate((("{", "}", "lacks closing brace", "0123456789", "1"),
                                                       ("[", "]", "lacks closing bracket", "0123456789", "2"),
                                                       ("((", "))", "lacks closing parentheses", "0123456789", "1"),
                                                       ("(", ")", "lacks closing parenthesis", L, "t"))):
        R.append(Realizer("annotate.cc:parse:buf:%d" % (k + 1), alpha,
                          (lambda op, cl: lambda P: Case(["bal"], _j("A  1 AAA " + op + P + cl)))(op, cl),
                          (lambda cl: lambda P: P.encode() + cl.encode())(cl),
                          (lambda cl: lambda m, P: "closed" if m[2] == cl[:1].encode() else "err:lacks")(cl),
                          (lambda lacks: lambda o: "err:lacks" if lacks in _err_last(o.err) else "closed")(lacks), first=first))
    # textual.cc read_line: a comment line of n bytes
    R.append(Realizer("textual.cc:read_line:linebuf", L + " ", lambda P: Case(["bal"], ";" + P + "\n" + BASE_JOURNAL), lambda P: b";" + P.encode(),
                      lambda m, P: "ok" if m[0] == len(P) + 1 else "err:exceeds",
                      lambda o: "err:exceeds" if "Line exceeds" in _err_last(o.err) else ("ok" if o.rc == 0 else "err:" + _err_last(o.err))))
    # account.cc find_account: first segment of n bytes
    R.append(Realizer("account.cc:find_account:buf", L, lambda P: Case(["bal"], _j(P + ":x  1 EUR")), lambda P: P.encode(),
                      lambda m, P: "ok" if m[0] == len(P) else "err:assert",
                      lambda o: "err:assert" if "Assertion failed" in _err_last(o.err) else ("ok" if o.rc == 0 else "err:" + _err_last(o.err)), first="Q"))
    # times.cc date guards: nothing to compare but must fail cleanly
    R.append(Realizer("times.cc:parse_date_mask_routine:buf", "0123456789/", lambda P: Case(["reg", "--begin", P], BASE_JOURNAL), lambda P: P.encode(),
                      lambda m, P: "err" if m[0] == 0 and len(P) > 0 else None, lambda o: "err" if (o.rc or 0) > 0 else "rc=%s" % o.rc, first="2"))
    R.append(Realizer("times.cc:parse_datetime:buf", "0123456789/: ", lambda P: Case(["bal"], "i " + P + " A\n"), lambda P: P.encode(),
                      lambda m, P: "err" if m[0] == 0 and len(P) > 0 else None, lambda o: "err" if (o.rc or 0) > 0 else "rc=%s" % o.rc, first="2"))
    return R


def gen_payload(rng, r, n):
    a = r.alphabet
    if n > 600:
        chunk = "".join(rng.choice(a) for _ in range(97))
        s = (chunk * (n // 97 + 1))[:n]
    else:
        s = "".join(rng.choice(a) for _ in range(n))
    if r.first:
        s = (r.first + s[len(r.first):])[:n] if n >= len(r.first) else r.first[:n]
    return s


def correspondence(ctx, sites, maxline, binary, asan, deep):
    by = {s["name"]: s for s in sites}
    rng = ctx.rng
    jobs = []
    for r in realizers(maxline):
        s = by.get(r.site)
        if s is None:
            ctx.tie_broken("corr:site-missing:" + r.site, "site %s is no longer in the extracted table" % r.site)
            continue
        lim = s["limit"] - (1 if r.site == "textual.cc:read_line:linebuf" else 0)   # the ';' is part of the line
        ns = sorted({max(1, lim - 1), lim, lim + 1, max(1, lim // 2), lim + 45, 2 * lim + 3, 1, 2, 7})
        ns += [rng.randint(1, 2 * lim + 10) for _ in range(12 if deep else 3)]
        for n in ns:
            if n > 100000:
                continue
            P = gen_payload(rng, r, n)
            jobs.append((r, P, n, "len"))
        if r.escapes:
            for _ in range(120 if deep else 30):
                n = rng.choice([3, 10, 40, lim - 2, lim - 1, lim])
                parts = []
                while sum(len(x) for x in parts) < n:
                    parts.append(rng.choice(["\\t", "\\n", "\\\\", "\\q", "\\b", "\\v", "\\f", "\\r", "a", "bc", " ", "x"]))
                jobs.append((r, "".join(parts), n, "esc"))
    # model answers
    groups = {}
    for k, (r, P, n, what) in enumerate(jobs):
        groups.setdefault(r.site, []).append(k)
    model = [None] * len(jobs)
    for site, ks in groups.items():
        ans = model_run(site, [jobs[k][0].stream(jobs[k][1]) for k in ks])
        for k, a in zip(ks, ans):
            model[k] = a
    outs = vflib.pmap(lambda j: run_case(j[0].build(j[1]), binary, asan=asan), jobs)
    for (r, P, n, what), m, o in zip(jobs, model, outs):
        ctx.count()
        ctx.feature("corr:" + r.site.split(":")[0])
        case = r.build(P)
        bad = o.bad()
        if bad:
            report_failure(ctx, case, o, binary, asan, hint=r.site)
            continue
        if m is None:
            ctx.tie_broken("corr:buf.run:" + r.site, "driver rejected payload of %d bytes" % n)
            continue
        want, got = r.expect(m, P), r.observe(o)
        if want is None:          # the model does not determine the observation here (only: no crash)
            ctx.traces_validated += 1
            continue
        if want != got:
            ctx.tie_broken("corr:buf.run:" + r.site, "site %s payload %d bytes (%s): model says %s, ledger shows %s" %
                           (r.site, n, what, want[:80], got[:80]))
            ctx.mism.append({"site": r.site, "n": n, "what": what, "model": want[:200], "ledger": got[:200], "payload_head": P[:40]})
        else:
            ctx.traces_validated += 1
            by_lim = by[r.site]["limit"]
            if n >= by_lim - 1 or what == "esc":
                ctx.nontrivial(("corr", r.site, n, hashlib.sha1(P.encode()).hexdigest()[:8]))
        if not m[3]:
            ctx.tie_broken("corr:inbounds:" + r.site, "model reports an out-of-bounds store at a site the theorem covers")
        ctx.sample({"site": r.site, "payload_bytes": n, "model": want[:60], "ledger": got[:60]}, cap=4)


def alias_boundary_tables():
    """Cyclic alias tables (self-, 2- and 3-cycles, with and without sub-accounts in the targets), entered through the full
    name and through the first segment, and acyclic chains of several lengths: journal.cc 162-213, the already_seen list."""
    jobs = []
    cyc = {
        "self": [[("A", "A:X")]],
        "2": [[("A", "B"), ("B", "A")], [("A", "B:X"), ("B", "A:Y")], [("A", "B:X"), ("B", "A")], [("A", "B"), ("B", "A:Y")]],
        "3": [[("A", "B"), ("B", "C"), ("C", "A")], [("A", "B:X"), ("B", "C:Y"), ("C", "A:W")], [("A", "B"), ("B", "C:Y"), ("C", "A")]],
        "tail": [[("Q", "A"), ("A", "B:X"), ("B", "A:Y")], [("Q", "A:T"), ("A", "B"), ("B", "A")]],
    }
    entries = ["A", "A:Z", "A:Z:W", "B", "B:Z", "C:Z", "Q", "Q:Z", "Z:A", "Z"]
    for tables in cyc.values():
        for t in tables:
            for e in entries:
                for rec in (True, False):
                    jobs.append((t, e, rec))
    for n in (2, 5, 12, 30):
        plain = [("K%d" % i, "K%d" % (i + 1)) for i in range(n)]
        sub = [("K%d" % i, "K%d:s%d" % (i + 1, i)) for i in range(n)]
        for t in (plain, sub):
            for e in ("K0", "K0:Z", "K%d" % (n - 1), "K%d:Z" % (n // 2), "K%d" % n):
                for rec in (True, False):
                    jobs.append((t, e, rec))
    return jobs


def alias_case(table, name, rec):
    text = "".join("alias %s=%s\n" % kv for kv in table) + "2020/01/01 p\n    %s  1 EUR\n    Zother\n" % name
    return Case(["bal", "--flat", "--format", "%(account)\n", "--no-total"] + (["--recursive-aliases"] if rec else []), text, kind="alias")


def alias_correspondence(ctx, binary, asan, n_cases):
    rng = ctx.rng
    names = ["A", "B", "C", "D", "E"]
    jobs = alias_boundary_tables()
    ctx.extra_cov["alias_boundary_cases"] = len(jobs)
    for _ in range(n_cases):
        keys = rng.sample(names, rng.randint(1, 4))
        table = []
        for k in keys:
            tgt = rng.choice(names)
            if rng.random() < 0.4:
                tgt = tgt + ":" + rng.choice(names + ["x"])
            if tgt == k:
                tgt = k + ":sub"
            table.append((k, tgt))
        name = rng.choice(names) + ("" if rng.random() < 0.5 else ":" + rng.choice(["x", "y:z", "A", "B"]))
        rec = rng.random() < 0.7
        jobs.append((table, name, rec))
    lines = ["alias.expand\t%d\t%s\t%s" % (1 if rec else 0, ";".join("%s=%s" % kv for kv in table), name) for table, name, rec in jobs]
    model = vflib.driver_run(lines)

    outs = vflib.pmap(lambda j: run_case(alias_case(*j), binary, timeout=FUZZ_TIMEOUT[0], asan=asan), jobs)
    failing = []
    for (table, name, rec), m, o in zip(jobs, model, outs):
        ctx.count()
        ctx.feature("corr:alias")
        if o.bad() or o.rc == -signal.SIGKILL:
            failing.append((alias_case(table, name, rec), o))
            continue
        f = m.split("\t")
        if f[0] != "ok":
            ctx.tie_broken("corr:alias.expand", "model ran out of fuel on %s %s (the termination theorem says it cannot)" % (table, name))
            continue
        err = o.err.decode("utf-8", "replace")
        if f[1] == "infinite":
            got = "infinite:" + (re.search(r"Infinite recursion on alias expansion for (\S+)", err) or [None, "?"])[1]
            want = "infinite:" + f[2]
        else:
            accts = [a for a in o.out.decode("utf-8", "replace").split("\n") if a and a != "Zother"]
            got = "done:" + (accts[0] if accts else "?" + _err_last(o.err))
            want = "done:" + f[2]
        if got != want:
            ctx.tie_broken("corr:alias.expand", "aliases %s name %s recursive=%s: model %s, ledger %s" % (table, name, rec, want, got))
            ctx.mism.append({"aliases": table, "name": name, "recursive": rec, "model": want, "ledger": got})
        else:
            ctx.traces_validated += 1
            if len(table) >= 2:
                ctx.nontrivial(("alias", tuple(table), name, rec))
    # a timeout here is the property's own verdict (the loop of expand_aliases did not stop): smallest input first
    failing.sort(key=lambda x: x[0].size())
    for c, o in failing[:3]:
        report_failure(ctx, c, o, binary, asan)


# ---------------------------------------------------------------------------
# classification of a failing input by root cause (counterfactual: take the suspected cause away and the failure goes)


def _paren_depth(s):
    d = m = 0
    for ch in s:
        if ch == "(":
            d += 1
            m = max(m, d)
        elif ch == ")":
            d = max(0, d - 1)
    return m


def _texts(case):
    out = list(case.args)
    if case.journal:
        out.append(case.journal.decode("latin-1"))
    if case.stdin:
        out.append(case.stdin.decode("latin-1"))
    return out


def _map_texts(case, fn):
    j = fn(case.journal.decode("latin-1")).encode("latin-1") if case.journal else case.journal
    s = fn(case.stdin.decode("latin-1")).encode("latin-1") if case.stdin else case.stdin
    return Case([fn(a) for a in case.args], j, s, case.kind)


def suspects(case, sites):
    """[(fingerprint, what, neutralised case)] in order of specificity."""
    by = {s["name"]: s for s in sites}
    S = []
    texts = _texts(case)
    alltext = "\n".join(texts)

    def cap(name, default):
        s = by.get(name)
        return (s["capacity"] if s else default)
    if case.stdin:
        st = case.stdin.decode("latin-1")
        if st.count("push") >= cap("global.cc:prompt_string:prompt", 32) - 2:
            S.append(("C11:overflow:global.cc:prompt_string:prompt", "REPL `push` repeated past prompt[32]", Case(case.args, case.journal, st.replace("push", "echo"), case.kind)))
        if re.search(r"(^|\n)\s*pop\b", st):
            S.append(("C11:sigsegv:repl-pop-empty-stack", "REPL `pop` with nothing pushed", Case(case.args, case.journal, re.sub(r"(^|\n)\s*pop\b", r"\1echo", st), case.kind)))
        if re.search(r"(^|\n)\s*(xact|draft|entry)\b[^\n]*\n\s*\S", st):
            S.append(("C11:uaf:repl-xact-then-report", "REPL `xact`/`draft`/`entry` leaves a freed transaction in the journal; the next report walks it",
                      Case(case.args, case.journal, re.sub(r"(^|\n)\s*(xact|draft|entry)\b", r"\1echo", st), case.kind)))
        c = cap("utils.cc:split_arguments:buf", 4096)
        if re.search(r"\S{%d,}" % c, st) or re.search(r"'[^'\n]{%d,}'|\"[^\"\n]{%d,}\"" % (c, c), st):
            S.append(("C11:overflow:utils.cc:split_arguments:buf", "REPL argument longer than buf[4096]",
                      Case(case.args, case.journal, re.sub(r"([^\s]{%d})[^\s]+" % (c // 2), r"\1", st), case.kind)))
    c = cap("option.cc:find_option:buf", 128)
    for i, a in enumerate(case.args):
        if a.startswith("--") and len(a.split("=")[0]) - 2 == c - 1:
            S.append(("C11:overflow:option.cc:find_option:buf", "long option name of exactly %d bytes" % (c - 1),
                      Case(case.args[:i] + [a[:20]] + case.args[i + 1:], case.journal, case.stdin, case.kind)))
    if re.search(r"lot_(tag|date|price)\(\s*null", alltext):
        S.append(("C11:crash:session.cc:fn_lot_x:null-amount", "lot_tag / lot_date / lot_price applied to a null value (an amount with no quantity is dereferenced)",
                  _map_texts(case, lambda t: re.sub(r"(lot_(?:tag|date|price)\(\s*)null", r"\g<1>1", t))))
    if "select" in alltext and re.search(r"--columns[= ]+-\d", " ".join(texts)):
        S.append(("C11:hang:select.cc:negative-columns", "select with a negative --columns: lexical_cast<size_t> wraps it to ~2^64 and every column is padded to ~10^18 characters",
                  _map_texts(case, lambda t: re.sub(r"(--columns[= ]+)-(\d)", r"\g<1>\2", t))))
    if any(re.match(r"--(budget|add-budget|unbudgeted|forecast)", a) for a in case.args) and any(a.startswith(("--anon", "--account")) for a in case.args):
        keep, skip = [], False
        for a in case.args:
            if skip:
                skip = False
                continue
            if a == "--account":
                skip = True
                continue
            if a.startswith(("--anon", "--account=")):
                continue
            keep.append(a)
        S.append(("C11:crash:filters.cc:generated-xact-null-journal", "--anon / --account applied to transactions generated from a periodic transaction (they have no journal)",
                  Case(keep, case.journal, case.stdin, case.kind)))
    msr = re.search(r"(?<![\w.])([A-Za-z_]\w*)\s*=(?![=~])([^;=\n]*?)(?<![\w.])\1(?![\w(])", re.sub(r"(?m)^\s*[@!]?alias\s.*$", "", alltext))
    if msr:
        name = msr.group(1)
        S.append(("C11:stack:self-referential-definition", "a definition that refers to itself (`%s = ... %s ...`) recurses without limit when it is evaluated" % (name, name),
                  _map_texts(case, lambda t: re.sub(r"((?<![\w.])%s\s*=(?![=~])[^;=\n]*?)(?<![\w.])%s(?![\w(])" % (re.escape(name), re.escape(name)), r"\g<1>1", t))))
    if "--recursive-aliases" in case.args and case.journal and re.search(rb"(?m)^\s*(?:alias\s|[@!]alias\s)", case.journal):
        S.append(("C11:hang:journal.cc:expand_aliases", "recursive alias expansion does not stop (the already_seen check of journal_t::expand_aliases misses the cycle)",
                  Case([a for a in case.args if a != "--recursive-aliases"], case.journal, case.stdin, case.kind)))
    if "--script" in case.args:
        i = case.args.index("--script")
        S.append(("C11:hang:main.cc:script-loop", "--script FILE: the read loop tests only eof(), so a missing file or a line of 1023+ bytes loops forever",
                  Case(case.args[:i] + case.args[i + 2:], case.journal, case.stdin, case.kind)))
    if re.search(r"every\s+0+\s+\w+", alltext):
        fn = lambda t: re.sub(r"every\s+0+(\s+\w+)", r"every 1\1", t)
        unit = re.search(r"every\s+0+\s+(\w+)", alltext).group(1)
        fp = "C11:sigfpe:period-zero-weeks" if unit.startswith("week") else "C11:hang:period-zero-length"
        S.append((fp, "period of zero length (`every 0 %s`)" % unit, _map_texts(case, fn)))
    c = cap("format.cc:parse_elements:buf", 65535)
    for i, a in enumerate(case.args):
        if len(a) > c and re.search(r"[^%%\\]{%d,}" % (c + 1), a):
            S.append(("C11:overflow:format.cc:parse_elements:buf", "format literal longer than the static buffer",
                      Case(case.args[:i] + [re.sub(r"([^%%\\]{1000})[^%%\\]+", r"\1", a)] + case.args[i + 1:], case.journal, case.stdin, case.kind)))
    for i, a in enumerate(case.args):
        m = re.search(r"(\\+)$", a)
        if m and len(m.group(1)) % 2 == 1 and i > 0:
            S.append(("C11:overread:format.cc:parse_elements:trailing-backslash", "format string ending in a lone backslash",
                      Case(case.args[:i] + [a[:-1]] + case.args[i + 1:], case.journal, case.stdin, case.kind)))
    if case.journal:
        jt = case.journal.decode("latin-1")
        m = re.search(r"\[[0-9=][^\]\n]{%d,}\]" % (cap("item.cc:parse_tags:buf", 256) - 1), jt)
        if m:
            S.append(("C11:overflow:item.cc:parse_tags:buf", "bracketed date note longer than buf[256]",
                      Case(case.args, re.sub(r"(\[[0-9=][^\]\n]{100})[^\]\n]+\]", r"\1]", jt).encode("latin-1"), case.stdin, case.kind)))
    if case.journal and re.search(r"(?m)^[ \t]+\S[^\n]*\([^\n]*==", case.journal.decode("latin-1")):
        S.append(("C11:hang:parser.cc:parse_logic_expr:no-assign-equal", "`==` inside a posting's amount expression (PARSE_NO_ASSIGN rewinds the token and loops)",
                  Case(case.args, case.journal.replace(b"==", b"<"), case.stdin, case.kind)))
    if max(_paren_depth(t) for t in texts) >= 300:
        def flat(t):
            return re.sub(r"\({300,}", "(", re.sub(r"\){300,}", ")", t))
        S.append(("C11:stack:parser-recursion", "deeply nested parentheses", _map_texts(case, flat)))
    for t in texts:
        ops = len(re.findall(r"[-+*/&|;,.]|\band\b|\bor\b", t))
        if ops >= 2000 or len(t.split()) >= 2000:
            def cut(t2):
                return t2 if len(t2) < 4000 else t2[:1500].rsplit(" ", 1)[0].rstrip("+-*/&|;,. ") if " " in t2[:1500] else re.sub(r"^((?:[^-+*/&|;,.]*[-+*/&|;,.]){200}[^-+*/&|;,.]*).*$", r"\1", t2, flags=re.S)
            S.append(("C11:stack:op-tree-recursion", "very long operator chain (left-deep expression tree)", _map_texts(case, cut)))
            break
    return S


def _norm_fn(f):
    f = re.sub(r"\[clone [^\]]*\]|\[abi:[^\]]*\]", "", f)
    f = re.sub(r"<[^<>]*>", "", re.sub(r"<[^<>]*>", "", f))
    f = f.replace("(anonymous namespace)::", "").replace("{anonymous}::", "").replace("ledger::", "")
    f = re.sub(r"\(.*$", "", f).strip()
    return f.split(" ")[-1] or "unknown"


def gdb_frames(case, binary, hang=False, env_extra=None):
    jpath = None
    args = list(case.args)
    tag = "%d_%d" % (os.getpid(), next(_counter))
    if case.journal is not None:
        jpath = os.path.join(WORK, "gdb_%s.dat" % tag)
        open(jpath, "wb").write(case.journal)
        args = ["-f", jpath] + args
    inp = os.path.join(WORK, "gdb_%s.in" % tag)
    open(inp, "wb").write(case.stdin or b"")
    try:
        with open(inp, "rb") as fin:      # `run < file` inside gdb would drop the --args: the inferior inherits gdb's stdin instead
            p = subprocess.run((["timeout", "-s", "INT", str(int(hang))] if hang else []) +
                               ["gdb", "-batch", "-nx", "-ex", "run", "-ex", "bt 48", "--args", binary, "--args-only"] + args,
                               stdin=fin, stdout=subprocess.PIPE, stderr=subprocess.STDOUT, timeout=90, cwd=WORK,
                               env=dict({"PATH": "/usr/bin:/bin", "HOME": "/nonexistent", "TZ": "UTC", "LC_ALL": "C"}, **(env_extra or {})))
        txt = p.stdout.decode("utf-8", "replace")
    except Exception:
        return None, []
    sigm = re.search(r"Program received signal (\w+)", txt)
    frames = re.findall(r"^#\d+\s+(?:0x[0-9a-f]+ in )?(.+?) \(", txt, flags=re.M)
    return (sigm.group(1).lower() if sigm else None), [_norm_fn(f) for f in frames]


_NOT_LEDGER = ("__", "std::", "boost::", "_IO", "malloc", "free", "raise", "abort", "operator", "??", "mpz_", "mpq_", "mpfr_", "__gmp", "str", "mem")


def top_frame(case, native, asan_bin, hang=False):
    """(category, function): the innermost ledger function when the native binary dies (gdb); a function that fills the
    visible stack marks unbounded recursion; the ASan report is used only when the native binary shows nothing."""
    if hang:
        # sample the stack twice: callees change, the function that holds the loop stays; take the innermost ledger
        # function of the common (outermost-first) prefix
        s1 = gdb_frames(case, native, 2)[1][::-1]
        s2 = gdb_frames(case, native, 4)[1][::-1]
        common = []
        for a, b in zip(s1, s2):
            if a != b:
                break
            common.append(a)
        led = [f for f in common if f and not f.startswith(_NOT_LEDGER)]
        return "hang", (led[-1] if led else "unknown")
    sig, frames = gdb_frames(case, native)
    if sig:
        led = [f for f in frames if f and not f.startswith(_NOT_LEDGER)]
        if len(frames) >= 40 and led:
            cnt = {}
            for f in led:
                cnt[f] = cnt.get(f, 0) + 1
            best = sorted(cnt.items(), key=lambda kv: (-kv[1], kv[0]))[0]
            if best[1] >= 6:
                return "stack", best[0]
        for pat, fam in FRAME_FAMILIES:
            if any(pat in f for f in frames[:12]):
                return fam
        if frames and "_M_insert" in frames[0] and any(f.endswith("value_t::print") for f in frames[:4]):
            return WIDTH_ALLOCA
        return "crash", (led[0] if led else "unknown")
    if asan_bin:
        o = run_case(case, asan_bin, asan=True)
        return classify_sanitizer(o.err.decode("utf-8", "replace"), case, asan_bin)
    return "fail", "unknown"


def _repo_frames(block):
    """[(function, file)] of the frames of one ASan stack that are in /repo/src, innermost first."""
    return [(_norm_fn(m.group(1)), os.path.basename(m.group(2)))
            for m in re.finditer(r"#\d+ 0x[0-9a-f]+ in (.+?) (/\S*/src/[\w.]+):\d+", block)]


def classify_sanitizer(txt, case, asan_bin):
    """Root-cause oriented name for a failure that only the ASan+UBSan build (asserts enabled) shows."""
    m = re.search(r"^ledger: (\S+?):(\d+): (.*?): Assertion `(.*)' failed", txt, flags=re.M)
    if m:
        cond = re.sub(r"\s+", "", m.group(4))[:40]
        if "/src/" in m.group(1) and not m.group(1).startswith("/usr/"):
            fn = _norm_fn(re.sub(r"^(?:static |virtual |const )*(?:[\w:<>,\s\*&]+?\s)??(?=[\w:~{}]+\()", "", m.group(3)))
            return "assert", "%s:%s:%s" % (os.path.basename(m.group(1)), fn.split("::")[-1], cond)
        # an assertion inside boost / libstdc++: name the ledger function that tripped it
        sig, frames = gdb_frames(case, asan_bin, env_extra={"ASAN_OPTIONS": "detect_leaks=0:abort_on_error=1"})
        led = [f for f in frames if f and not f.startswith(_NOT_LEDGER) and not f.startswith(("__GI_", "__assert", "__pthread"))]
        return "assert", "%s:%s" % (led[0] if led else os.path.basename(m.group(1)), cond)
    m = re.search(r"terminate called after throwing an instance of '([^']+)'(?:\s+what\(\):\s*(.*))?", txt)
    if m:
        return "terminate", (m.group(1).split("::")[-1] + ":" + (m.group(2) or "")[:40]).strip(":")
    m = re.search(r"(/\S*/src/[\w.]+):(\d+):\d+: runtime error: ([a-z -]+)", txt)
    if m and "AddressSanitizer" not in txt:
        return "ubsan", "%s:%s" % (os.path.basename(m.group(1)), m.group(3).strip().replace(" ", "-")[:40])
    m = re.search(r"AddressSanitizer: ([a-z-]+)", txt)
    if m and re.search(r"#[0-3] 0x[0-9a-f]+ in history_expand \(\S*libedit", txt):
        # the error is inside the system's libedit (its own buffer, fed a valid NUL-terminated line by main.cc): not ledger code
        return "external", "libedit:history_expand"
    if m:
        err = m.group(1)
        parts = re.split(r"\n(?=freed by thread|previously allocated by thread|allocated by thread)", txt)
        access = _repo_frames(parts[0])
        freed = _repo_frames(parts[1]) if len(parts) > 1 and parts[1].startswith("freed") else []
        allfn = [f for f, _ in access + freed]
        if any("temporaries_t" in f for f in allfn):
            return "uaf", "temporaries-cross-filter"
        if any(f.endswith("apply_deferred_posts") for f in allfn):
            return "uaf", "account.cc:deferred-post-of-failed-xact"
        if any(f.endswith("report_t::~report_t") or "push_report" in f or f.endswith("pop_report") for f in allfn) or "report_t::~report_t" in txt:
            return "uaf", "report-freed"
        if any(f.endswith("mask_t::operator=") for f in allfn) and any(f.endswith("in_place_cast") for f in allfn):
            return "uaf", "value.cc:in_place_cast:set_mask-aliases-own-string"
        kind = {"heap-use-after-free": "uaf", "stack-overflow": "stack"}.get(err, err)
        if access:
            return kind, "%s:%s" % (access[0][1], access[0][0])
        return kind, "unknown"
    return "fail", "unknown"


# native frames that identify a root-cause family whatever the innermost function is
FRAME_FAMILIES = [("temporaries_t::clear", ("uaf", "temporaries-cross-filter")), ("temporaries_t::~temporaries_t", ("uaf", "temporaries-cross-filter")),
                  ("account_t::apply_deferred_posts", ("uaf", "account.cc:deferred-post-of-failed-xact"))]
# a number streamed with a huge field width: libstdc++ pads it through alloca
WIDTH_ALLOCA = ("stack", "value.cc:print:huge-width-alloca")


def ddmin(items, test):
    """Zeller's ddmin on a list; `test(sub)` is True when the failure persists (and may refuse when the budget is spent)."""
    n = 2
    while len(items) >= 2:
        chunk = max(1, len(items) // n)
        reduced = False
        for i in range(0, len(items), chunk):
            cand = items[:i] + items[i + chunk:]
            if cand and test(cand):
                items, reduced = cand, True
                n = max(n - 1, 2)
                break
        if not reduced:
            if chunk == 1:
                break
            n = min(len(items), n * 2)
    return items


def shrink(case, binary, asan, kind, budget=None):
    """Delta-debug journal lines, then arguments, then characters, keeping the same kind of failure."""
    hang = kind == "hang"
    budget = budget or (12 if hang else 500 if not asan else 100)
    hang_t = max(2, int(400 * reference_time(binary))) if hang else 0
    runs = [0]

    def fails(c):
        if runs[0] >= budget or time.time() > DEADLINE[0]:
            return False
        runs[0] += 1
        return run_case(c, binary, timeout=hang_t if hang else 10, asan=asan).bad() == kind
    cur = case
    if cur.journal and cur.journal.count(b"\n") >= 2:
        lines = ddmin(cur.journal.split(b"\n"), lambda l: fails(Case(cur.args, b"\n".join(l), cur.stdin, cur.kind)))
        cur = Case(cur.args, b"\n".join(lines), cur.stdin, cur.kind)
    if cur.stdin and cur.stdin.count(b"\n") >= 2:
        lines = ddmin(cur.stdin.split(b"\n"), lambda l: fails(Case(cur.args, cur.journal, b"\n".join(l), cur.kind)))
        cur = Case(cur.args, cur.journal, b"\n".join(lines), cur.kind)
    i = 1
    while i < len(cur.args) and runs[0] < budget:
        c2 = Case(cur.args[:i] + cur.args[i + 1:], cur.journal, cur.stdin, cur.kind)
        if fails(c2):
            cur = c2
        else:
            i += 1
    if not hang:
        for k in range(len(cur.args)):
            a = cur.args[k]
            if 4 < len(a) <= 1500:
                base = cur
                chars = ddmin(list(a), lambda l: fails(Case(base.args[:k] + ["".join(l)] + base.args[k + 1:], base.journal, base.stdin, base.kind)))
                cur = Case(cur.args[:k] + ["".join(chars)] + cur.args[k + 1:], cur.journal, cur.stdin, cur.kind)
        if cur.journal and 4 < len(cur.journal) <= 1500:
            base = cur
            bs = ddmin([bytes([b]) for b in cur.journal], lambda l: fails(Case(base.args, b"".join(l), base.stdin, base.kind)))
            cur = Case(cur.args, b"".join(bs), cur.stdin, cur.kind)
        if cur.stdin and 4 < len(cur.stdin) <= 1500:
            base = cur
            bs = ddmin([bytes([b]) for b in cur.stdin], lambda l: fails(Case(base.args, base.journal, b"".join(l), base.kind)))
            cur = Case(cur.args, cur.journal, b"".join(bs), cur.kind)
    return cur


# root-cause fingerprints that replace earlier frame-based ones: while known_findings.json still lists the old name the
# old name is reported, so that renaming the entries there is not a precondition for this check
FINGERPRINT_ALIASES = {
    "C11:stack:self-referential-definition": ["C11:stack:bind_scope_t::lookup", "C11:stack:expr_t::op_t::calc"],
    "C11:uaf:temporaries-cross-filter": ["C11:crash:account_t::~account_t"],
}


def known_name(ctx, fp):
    listed = {k.get("fingerprint") for k in ctx.known}
    if fp in listed:
        return fp
    for old in FINGERPRINT_ALIASES.get(fp, []):
        if old in listed:
            return old
    return fp


def report_failure(ctx, case, outcome, binary, asan, hint=None):
    """A run died / hung / tripped a sanitizer: confirm, find the root cause, shrink, report."""
    kind = confirm_bad(case, binary, asan, outcome)
    if kind is None:
        ctx.feature("not-reproduced-alone")
        return
    if kind == "killed":
        ctx.violation("C11:killed:" + (case.args[0] if case.args else "repl")[:20], "ledger is killed (SIGKILL, memory exhaustion?) on this input even when run alone",
                      {"case": case.to_json() if case.size() < 300000 else {"too_large": case.size()}, "observed": "sigkill twice"})
        return
    ctx.feature("fail:" + kind)
    for fp, what, neutral in suspects(case, ctx.sites):
        if (kind == "hang") != (fp.split(":")[1] == "hang"):
            continue                # a cause that makes ledger die does not explain a run that never ends, and vice versa
        o2 = run_case(neutral, binary, asan=asan)
        if o2.bad() is None:
            rep = {"case": case.to_json() if case.size() < 300000 else {"too_large": case.size(), "args_head": [a[:200] for a in case.args]},
                   "observed": kind, "cause": what, "counterfactual": "the same input with that feature removed runs cleanly",
                   "binary": "asan" if asan else "native"}
            # keep replays small: prefer the canonical witness of that root cause
            w = canonical_witness(fp, ctx.sites)
            if w is not None:
                rep["case"] = w.to_json()
            ctx.violation(known_name(ctx, fp), "%s: ledger %s (%s)" % (what, "does not terminate" if kind == "hang" else "dies / is flagged: " + kind, "ASan build" if asan else "native"), rep)
            return
    # classify on the input as found (a shrunk input sits at the threshold of the failure and may not fail under gdb)
    cat, fn = top_frame(case, vflib.LEDGER, ctx.asan_binary, hang=(kind == "hang"))
    t1 = time.time()
    small = shrink(case, binary, asan, kind)
    if fn == "unknown" or cat not in ("crash", "stack", "hang"):
        c2, f2 = top_frame(small, vflib.LEDGER, ctx.asan_binary, hang=(kind == "hang"))
        if f2 != "unknown":
            cat, fn = c2, f2
    seq = repl_sequence_family(small, binary, asan, kind) if cat != "external" else None
    if seq:
        cat, fn = "repl-sequence", (seq if seq != "?" else fn)
    vflib.log("C11:   %s:%s shrunk %d -> %d bytes in %.1fs" % (cat, fn, case.size(), small.size(), time.time() - t1))
    fp = known_name(ctx, "C11:%s:%s" % (cat, re.sub(r"[^A-Za-z0-9_.:~>()-]+", "_", fn)[:70]))
    ctx.violation(fp, "ledger %s on a generated input (innermost frame %s)" % ("does not terminate" if kind == "hang" else "dies / is flagged: " + kind, fn),
                  {"case": small.to_json(), "observed": kind, "frame": fn, "binary": "asan" if asan else "native", "generator": case.kind, "hint": hint})


MERGED_OPTS = re.compile(r"(?<![\w-])(-[ABDGHIOVXtT%]\b|--(?:average|average-lot-prices|basis|cost|dc|deviation|exchange|gain|change|historical|invert|market|percent|price|"
                         r"quantity|unround|amount|total|display-amount|display-total|revalued|revalued-only)\b)")


def repl_sequence_family(case, binary, asan, kind):
    """A REPL session of several commands that fails although every command alone is clean: an effect of state shared
    between commands.  Returns None (not a sequence effect), a root-cause name, or "?" (sequence effect, cause unknown).
    Known cause: merged_expr_t::compile (expr.cc 239-260) defines `display_total=...` etc. in the SESSION's symbol table; the
    definitions are bound to the report of that command, which is freed when the command ends; the next report finds them."""
    if not case.stdin:
        return None
    lines = [l for l in case.stdin.decode("latin-1").split("\n") if l.strip()]
    if len(lines) < 2:
        return None
    alone = vflib.pmap(lambda l: run_case(Case(case.args, case.journal, l + "\n", case.kind), binary, asan=asan), lines)
    if any(o.bad() for o in alone):
        return None
    if any(MERGED_OPTS.search(l) for l in lines[:-1]):
        neutral = [MERGED_OPTS.sub(" ", l) for l in lines[:-1]] + [lines[-1]]
        o = run_case(Case(case.args, case.journal, "\n".join(neutral) + "\n", case.kind), binary, asan=asan)
        if o.bad() is None:
            return "stale-merged-expr-definition"
    return "?"


def handle_failures(ctx, failing, binary, asan):
    """Many failing runs share few root causes: group first (by the suspected cause, else by the innermost frame),
    then confirm / shrink / report the smallest input of each group."""
    if not failing:
        return
    groups, rest = {}, []
    for c, o in failing:
        S = [x for x in suspects(c, ctx.sites) if (o.bad() == "hang") == (x[0].split(":")[1] == "hang")]
        if S:
            groups.setdefault(S[0][0], []).append((c, o))
        else:
            rest.append((c, o))
    for fp, lst in sorted(groups.items()):
        c, o = min(lst, key=lambda x: x[0].size())
        report_failure(ctx, c, o, binary, asan)
    rest.sort(key=lambda x: x[0].size())
    hangs = [x for x in rest if x[1].bad() == "hang"][:3]
    rest = [x for x in rest if x[1].bad() != "hang"][:40] + hangs
    frames = vflib.pmap(lambda co: top_frame(co[0], vflib.LEDGER, ctx.asan_binary if asan else None, hang=(co[1].bad() == "hang")), rest, workers=8)
    byframe = {}
    for (c, o), f in zip(rest, frames):
        if f not in byframe:
            byframe[f] = (c, o)
    ctx.extra_cov["fuzz_distinct_frames"] = sorted(set(ctx.extra_cov.get("fuzz_distinct_frames", [])) | {"%s:%s" % f for f in byframe})
    for f, (c, o) in sorted(byframe.items()):
        report_failure(ctx, c, o, binary, asan)


# inputs found by earlier runs of the generators, kept as fixed probes so that every seed reports the same set
PROBES = [
    Case(["parse", "all()"], kind="probe"), Case(["parse", "any()"], kind="probe"),
    Case(["select", "* from posts"], BASE_JOURNAL, kind="probe"),
    Case(["xact", "p", "@"], BASE_JOURNAL, kind="probe"), Case(["template", "@"], kind="probe"),
    Case(["bal"], "2020/01/01 p\n    " + "A:" * 1500 + "x  1 EUR\n    B\n", kind="probe"),
    Case(["bal", "--trace", "x"], BASE_JOURNAL, kind="probe"),
    Case(["bal"], "2019/01/15 p\n    A  (amount == 1)\n    B\n", kind="probe"),
    Case(["parse", "1=~lot_tag(0,//)"], kind="probe"),
    Case([], "2020/2/5 ayee\n d  0\n", stdin="xact e ''0\nbal\n", kind="probe"),
    Case(["eval", "x=x; x"], kind="probe"),
    Case(["--script", "/nonexistent/c11-script"], BASE_JOURNAL, kind="probe"),
    Case(["reg", "-S", " "], BASE_JOURNAL, kind="probe"),
    Case(["bal", "-P", "--account", "1"], "2-3\n x  0", kind="probe"),
    Case(["eval", "lot_tag(null)"], kind="probe"), Case(["eval", "lot_date(null)"], kind="probe"), Case(["eval", "lot_price(null)"], kind="probe"),
    Case([], BASE_JOURNAL, stdin="!", kind="probe"),            # visible under ASan only (use after free in the error message)
    Case(["reg", "--budget", "--anon"], "~every 2 weeks 2010/2/3\n e  0", kind="probe"),
    Case([], "1/1\n d  5@$1\n A", stdin="register a l -X " + "Gapvdrfw" * 51 + "\npd 'w0'\ncsv --align-intervals --wide --period=quarterly", kind="probe"),
]


# root causes found by the thorough tier (several are visible only in the ASan build, whose asserts are enabled)
PROBES_THOROUGH = [
    Case(["format", "%()"], kind="probe"),
    Case(["eval", "'abc' =~ 'b'"], kind="probe"),
    Case(["eval", "f(a,,b)=a"], kind="probe"),
    Case(["bal"], "2012-1-4 T  ;UUID:\n L\n", kind="probe"),
    Case(["csv", "--collapse", "-t", "''"], "2004/09/29  My Employer\n    Assets:x\n    Income:Salary   0.0\n", kind="probe"),
    Case(["reg", "--account-width=1"], "02/02 p\n  Asstm  0.35 XX @ $1.00\n", kind="probe"),
    Case(["select", "date, amount from posts", "--columns", "-5"], "2012-03-26 p\n    A            20.00 EUR\n    B\n", kind="probe"),
    Case(["equity", "--group-by", "payee", "--gain"], "2020/2/1 p\n d  5 E @ 0\n s\n", kind="probe"),
    Case([], "2020/2/5 p\n d  5@$1\n s\n", stdin="bal -V\nbal\n", kind="probe"),
    Case(["reg", "--amount-width", "9000000"], BASE_JOURNAL, kind="probe"),
    Case(["pricedb", "--datetime-format", "y" * 130], "P 2020/01/01 00:00:00 R $1\n2020/02/15 p\n d  5 R @ $.10\n    As\n", kind="probe"),
    Case(["reg", "-X", "R", "--display-total", "account"], "2020/02/15 p\n d  5 R @ .10\n    As\n", kind="probe"),
    Case(["reg", "--budget", "--account", "1"], "~ every 14 days from 2013\n    Assets  $1\n    B\n", kind="probe"),
    Case(["bal", "--group-by", "payee", "-j"], "3-2 Q\n A  1\n B\n3-2 R\n A  1\n B\n", kind="probe"),
    Case(["bal"], "1-01 T\n  ns  $100\n   i   $100\n Li    $100\n Liabilities:MasterCard\n1-04 Test\n    Liabilities:MasterCard  $150.00 = $-150\n    <Ang>\n ())", kind="probe"),
    Case(["reg", "-A"], bytes.fromhex("30322f303220524420564d4d58580a20202020412020302e33300a202020766964656e64733a56616e67756172643a564d4d5858e220202000202020"), kind="probe"),
]


def run_probes(ctx, binary, asan, probes=None):
    PROBES = probes or globals()["PROBES"]
    outs = vflib.pmap(lambda c: run_case(c, binary, asan=asan), PROBES)
    failing = []
    for c, o in zip(PROBES, outs):
        ctx.count()
        ctx.feature("probe")
        if o.bad() or o.rc == -signal.SIGKILL:
            failing.append((c, o))
        else:
            ctx.traces_validated += 1
    for c, o in failing:
        report_failure(ctx, c, o, binary, asan)


FORMAT_COMMANDS = [
    (["reg", "--format"], True), (["bal", "--format"], True), (["reg", "--register-format"], True), (["bal", "--balance-format"], True),
    (["cleared", "--cleared-format"], True), (["budget", "--budget-format"], True), (["csv", "--csv-format"], True),
    (["prices", "--prices-format"], True), (["pricedb", "--pricedb-format"], True), (["reg", "-j", "--plot-amount-format"], True),
    (["reg", "-J", "--plot-total-format"], True), (["reg", "--prepend-format"], False), (["bal", "--prepend-format"], False),
    (["reg", "--group-by", "payee", "--group-title-format"], False), (["format"], False), (["print", "--format"], True), (["equity", "--format"], True),
]
BOUNDARY_JOURNAL = BASE_JOURNAL + "\n~ Monthly\n    Expenses:Food  $10\n    Assets:Cash\n\nP 2020/03/01 EUR $1.20\n"


def format_boundary_cases():
    """Every element kind of format_t::parse_elements with its numeric fields at the edges; `%/` continuation lines whose
    `%$N` back-reference is 0, 1, count-1, count, count+1, 9, A, F, G (format.cc 252-276).  Returns [(case, expected class or None)]."""
    out = []
    firsts = [(["%(date)"], "EXPR"), (["%(date)", " ", "%(account)"], None), (["lit ", "%D", "\\n", "%-10.20(payee)", " x ", "%(amount)"], None),
              (["%t", "%T", "%a"], None), (["%%", "%(total)"], None), (["only literal"], None)]
    for pieces, _ in firsts:
        types = []
        for pc in pieces:
            types.append("E" if pc.startswith("%") and pc != "%%" else "S")
        valid = 1 + sum(1 for t in types[1:] if t == "E")
        first = "".join(pieces)
        ns = sorted({"0", "1", str(max(valid - 1, 0)), str(valid), str(valid + 1)} | {"9", "A", "F", "G", "x", ""})
        for n in ns:
            for nxt in ("  %$" + n + "\\n", "%-8.3$" + n, "a%$" + n + "b%$1"):
                for k, (cmd, has_tmpl) in enumerate(FORMAT_COMMANDS):
                    if nxt != "  %$" + n + "\\n" and k > 3:
                        continue
                    fmt = first + "%/" + nxt
                    exp = None
                    if has_tmpl and k < 2 and nxt == "  %$" + n + "\\n":
                        if n == "" or n == "0" or n not in "123456789ABCDEF":
                            exp = "err:digit"
                        elif int(n, 16) <= valid:
                            exp = "ok"
                        else:
                            exp = "err:nonexistent"
                    out.append((Case(cmd + [fmt], BOUNDARY_JOURNAL, kind="boundary:format-backref"), exp))
            # three-part formats: the back-reference sits in the separator part
            out.append((Case(["bal", "--format", first + "%/%$1%/--%$" + n + "--\\n"], BOUNDARY_JOURNAL, kind="boundary:format-backref"), None))
            out.append((Case(["reg", "--format", first + "%/%$1%/--%$" + n + "--\\n"], BOUNDARY_JOURNAL, kind="boundary:format-backref"), None))
    # a back-reference with no template at all
    for cmd, _ in FORMAT_COMMANDS:
        out.append((Case(cmd + ["%$1 %(account)"], BOUNDARY_JOURNAL, kind="boundary:format-backref"), None))
    # widths / flags / every element kind
    kinds = ["(account)", "{amount}", "a", "t", "%", "$1", "q", ""]
    for w in FMT_WIDTHS:
        for mx in ["", ".", ".0", ".1", ".255", ".99999", ".18446744073709551617"]:
            for fl in ["", "-", "--"]:
                for kd in kinds:
                    el = "%" + fl + w + mx + kd
                    out.append((Case(["reg", "--format", "%(date) " + el + "\\n"], BOUNDARY_JOURNAL, kind="boundary:format-width"), None))
                    if kd in ("(account)", "{amount}", "$1"):
                        out.append((Case(["bal", "--format", "%(account)%/" + el + "\\n"], BOUNDARY_JOURNAL, kind="boundary:format-width"), None))
    for esc in list("bfnrtv\\x%0") + [""]:
        out.append((Case(["reg", "--format", "a\\" + esc + "b"], BOUNDARY_JOURNAL, kind="boundary:format-escape"), None))
        out.append((Case(["format", "a\\" + esc], None, kind="boundary:format-escape"), None))
    return out


STRFTIME_MODS = ["", "E", "O", "-", "_", "0", "^", "#", "10", "+", "5000"]


def minilang_boundary_cases():
    """Boundary streams for the other options that take a mini-language: sort keys, value expressions, periods, strftime/strptime formats."""
    out = []
    J = BOUNDARY_JOURNAL
    sorts = ["date", "-date", "date, -amount", "-", ",", "date,", ",date", " ", "", "-(-amount)", "--amount", "(date, payee)", "date; payee", "total", "-total",
             "account", "display_amount", "x", "1", "-1", "amount, amount, amount, amount, amount, amount", "-abs(amount)", "payee, -", "date,,amount", "(", ")", "-()"]
    for sk in sorts:
        for cmd in (["reg", "-S"], ["bal", "-S"], ["reg", "--sort-xacts"], ["print", "--sort"], ["reg", "--sort-all"], ["bal", "--flat", "--sort"], ["accounts", "--sort"],
                    ["payees", "-S"], ["tags", "-S"], ["commodities", "-S"], ["csv", "-S"], ["budget", "-S"], ["cleared", "-S"], ["equity", "-S"]):
            out.append(Case(cmd + [sk], J, kind="boundary:sort"))
    exprs = ["amount", "total", "1", "0", "", " ", "x", "amount * 2", "amount / 0", "int(1)/int(0)", "'s'", "/re/", "[2020/01/01]", "amount, total", "amount; total",
             "x = 1", "(amount", "amount)", "market(amount, date, 'EUR')", "null", "-", "!", "amount ? 1 : ", "f(x) = x; f", "x -> x", "1 2", "date", "account", "payee",
             "true", "false", "any()", "all()", "has_tag()", "tag()", "to_amount()", "format_date()", "justify()", "roundto()", "quoted()", "join()"]
    for e in exprs:
        for cmd in (["reg", "--display-amount"], ["reg", "--display-total"], ["bal", "--display-total"], ["reg", "--amount"], ["bal", "--total"], ["reg", "--limit"],
                    ["reg", "--display"], ["reg", "--only"], ["reg", "--bold-if"], ["reg", "--group-by"], ["reg", "--account"], ["reg", "--payee"], ["bal", "--limit"],
                    ["reg", "--forecast-years", "1", "--forecast-while"], ["eval"], ["parse"], ["expr"]):
            out.append(Case(cmd + [e], J if cmd[0] not in ("eval",) else None, kind="boundary:expr-option"))
    units = ["day", "days", "week", "weeks", "month", "months", "quarter", "quarters", "year", "years", ""]
    for n in ["0", "1", "2", "65535", "65536", "4294967296", "99999999999999999999", "-1", ""]:
        for u in units:
            for cmd in (["reg", "-p"], ["period"], ["bal", "--period"]):
                out.append(Case(cmd + ["every %s %s" % (n, u)], J if cmd[0] != "period" else None, kind="boundary:period"))
            out.append(Case(["reg", "--budget"], J + "\n~ every %s %s\n    A  $1\n    B\n" % (n, u), kind="boundary:period"))
    for pe in ["from 1400/01/01", "to 9999/12/31", "from 10000/01/01", "in 2020/02/30", "since 2020/13/01", "this", "last", "next", "every", "from", "to", "in", "until",
               "monday", "every monday", "jan", "in jan 2020", "2020", "2020/02", "2020/02/29", "2021/02/29", "from 2020/01/01 to 2020/01/01", "from 2021 to 2020",
               "this month", "last 0 months", "next 65536 days", "0 days ago", "65535 years hence", "daily from 1400/01/01 to 1400/01/03", "every 1 day in 9999",
               "weekly", "biweekly", "bimonthly", "quarterly", "yearly", "daily", "every day", "every every", "-", "/", "2020/", "/2020", "2020-", "1/2/3/4", ".", "today today"]:
        for cmd in (["reg", "-p"], ["period"], ["bal", "--begin"], ["bal", "--end"], ["reg", "--now"]):
            out.append(Case(cmd + [pe], J if cmd[0] != "period" else None, kind="boundary:period"))
    letters = "aAbBcCdDeFgGhHIjklmMnpPrRsStTuUVwWxXyYzZEOfikLNqvJKoQ+%"
    for L in letters:
        for mod in STRFTIME_MODS:
            f = "%" + mod + L
            out.append(Case(["reg", "--date-format", f], J, kind="boundary:strftime"))
            if mod in ("", "E", "O", "10"):
                out.append(Case(["reg", "--datetime-format", f, "--format", "%(format_datetime(now))|%(date)\\n"], J, kind="boundary:strftime"))
                out.append(Case(["reg", "--input-date-format", f], "2020/01/15 p\n    A  $1\n    B\n15 q\n    A  $2\n    B\n", kind="boundary:strptime"))
    for f in ["%", "%%", "%%%", "%c" * 10, "%c" * 40, "%A %B " * 30, "%5000Y", "%Y" * 64, "x" * 126, "x" * 127, "x" * 128, "x" * 200, "%x" * 20, "", " "]:
        out.append(Case(["reg", "--date-format", f], J, kind="boundary:strftime"))
        out.append(Case(["reg", "--input-date-format", f], "2020/01/15 p\n    A  $1\n    B\n", kind="boundary:strptime"))
        out.append(Case(["print", "--date-format", f], J, kind="boundary:strftime"))
    return out


def boundary_streams(ctx, binary, asan):
    fcases = format_boundary_cases()
    cases = [c for c, _ in fcases] + minilang_boundary_cases()
    exps = [e for _, e in fcases] + [None] * (len(cases) - len(fcases))
    outs = vflib.pmap(lambda c: run_case(c, binary, timeout=FUZZ_TIMEOUT[0], asan=asan), cases)
    failing = []
    for c, e, o in zip(cases, exps, outs):
        ctx.count()
        ctx.feature(c.kind)
        if o.bad() or o.rc == -signal.SIGKILL:
            failing.append((c, o))
            continue
        if e is not None:
            err = _err_last(o.err)
            got = "ok" if o.rc == 0 else "err:nonexistent" if "non-existent prior field" in err else "err:digit" if "must be a digit" in err else "err:" + err
            if got != e:
                ctx.tie_broken("corr:format-backref", "format %r: expected %s, ledger: %s" % (c.args[-1], e, got))
                ctx.mism.append({"format": c.args[-1], "expected": e, "ledger": got})
                continue
            ctx.nontrivial(("backref", tuple(c.args)))
        elif (o.rc or 0) > 0 or c.kind.startswith("boundary:format"):
            ctx.nontrivial(c.key())
        ctx.traces_validated += 1
    ctx.extra_cov["boundary_cases"] = ctx.extra_cov.get("boundary_cases", 0) + len(cases)
    handle_failures(ctx, failing, binary, asan)


def canonical_witness(fp, sites):
    by = {s["name"]: s for s in sites}
    if fp.startswith("C11:overflow:"):
        name = fp[len("C11:overflow:"):]
        s = by.get(name)
        if s:
            n = s["overflow_len"] if not s["bounded"] else s["limit"]
            f = NATIVE_FACTORS.get(name, [])
            return realize_open(name, int(n * f[0]) if f else n)
    return WITNESSES.get(fp)


WITNESSES = {
    "C11:overread:format.cc:parse_elements:trailing-backslash": Case(["reg", "--format", "x" * 31 + "\\"], BASE_JOURNAL, kind="witness"),
    "C11:hang:period-zero-length": Case(["reg", "-p", "every 0 days"], BASE_JOURNAL, kind="witness"),
    "C11:sigfpe:period-zero-weeks": Case(["reg", "-p", "every 0 weeks"], BASE_JOURNAL, kind="witness"),
    "C11:stack:parser-recursion": Case(["eval", "(" * 20000 + "1" + ")" * 20000], kind="witness"),
    "C11:stack:op-tree-recursion": Case(["eval", "+".join(["1"] * 60000)], kind="witness"),
    "C11:sigsegv:repl-pop-empty-stack": Case([], BASE_JOURNAL, stdin="pop\npop\npop\neval 1\n", kind="witness"),
    "C11:hang:parser.cc:parse_logic_expr:no-assign-equal": Case(["bal"], "2019/01/15 p\n    A  (amount == 1)\n    B\n", kind="witness"),
    "C11:hang:main.cc:script-loop": Case(["--script", "/nonexistent/c11-script"], BASE_JOURNAL, kind="witness"),
    "C11:crash:session.cc:fn_lot_x:null-amount": Case(["eval", "lot_tag(null)"], kind="witness"),
    "C11:uaf:repl-xact-then-report": Case([], "2020/2/5 ayee\n d  0\n", stdin="xact e ''0\nbal\n", kind="witness"),
}


# ---------------------------------------------------------------------------
# witnesses of the model-level negations, replayed on the binary


def replay_witnesses(ctx, sites, fmt_bs_checked, native, asan_bin):
    by = {s["name"]: s for s in sites}
    open_sites = [s for s in sites if not s["fits"]]
    ctx.extra_cov["open_sites"] = [s["name"] for s in open_sites]
    for s in open_sites:
        name = s["name"]
        n0 = s["overflow_len"] if not s["bounded"] else s["limit"]
        fp = "C11:overflow:" + name
        c0 = realize_open(name, n0)
        if c0 is None:
            # a bounded site whose numbers no longer fit (e.g. a READ_INTO size raised): reach it through the correspondence realizer
            for r in realizers(ctx.maxline):
                if r.site == name:
                    P = gen_payload(ctx.rng, r, n0)
                    c0 = r.build(P)
                    c0.kind = "open:" + name
                    ctx.count()
                    o = run_case(c0, asan_bin or native, asan=bool(asan_bin))
                    if o.bad():
                        ctx.violation(fp, "extracted site %s no longer fits its array (offset %d + payload %d + terminator %d > capacity %d); a %d-byte payload: %s" %
                                      (name, s["offset"], s["limit"] + s["extra"], s["term"], s["capacity"], n0, o.bad()),
                                      {"case": c0.to_json(), "site": s, "observed": o.bad(), "binary": "asan" if asan_bin else "native"})
                    else:
                        ctx.violation(fp, "extracted site %s no longer fits its array (offset %d + payload %d + terminator %d > capacity %d); no visible symptom on the %s binary" %
                                      (name, s["offset"], s["limit"] + s["extra"], s["term"], s["capacity"], "ASan" if asan_bin else "native"),
                                      {"case": c0.to_json(), "site": s, "theorem": "C11.all_sites_safe_partial"}, found_input=False)
                    break
            if c0 is not None:
                continue
            ctx.violation(fp, "extracted site %s no longer fits its array (offset %d + payload %d%s + terminator %d > capacity %d) and no input route is known to the check" %
                          (name, s["offset"], s["limit"], "+%d" % s["extra"] if s["extra"] else "", s["term"], s["capacity"]),
                          {"site": s, "theorem": "C11.all_sites_safe_partial"}, found_input=False)
            continue
        found = None
        tried = []
        if asan_bin:
            ctx.count()
            o = run_case(c0, asan_bin, asan=True)
            tried.append(("asan", n0, o.bad()))
            if o.bad():
                found = (c0, "asan", o.bad(), n0)
                # and the payload one byte shorter must be clean: the bound is exact
                c1 = realize_open(name, n0 - 1)
                o1 = run_case(c1, asan_bin, asan=True)
                ctx.count()
                if o1.bad():
                    ctx.tie_broken("corr:overflow-len:" + name, "model says %d bytes is the shortest overflowing payload, ASan already flags %d" % (n0, n0 - 1))
                else:
                    ctx.traces_validated += 1
                    ctx.nontrivial(("open-boundary", name, n0))
        if not found:
            for f in [1] + NATIVE_FACTORS.get(name, []):
                n = int(n0 * f)
                if name == "format.cc:parse_elements:buf":
                    n = min(n, 126000)
                c = realize_open(name, n)
                ctx.count()
                o = run_case(c, native)
                tried.append(("native", n, o.bad()))
                if o.bad() and confirm_bad(c, native, False, o):
                    found = (c, "native", o.bad(), n)
                    break
        what = ("%s: %s stores the whole payload with no bound into a %d-byte array; the model proves every payload of >= %d bytes overflows" %
                (name, s["src"], s["capacity"], n0)) if not s["bounded"] else \
               ("%s: guard admits %d bytes, %d more are appended plus the terminator, the array holds %d" % (name, s["limit"], s["extra"], s["capacity"]))
        if found:
            c, where, kind, n = found
            ctx.nontrivial(("open", name))
            ctx.violation(fp, what + "; replayed with %d bytes on the %s binary: %s" % (n, where, kind),
                          {"case": c.to_json(), "site": s, "payload_bytes": n, "observed": kind, "binary": where, "tried": tried,
                           "theorem": "C11.unbounded_site_overflows / C11.pinned_open_sites_overflow"})
        else:
            ctx.violation(fp, what + "; no visible symptom on the native binary (run the thorough tier: ASan shows the store)",
                          {"case": c0.to_json(), "site": s, "payload_bytes": n0, "tried": tried,
                           "theorem": "C11.all_sites_safe_partial excludes this site by name"}, found_input=False)
    # sites listed as open in the Props file that are now bounded and fitting: nothing to report
    # fixed-shape witnesses
    fixed = []
    if not fmt_bs_checked:
        fixed.append(("C11:overread:format.cc:parse_elements:trailing-backslash",
                      "format.cc parse_elements: a format ending in a lone backslash is read one byte past its terminator (C11.format_trailing_backslash_overread)", True))
    fixed += [("C11:hang:period-zero-length", "times.cc stabilize: `every 0 days` never terminates (C11.step_zero_never_terminates)", False),
              ("C11:sigfpe:period-zero-weeks", "times.cc stabilize: `every 0 weeks` computes 400 % 0 (integer division by zero)", False),
              ("C11:stack:parser-recursion", "parser.cc: recursion depth grows with nesting and has no limit (C11.parse_depth_unbounded): 20000 nested parentheses exhaust the stack", False),
              ("C11:stack:op-tree-recursion", "op.cc compile/calc/print recurse over a left-deep tree whose depth grows with the chain length (C11.tree_depth_unbounded): 60000 additions exhaust the stack", False),
              ("C11:sigsegv:repl-pop-empty-stack", "global.h pop_report: REPL command `pop` with nothing pushed pops the last report (assert compiled out in release builds)", False)]
    for fp, what, needs_asan in fixed:
        c = WITNESSES[fp]
        res = None
        order = (("asan", asan_bin), ("native", native)) if needs_asan else (("native", native),)
        for where, b in order:
            if b is None:
                continue
            ctx.count()
            o = run_case(c, b, asan=(where == "asan"), timeout=6 if where == "native" else 10)
            if o.bad():
                k2 = confirm_bad(c, b, where == "asan", o)
                if k2:
                    res = (where, k2)
                    break
        if res:
            ctx.nontrivial(("witness", fp))
            ctx.violation(fp, what + "; replayed on the %s binary: %s" % res, {"case": c.to_json(), "observed": res[1], "binary": res[0]})
        elif needs_asan and not asan_bin:
            ctx.violation(fp, what + "; only visible under ASan (thorough tier)", {"case": c.to_json()}, found_input=False)
        else:
            ctx.feature("witness-clean:" + fp)
    # int/int by zero must now be an error, not a trap
    for b, is_asan in ((native, False), (asan_bin, True)):
        if b is None:
            continue
        ctx.count()
        o = run_case(Case(["eval", "int(1)/int(0)"]), b, asan=is_asan)
        if o.bad() or b"Divide by zero" not in o.err or o.rc != 1:
            ctx.violation("C11:sigfpe:int-div-int-zero", "int(1)/int(0) must print `Divide by zero` and exit 1; observed rc=%s %s" % (o.rc, o.bad()),
                          {"case": Case(["eval", "int(1)/int(0)"]).to_json()})
        else:
            ctx.traces_validated += 1
    # nesting depths well inside the stack are parsed, and the model's depth matches the input
    depths = [1, 2, 50, 500]
    model = vflib.driver_run(["parse.depth\t" + "(" * d + "1" + ")" * d for d in depths])
    for d, m in zip(depths, model):
        ctx.count()
        o = run_case(Case(["eval", "(" * d + "1" + ")" * d]), native)
        if o.bad():
            report_failure(ctx, Case(["eval", "(" * d + "1" + ")" * d]), o, native, False)
        elif o.out.strip() != b"1" or m.split("\t")[:2] != ["ok", str(d + 1)]:
            ctx.tie_broken("corr:parse.depth", "depth %d: ledger %r model %r" % (d, o.out[:40], m))
        else:
            ctx.traces_validated += 1


# ---------------------------------------------------------------------------
# generators (supporting evidence)


def corpus():
    """[(name, journal text, [command lines])] from test/baseline, test/regress and the manual."""
    items = []
    for d in ("baseline", "regress"):
        for p in sorted(glob.glob(os.path.join(TESTDIR, d, "*.test"))):
            try:
                txt = open(p, encoding="utf-8", errors="surrogateescape").read()
            except OSError:
                continue
            lines = txt.split("\n")
            j, cmds, intest = [], [], False
            for l in lines:
                if l.startswith("test "):
                    intest = True
                    c = l[5:]
                    c = re.sub(r"\s*->\s*\d+\s*$", "", c)
                    cmds.append(c)
                elif l.startswith("end test"):
                    intest = False
                elif not intest:
                    j.append(l)
            items.append((os.path.basename(p), "\n".join(j), cmds))
    texi = os.path.join(REPO, "doc", "ledger3.texi")
    if os.path.exists(texi):
        t = open(texi, encoding="utf-8", errors="surrogateescape").read()
        for k, m in enumerate(re.finditer(r"^@smallexample @c input:\S+\n(.*?)^@end smallexample", t, flags=re.S | re.M)):
            body = m.group(1).replace("@@", "@").replace("@{", "{").replace("@}", "}")
            items.append(("doc-%d" % k, body, []))
    for p in sorted(glob.glob(os.path.join(TESTDIR, "input", "*.dat"))):
        try:
            txt = open(p, encoding="utf-8", errors="surrogateescape").read()
        except OSError:
            continue
        if len(txt) < 200000:
            items.append((os.path.basename(p), txt, []))
    return items


VERBS = ["bal", "balance", "reg", "register", "print", "equity", "csv", "xml", "emacs", "lisp", "cleared", "budget", "stats", "stat",
         "payees", "accounts", "commodities", "tags", "prices", "pricedb", "pricemap", "org", "pricesdb", "entry", "xact", "draft",
         "select", "convert", "source", "echo"]
PRE = ["eval", "parse", "expr", "format", "period", "query", "args", "template", "script"]
FUNCS = ["amount", "total", "account", "payee", "date", "quantity", "commodity", "abs", "round", "roundto", "floor", "ceiling", "truncated",
         "justify", "format_date", "format", "ansify_if", "join", "quoted", "strip", "scrub", "market", "to_amount", "to_string", "to_int",
         "to_date", "to_boolean", "has_tag", "tag", "now", "today", "any", "all", "int", "display_amount", "display_total", "percent",
         "print", "top_amount", "nail_down", "lot_date", "lot_price", "lot_tag", "unrounded", "rounded", "is_seq", "trim", "clear_commodity",
         "note", "code", "cleared", "pending", "uncleared", "real", "virtual", "depth", "parent", "count", "xact", "post", "cost", "price",
         "total_expr", "amount_expr", "beg_line", "filename", "id", "idstring", "magnitude", "commodity_price", "set_commodity_price", "value",
         "should_bold", "options", "to_mask", "to_balance", "to_sequence", "get_at", "averaged_lots", "should_show", "zzz"]
LENS = [0, 1, 2, 5, 31, 32, 100, 126, 127, 128, 129, 254, 255, 256, 257, 300, 1000, 1023, 1024, 4093, 4094, 4095, 4096, 4097, 5000, 8191, 8192, 8193, 20000]


def g_len(rng):
    return rng.choice(LENS) if rng.random() < 0.5 else rng.randint(0, 600)


def g_word(rng, n=None, alpha="abcdefghijklmnopqrstuvwxyzABCDEFGHIJ"):
    n = rng.randint(1, 8) if n is None else n
    if n > 24:       # long tokens: a short random chunk repeated (cheap to build, and the length is what matters)
        chunk = "".join(rng.choice(alpha) for _ in range(rng.choice([1, 3, 8, 13])))
        return (chunk * (n // len(chunk) + 1))[:n]
    return "".join(rng.choice(alpha) for _ in range(n))


def g_date(rng):
    r = rng.random()
    if r < 0.6:
        return "%04d%s%02d%s%02d" % (rng.choice([1, 1400, 1900, 1999, 2020, 2021, 2038, 9999, 10000]) if rng.random() < 0.2 else rng.randint(1990, 2030),
                                     rng.choice("/-."), rng.randint(0, 13), rng.choice("/-."), rng.randint(0, 32))
    if r < 0.75:
        return "%d/%d" % (rng.randint(0, 13), rng.randint(0, 32))
    if r < 0.85:
        return rng.choice(["today", "yesterday", "tomorrow", "this month", "last year", "next week", "jan", "monday", "2020", "feb 2020", "2020/13", "now"])
    return g_word(rng, g_len(rng), "0123456789/-. :")


def g_amount(rng):
    q = rng.choice(["1", "0", "-1", "10.00", "1,000.50", "0.0000001", "1" * g_len(rng) or "1", "1." + "3" * g_len(rng), ".5", "1e5", "-", "1.2.3", "1,2,3"])
    c = rng.choice(["$", "EUR", "USD", "", "\"A B\"", "\"" + g_word(rng, g_len(rng)) + "\"", g_word(rng, g_len(rng)) or "X", "€", "h", "m", "s", "%"])
    a = rng.choice([q + " " + c, c + q, q + c, c + " " + q, q])
    if rng.random() < 0.3:
        a += " " + rng.choice(["{$1.00}", "{{$10}}", "{=$1}", "[2020/01/01]", "(note)", "((amount * 2))", "{" + "1" * g_len(rng) + "}",
                               "[" + "2" * g_len(rng) + "]", "(" + "t" * g_len(rng) + ")", "((" + "1" * g_len(rng) + "))", "{", "[", "(", "((", "{$1", "{{$1}"])
    if rng.random() < 0.2:
        a += " " + rng.choice(["@ $1.5", "@@ $3", "@", "@@", "@ ", "(@) $2", "(@@) $2", "@ " + "1" * g_len(rng)])
    if rng.random() < 0.1:
        a += rng.choice([" = $10", " = 0", " =", " = " + "9" * g_len(rng)])
    return a


def g_expr(rng, d=0):
    r = rng.random()
    if d > 4 or r < 0.25:
        return rng.choice(["1", "0", "2.5", "$10", "1 EUR", "int(0)", "int(1)", "'s'", "\"t\"", "/re/", "[2020/01/01]", "true", "false", "amount", "total",
                           "account", "payee", "date", "x", "null", "{1 EUR}", str(rng.randint(-5, 10 ** rng.randint(1, 20))), g_word(rng, g_len(rng)),
                           "'" + g_word(rng, g_len(rng)) + "'", "/" + g_word(rng, g_len(rng)) + "/", "[" + g_date(rng) + "]", "1" * g_len(rng) or "1"])
    if r < 0.55:
        op = rng.choice(["+", "-", "*", "/", "==", "!=", "<", "<=", ">", ">=", "&", "|", "and", "or", "=~", "!~", ",", ";", "?", "->", "=", ".", "div"])
        if op == "?":
            return "%s ? %s : %s" % (g_expr(rng, d + 1), g_expr(rng, d + 1), g_expr(rng, d + 1))
        return "%s %s %s" % (g_expr(rng, d + 1), op, g_expr(rng, d + 1))
    if r < 0.7:
        return "%s(%s)" % (rng.choice(FUNCS), ", ".join(g_expr(rng, d + 2) for _ in range(rng.randint(0, 3))))
    if r < 0.8:
        return rng.choice(["-", "!", "not "]) + g_expr(rng, d + 1)
    if r < 0.9:
        n = rng.choice([1, 2, 3, 10, 50, 200])
        return "(" * n + g_expr(rng, d + 1) + ")" * n
    return rng.choice(["(", ")", "((", "1 +", "* 2", "'abc", "/abc", "[2020", "{1", "1 ? 2", "1 :", "f(", "f(1,", "->", "x ->", "\\", "\"", "%", "@", "#", "1 1", "$", "~"]) + \
        (g_expr(rng, d + 1) if rng.random() < 0.5 else "")


def g_query(rng):
    terms = []
    for _ in range(rng.randint(0, 5)):
        terms.append(rng.choice(["Assets", "and", "or", "not", "(", ")", "@Payee", "#c1", "=note", "%tag", "%tag=val", "expr", "payee", "code", "note", "tag", "meta",
                                 "show", "only", "bold", "for", "since", "until", "^Exp", "Food$", "/re/", "'q'", "\"", "expr " + g_expr(rng, 3), g_word(rng, g_len(rng)),
                                 "=" + g_word(rng, g_len(rng)), "%" + g_word(rng, g_len(rng)), "@", "#", "=", "%", "!", "&", "|", "\\", "(" * rng.randint(1, 60)]))
    return terms


def g_period(rng):
    n = rng.choice(["1", "2", "3", "7", "10", "100", "1" * g_len(rng) or "1", "-1", "", "x"])
    unit = rng.choice(["days", "weeks", "months", "quarters", "years", "day", "week", "month", "year", "fortnight", ""])
    parts = []
    for _ in range(rng.randint(1, 4)):
        parts.append(rng.choice(["every %s %s" % (n, unit), "daily", "weekly", "biweekly", "monthly", "bimonthly", "quarterly", "yearly", "every day", "every week",
                                 "from " + g_date(rng), "to " + g_date(rng), "since " + g_date(rng), "until " + g_date(rng), "in " + g_date(rng), "during " + g_date(rng),
                                 "this month", "last year", "next quarter", "this week", "today", g_date(rng), "from", "every", "every every", "-", "2020 2021",
                                 "last 3 months", "next 2 weeks", "%d %s ago" % (rng.randint(0, 5), unit), "%d %s hence" % (rng.randint(0, 5), unit), g_word(rng, g_len(rng))]))
    return " ".join(parts)


FMT_WIDTHS = ["", "0", "1", "9", "10", "255", "256", "65535", "99999", "18446744073709551617", "007"]
FMT_LETTERS = "dDSBbEeXYCPaAtTN"


def g_fmt_element(rng, with_backref):
    """One element of every kind format_t::parse_elements knows (format.cc 126-420), numeric fields at their edges."""
    r = rng.random()
    flags = rng.choice(["", "", "-", "--", "---"])
    w = rng.choice(FMT_WIDTHS) if rng.random() < 0.6 else str(rng.randint(0, 300))
    mx = rng.choice(["", "", "." + rng.choice(FMT_WIDTHS), ".", "." + str(rng.randint(0, 300))])
    pre = "%" + flags + w + mx
    if r < 0.22:
        return pre + "(" + rng.choice(["date", "account", "payee", "amount", "total", "display_amount", "1", "", " ", "x", "amount, true", "justify(amount, 5, 10, true, false)",
                                       "ansify_if(account, blue)", g_expr(rng, 3)]) + ")"
    if r < 0.36:
        return pre + "{" + rng.choice(["amount", "total", "1", "", "x", "amount, bold", "amount, 1, 2", g_expr(rng, 3)]) + "}"
    if r < 0.5:
        return pre + rng.choice(FMT_LETTERS)
    if r < 0.56:
        return pre + rng.choice("cfghijklmnopqrsuvwxyzFGHIJKLMOQRUVWZ0[]|_/")
    if r < 0.62:
        return pre + "%"
    if r < 0.8 and with_backref:
        return pre + "$" + rng.choice(list("0123456789ABCDEFG") + ["", "10", "a", "$"])
    if r < 0.88:
        return rng.choice(["\\b", "\\f", "\\n", "\\r", "\\t", "\\v", "\\\\", "\\x", "\\%", "\\"]).replace("\\\\", "\\")
    if r < 0.94:
        return rng.choice(["%", "%-", "%1", "%.", "%1.", "%(", "%{", "%((", "%(1", "%$", "%-$", "%5$"])
    return g_word(rng, rng.choice([1, 3, 10, g_len(rng)]))


def g_format(rng):
    def part(backref):
        return "".join(g_fmt_element(rng, backref) for _ in range(rng.randint(1, 6)))
    r = rng.random()
    if r < 0.5:
        return part(rng.random() < 0.3)
    if r < 0.85:
        return part(False) + "%/" + part(True)
    return part(False) + "%/" + part(True) + "%/" + part(True)


OPTS = [("-p", g_period), ("--period", g_period), ("-b", g_date), ("--begin", g_date), ("-e", g_date), ("--end", g_date), ("--now", g_date),
        ("-l", lambda r: g_expr(r, 2)), ("--limit", lambda r: g_expr(r, 2)), ("-d", lambda r: g_expr(r, 2)), ("--display", lambda r: g_expr(r, 2)),
        ("--only", lambda r: g_expr(r, 2)), ("-S", lambda r: g_expr(r, 3)), ("--sort", lambda r: g_expr(r, 3)), ("--sort-xacts", lambda r: g_expr(r, 3)),
        ("-F", g_format), ("--format", g_format), ("--prepend-format", g_format), ("--balance-format", g_format), ("--register-format", g_format),
        ("--csv-format", g_format), ("--plot-amount-format", g_format), ("--plot-total-format", g_format), ("--prices-format", g_format),
        ("--pricedb-format", g_format), ("--cleared-format", g_format), ("--budget-format", g_format), ("--group-title-format", g_format),
        ("-t", lambda r: g_expr(r, 2)), ("--amount", lambda r: g_expr(r, 2)), ("-T", lambda r: g_expr(r, 2)), ("--total", lambda r: g_expr(r, 2)),
        ("--display-amount", lambda r: g_expr(r, 2)), ("--display-total", lambda r: g_expr(r, 2)), ("--group-by", lambda r: g_expr(r, 3)),
        ("--group-title-format", g_format), ("--bold-if", lambda r: g_expr(r, 2)), ("--account", lambda r: g_expr(r, 3)), ("--payee", lambda r: g_expr(r, 3)),
        ("--pivot", lambda r: g_word(r, g_len(r))), ("--meta", lambda r: g_word(r, g_len(r))), ("--meta-width", lambda r: str(r.randint(-2, 300))),
        ("-X", lambda r: r.choice(["$", "EUR", "", g_word(r, g_len(r)), "\"A B\"", "1"])), ("--exchange", lambda r: r.choice(["$", "EUR,USD", "EUR:$", ",", ":", g_word(r, g_len(r))])),
        ("--date-format", lambda r: r.choice(["%Y-%m-%d", "%", "%%", "%q", "%Y" * r.choice([1, 10, 40, 100]), g_word(r, g_len(r)), "%c%c%c%c%c%c%c%c", "%+", "%E", "%5000Y"])),
        ("--datetime-format", lambda r: r.choice(["%Y-%m-%d %H:%M", "%", g_word(r, g_len(r)), "%c" * 20])),
        ("--input-date-format", lambda r: r.choice(["%Y-%m-%d", "%d/%m/%y", "%", "%q", g_word(r, g_len(r))])),
        ("--head", lambda r: str(r.choice([0, 1, 2, -1, 10 ** 9, 10 ** 30]))), ("--tail", lambda r: str(r.choice([0, 1, 2, -1, 10 ** 9, 10 ** 30]))),
        ("--depth", lambda r: str(r.choice([0, 1, 2, -1, 10 ** 30, "x"]))), ("--columns", lambda r: str(r.choice([0, 1, 20, 80, 500, -5, "x", 10 ** 30]))),
        ("--account-width", lambda r: str(r.choice([0, 1, 500, -1]))), ("--amount-width", lambda r: str(r.choice([0, 1, 500, -1]))),
        ("--total-width", lambda r: str(r.choice([0, 1, 500]))), ("--payee-width", lambda r: str(r.choice([0, 1, 500]))), ("--date-width", lambda r: str(r.choice([0, 1, 500]))),
        ("--truncate", lambda r: r.choice(["leading", "middle", "trailing", "x", ""])), ("--start-of-week", lambda r: r.choice(["mon", "sunday", "0", "7", "x", g_word(r, g_len(r))])),
        ("--seed", lambda r: str(r.randint(0, 99))), ("--value-expr", lambda r: g_expr(r, 3)), ("--master-account", lambda r: g_word(r, g_len(r))),
        ("--price-exp", lambda r: str(r.choice([0, 1, -1, "x", 10 ** 30]))), ("--unrealized-gains", lambda r: g_word(r, g_len(r))), ("--unrealized-losses", lambda r: g_word(r, g_len(r))),
        ("--time-colon", None), ("--hashes", lambda r: r.choice(["sha512", "SHA512_Half", "x"])), ("--output", lambda r: "/dev/null")]
FLAGS = ["--empty", "--flat", "--no-total", "--collapse", "--collapse-if-zero", "--subtotal", "--related", "--related-all", "--invert", "--average", "--deviation", "--percent",
         "--basis", "-B", "-V", "--market", "--gain", "-G", "-O", "--quantity", "--price", "--lots", "--lot-prices", "--lot-dates", "--lot-tags", "--lots-actual",
         "--cleared", "--uncleared", "--pending", "--real", "--actual", "--effective", "--aux-date", "--strict", "--pedantic", "--permissive", "--check-payees",
         "--daily", "--weekly", "--monthly", "--quarterly", "--yearly", "--dow", "--by-payee", "--exact", "--generated", "--inject", "--wide", "--raw", "--rich-data",
         "--immediate", "--unround", "--no-rounding", "--revalued", "--revalued-only", "--no-revalued", "--no-titles", "--no-color", "--force-color", "--color",
         "--decimal-comma", "--day-break", "--equity", "--current", "--historical", "--primary-date", "--count", "--anon", "--align-intervals", "--no-aliases",
         "--recursive-aliases", "--explicit", "--verify", "--verify-memory", "--args-only", "--verbose", "--debug", "--trace", "--budget", "--add-budget", "--unbudgeted",
         "--cost", "--total-data", "--amount-data", "-j", "-J", "--no-pager", "--auto-match", "--values", "--sort-all", "--account-width", "-n", "-s", "-E", "-r", "-w", "-Y", "-M", "-W", "-D", "-A", "-P", "-R", "-U", "-C", "-L", "-c", "-i", "-x", "-y", "-z"]


def g_args(rng, corpus_cmds=None):
    r = rng.random()
    if corpus_cmds and r < 0.25:
        c = rng.choice(corpus_cmds)
        c = c.replace("$FILE", "/dev/null").replace("$sourcepath", REPO)
        try:
            import shlex
            a = shlex.split(c)
        except ValueError:
            a = c.split()
        a = [x for x in a if x not in ("-f",) and "python" not in x and "server" not in x]
        if a and a[0] not in ("python", "server", "generate"):
            if rng.random() < 0.3:
                o = opt(rng)
                a = a + (o if isinstance(o, list) else [o])
            return a
    if r < 0.45:
        pre = rng.choice(PRE)
        if pre in ("eval", "parse", "expr"):
            return [pre, g_expr(rng)]
        if pre == "format":
            return [pre, g_format(rng)]
        if pre == "period":
            return [pre, g_period(rng)]
        if pre == "script":
            return ["bal"]
        return [pre] + g_query(rng)
    verb = rng.choice(VERBS)
    a = [verb]
    if verb in ("entry", "xact", "draft"):
        a += rng.choice([[g_date(rng), "Payee", "Food", "$10"], ["Payee"], [g_date(rng)], [g_word(rng, g_len(rng))], ["2020/01/01", "p", "from", "Cash", "to", "Food", "10 EUR", "@", "$2"], ["at", "to", "from"], []])
    elif verb == "select":
        a += [rng.choice(["date, amount from posts", "account from accounts", "x", "payee, total from posts where amount > 0", "", "from", "* from posts"])]
    elif verb in ("convert", "source"):
        a += ["/dev/null"]
    else:
        a += g_query(rng) if rng.random() < 0.6 else []
    for _ in range(rng.choice([0, 0, 1, 1, 2, 3, 6])):
        o = opt(rng)
        if isinstance(o, list):
            a += o
        else:
            a.append(o)
    return a


def opt(rng):
    if rng.random() < 0.45:
        return rng.choice(FLAGS)
    name, gen = rng.choice(OPTS)
    if gen is None:
        return name
    v = gen(rng)
    return [name, v] if rng.random() < 0.7 or not name.startswith("--") else name + "=" + v


DIRECTIVES = ["account %s", "alias %s=%s", "apply account %s", "apply tag %s", "apply year %s", "apply fixed %s $1", "end apply", "end", "bucket %s", "A %s", "comment", "end comment",
              "test", "end test", "commodity %s", "    format %s", "    alias %s", "    default", "    note %s", "    nomarket", "define %s=%s", "def %s=%s", "include %s", "payee %s",
              "    uuid %s", "tag %s", "    check %s", "    assert %s", "year %s", "Y %s", "Y", "P %s %s %s", "D %s", "N %s", "C %s = %s", "i %s %s", "o %s %s", "I %s %s", "O %s",
              "h %s", "b %s", "= %s", "~ %s", "--%s", "-%s", "assert %s", "check %s", "expr %s", "eval %s", "value %s", "python", "import %s", "tag", "account", "alias", "apply", "payee",
              "commodity", "define", "include", "%s", "* %s", "| %s", "# %s", "; %s", "!include %s", "@alias %s=%s", "!end"]


def g_arg(rng):
    r = rng.random()
    if r < 0.2:
        return g_date(rng)
    if r < 0.4:
        return g_amount(rng)
    if r < 0.55:
        return g_expr(rng, 2)
    if r < 0.65:
        return g_period(rng)
    if r < 0.75:
        return g_word(rng, g_len(rng))
    if r < 0.8:
        return g_format(rng)
    return rng.choice(["Assets:Cash", "Expenses:Food", "A", "B:C:D", "", " ", ":", "::", "A::B", ":A", "A:", "$", "EUR", "\"", "(", "[", "=", "2020", "12:00:00", "2020/01/01 12:00:00"])


def g_note(rng):
    r = rng.random()
    if r < 0.25:
        return "; [" + rng.choice(["2", "=", "2020/01/01", "=2020/01/02", "2020/01/01=2020/02/01"]) + rng.choice(["", "0" * rng.choice([1, 10, 100, 200, 240, 250])]) + rng.choice(["]", "", "]]"])
    if r < 0.5:
        return "; " + ":" + ":".join(g_word(rng, rng.choice([1, 3, g_len(rng)])) for _ in range(rng.randint(1, 5))) + ":"
    if r < 0.75:
        return "; " + g_word(rng, rng.choice([1, 4, g_len(rng)])) + rng.choice([": ", ":: ", ":", "::"]) + rng.choice([g_word(rng, g_len(rng)), g_expr(rng, 2), g_date(rng), g_amount(rng)])
    return "; " + g_word(rng, g_len(rng), "abc :[]=;0123456789")


def _calm(rng, e):
    """`==` in a posting amount hangs the parser (fixed probe C11:hang:parser.cc:parse_logic_expr:no-assign-equal): do not spend
    the run's time budget rediscovering it in nine cases out of ten."""
    return e if rng.random() < 0.1 else e.replace("==", "<=")


def g_xact(rng):
    head = g_date(rng) + rng.choice(["", "=" + g_date(rng)]) + rng.choice([" ", " * ", " ! ", "  "]) + rng.choice(["", "(" + g_word(rng, rng.choice([2, g_len(rng)])) + ") "]) + \
        g_word(rng, rng.choice([5, g_len(rng)]), "abcdefgh IJK|;") + rng.choice(["", "  " + g_note(rng)])
    lines = [head]
    for _ in range(rng.choice([0, 1, 2, 2, 2, 3, 6])):
        acct = rng.choice(["Assets:Cash", "Expenses:Food", "(Virtual)", "[Balanced:V]", "Income", "A:" + g_word(rng, g_len(rng)), g_word(rng, g_len(rng)) + ":x", "(", "[", "A  B", "Équité:Ouvert"])
        st = rng.choice(["", "", "* ", "! "])
        amt = rng.choice(["", "  " + g_amount(rng), "  (" + _calm(rng, g_expr(rng, 2)) + ")", "\t" + g_amount(rng), " " + g_amount(rng)])
        note = rng.choice(["", "", "  " + g_note(rng)])
        lines.append(rng.choice(["    ", "\t", " ", "  "]) + st + acct + amt + note)
        if rng.random() < 0.15:
            lines.append("    " + g_note(rng))
    return "\n".join(lines)


def g_journal(rng):
    parts = []
    for _ in range(rng.randint(1, 8)):
        r = rng.random()
        if r < 0.55:
            parts.append(g_xact(rng))
        else:
            d = rng.choice(DIRECTIVES)
            n = d.count("%s")
            parts.append(d % tuple(g_arg(rng) for _ in range(n)))
            if rng.random() < 0.3:
                parts.append("    " + rng.choice(["Assets:Cash  $1", "Expenses:Food  (amount * 2)", "$account  $1", _calm(rng, g_arg(rng)), "; " + g_word(rng, 5) + ": " + g_arg(rng)]))
    return "\n".join(parts) + rng.choice(["\n", "", "\n\n"])


def mutate(rng, text):
    """Structure-aware mutation of a journal (str with surrogateescape) -> bytes."""
    lines = text.split("\n")
    for _ in range(rng.choice([1, 1, 2, 3, 5])):
        if not lines:
            lines = [""]
        k = rng.randrange(len(lines))
        l = lines[k]
        r = rng.random()
        if r < 0.08:
            del lines[k]
        elif r < 0.14:
            lines.insert(k, l)
        elif r < 0.2 and len(lines) > 1:
            j = rng.randrange(len(lines))
            lines[k], lines[j] = lines[j], lines[k]
        elif r < 0.28:
            lines[k] = l[:rng.randint(0, len(l))]
        elif r < 0.34 and k + 1 < len(lines):
            lines[k] = l + lines.pop(k + 1)
        elif r < 0.44:
            # pad the line to a length around the limits
            n = rng.choice([1022, 1023, 1024, 4093, 4094, 4095, 4096, 4097, 8190, 8191, 8192, 8193, 12000])
            pad = rng.choice(["x", " ", "1", ":", "A:", ";", "\t"])
            lines[k] = (l + pad * n)[:n] if rng.random() < 0.7 else (pad * n + l)[:n]
        elif r < 0.56:
            # replace one number / word by a long token
            toks = list(re.finditer(r"[0-9][0-9.,]*|[A-Za-z][A-Za-z]+", l))
            if toks:
                m = rng.choice(toks)
                ch = "1" if m.group(0)[0].isdigit() else rng.choice(["a", "A", "é"])
                lines[k] = l[:m.start()] + ch * g_len(rng) + l[m.end():]
        elif r < 0.66:
            lines[k] = l + "  " + g_note(rng)
        elif r < 0.74:
            d = rng.choice(DIRECTIVES)
            lines.insert(k, d % tuple(g_arg(rng) for _ in range(d.count("%s"))))
        elif r < 0.8:
            lines.insert(k, g_xact(rng))
        elif r < 0.86:
            m = re.search(r"\s{2,}\S.*$", l)
            if m:
                lines[k] = l[:m.start()] + "  " + rng.choice([g_amount(rng), "(" + _calm(rng, g_expr(rng, 1)) + ")"])
        elif r < 0.9:
            n = rng.choice([1, 5, 50, 300])
            lines[k] = l.replace("(", "(" * n, 1).replace(")", ")" * n, 1) if "(" in l else l + " " + "(" * n + "1" + ")" * n
        else:
            lines[k] = l + rng.choice(["{", "}", "[", "]", "(", ")", "\"", "'", "@", "@@", "=", ";", "\\", "%", "\t", "  ", " ; :", "::"])
    b = "\n".join(lines).encode("utf-8", "surrogateescape")
    r = rng.random()
    if r < 0.12 and b:
        b = b[:rng.randint(0, len(b))]                         # truncated file
    elif r < 0.3 and b:
        ba = bytearray(b)
        for _ in range(rng.choice([1, 2, 5, 20])):
            if not ba:
                ba = bytearray(b"\n")
            p = rng.randrange(len(ba))
            op = rng.random()
            if op < 0.4:
                ba[p] = rng.choice([0, 9, 10, 13, 27, 127, 128, 0xc3, 0xe2, 0xff, 0xfe, 0xef, rng.randrange(256)])
            elif op < 0.7:
                ba.insert(p, rng.choice([0, 10, 13, 0xff, 0xc0, 0xef, 0xbb, 0xbf, rng.randrange(256)]))
            else:
                del ba[p]
        b = bytes(ba)
    elif r < 0.33:
        b = b"\xef\xbb\xbf" + b
    elif r < 0.36:
        b = b.replace(b"\n", b"\r\n")
    return b


def fuzz(ctx, n_cases, binary, asan, items):
    rng = ctx.rng
    t_start = time.time()
    cases = []
    all_cmds = [c for it in items for c in it[2]]
    for i in range(n_cases):
        r = rng.random()
        if r < 0.5 and items:
            name, text, cmds = rng.choice(items)
            j = mutate(rng, text)
            args = g_args(rng, cmds or all_cmds)
            cases.append(Case(args, j, kind="mutated:" + name))
        elif r < 0.7:
            cases.append(Case(g_args(rng, all_cmds), g_journal(rng), kind="grammar:journal"))
        elif r < 0.93:
            args = g_args(rng, None)
            cases.append(Case(args, BASE_JOURNAL if rng.random() < 0.8 else None, kind="grammar:" + (args[0] if args else "none")))
        else:
            # REPL / script input
            lines = []
            # several commands in one session share report state: sequences are explored in the thorough tier only
            for _ in range(rng.randint(1, 6) if REPL_SEQUENCES[0] else 1):
                a = g_args(rng, None)
                lines.append(" ".join(("'%s'" % x.replace("'", "") if (" " in x or not x) else x) for x in a))
            cases.append(Case([], BASE_JOURNAL, stdin="\n".join(lines) + "\n", kind="grammar:repl"))
    # every verb and pre-command at least once on a known-good journal
    for v in VERBS + PRE:
        cases.append(Case([v], BASE_JOURNAL, kind="verb:" + v))
    cases = [c for c in cases if all("\x00" not in a and len(a) < 120000 for a in c.args) and sum(len(a) for a in c.args) < 1500000]
    outs = vflib.pmap(lambda c: run_case(c, binary, timeout=FUZZ_TIMEOUT[0], asan=asan), cases)
    failing = []
    for c, o in zip(cases, outs):
        ctx.count()
        ctx.feature("gen:" + c.kind.split(":")[0])
        if c.args:
            ctx.feature("verb:" + c.args[0][:12]) if c.args[0] in VERBS + PRE else None
        if c.size() > 4096:
            ctx.feature("input>4096B")
        bad = o.bad()
        if bad or o.rc == -signal.SIGKILL:
            failing.append((c, o))
            continue
        rc = o.rc
        ctx.feature("rc:" + ("0" if rc == 0 else "err" if rc and rc > 0 else str(rc)))
        if rc and rc > 0 and not o.err.strip() and not o.out.strip():
            ctx.feature("silent-nonzero-exit")
        ctx.traces_validated += 1
        if rc is not None and (c.size() > 300 or rc > 0):
            ctx.nontrivial(c.key())
    ctx.extra_cov["fuzz_failing_runs"] = ctx.extra_cov.get("fuzz_failing_runs", 0) + len(failing)
    vflib.log("C11: %d generated runs in %.1fs, %d failing" % (len(cases), time.time() - t_start, len(failing)))
    handle_failures(ctx, failing, binary, asan)
    vflib.log("C11: failures handled at %.1fs" % (time.time() - ctx.t0))
    if cases:
        ctx.sample({"kind": cases[0].kind, "args": [a[:80] for a in cases[0].args], "journal_head": (cases[0].journal or b"")[:160].decode("latin-1")}, cap=6)


# ---------------------------------------------------------------------------


def asan_fresh():
    """Path of the ASan binary if it exists and is newer than every source file (quick tier never builds it)."""
    p = os.path.join(vflib.BUILD, "asan", "ledger")
    if not os.path.exists(p):
        return None
    mt = os.path.getmtime(p)
    for f in glob.glob(os.path.join(REPO, "src", "*")) + [os.path.join(REPO, "CMakeLists.txt")]:
        if os.path.getmtime(f) > mt:
            return None
    return p


def run(tier, seed):
    global WORK
    ctx = Check("C11", tier, seed)
    ctx.mism = []
    ctx.asan_binary = None
    ctx.rule = ("(1) every site of the extracted buffer table: payloads of limit-1, limit, limit+1 bytes and random lengths, model bytes-written vs ledger's own output; "
                "(2) the model's witnesses for every unbounded site/loop replayed on the binary; (3) supporting evidence: structure-aware mutations of test/baseline, "
                "test/regress, test/input and manual examples, grammar-generated journals, expressions, queries, periods, formats, option values, REPL lines, every command verb, "
                "each under a 10 s timeout and rlimits. non-trivial = a boundary/escape payload whose observation matched the model, a replayed witness, or a generated "
                "run that is > 300 bytes of input or ends in an error; distinct by content hash")
    ctx.assumptions = ["PARTIAL: only the listed bounded-copy routines and loops are proved; everything else is exercised (supporting evidence)",
                       "quick tier: native binary only (small overflows are silent without ASan)",
                       "asserts are compiled in (NO_ASSERTS off): account.cc find_account relies on one",
                       "copies bounded by a library count (getline/fgets/snprintf/strftime/read/memcpy) are trusted to respect that count"]
    WORK = tempfile.mkdtemp(prefix="c11-")
    try:
        ok = ctx.prepare()
        if not ok:
            return ctx.finish()
        native = vflib.LEDGER
        deep = tier == "thorough" or bool(ctx.ties_broken)     # a broken obligation widens every stream
        asan_bin = None
        if tier == "thorough":
            asan_bin, lg = vflib.ensure_ledger("asan")
            if asan_bin is None:
                ctx.tie_broken("build:asan", lg[-1500:])
        else:
            asan_bin = asan_fresh()
        ctx.asan_binary = asan_bin
        ctx.extra_cov["asan_binary"] = bool(asan_bin)
        DEADLINE[0] = ctx.t0 + (120 if tier == "quick" else 1500)
        FUZZ_TIMEOUT[0] = 6 if tier == "quick" else 10
        REPL_SEQUENCES[0] = tier == "thorough"
        sites, maxline, fmt_bs, zero_rejected = model_sites()
        ctx.extra_cov["period_zero_rejected_by_parser"] = zero_rejected
        ctx.sites = sites
        ctx.maxline = maxline
        ctx.extra_cov["sites"] = len(sites)
        ctx.extra_cov["sites_proved_in_bounds"] = len([s for s in sites if s["fits"]])
        vflib.log("C11: prepared in %.1fs; %d sites, asan binary: %s" % (time.time() - ctx.t0, len(sites), bool(asan_bin)))
        replay_witnesses(ctx, sites, fmt_bs, native, asan_bin)
        vflib.log("C11: witnesses replayed at %.1fs" % (time.time() - ctx.t0))
        correspondence(ctx, sites, maxline, native, False, deep)
        vflib.log("C11: site correspondence done at %.1fs" % (time.time() - ctx.t0))
        if tier == "thorough" and asan_bin:
            correspondence(ctx, sites, maxline, asan_bin, True, False)
        alias_correspondence(ctx, native, False, 400 if deep else 80)
        run_probes(ctx, native, False)
        boundary_streams(ctx, native, False)
        if tier == "thorough":
            run_probes(ctx, native, False, PROBES_THOROUGH)
        if tier == "thorough" and asan_bin:
            run_probes(ctx, asan_bin, True)
            run_probes(ctx, asan_bin, True, PROBES_THOROUGH)
            boundary_streams(ctx, asan_bin, True)
        vflib.log("C11: probes done at %.1fs" % (time.time() - ctx.t0))
        # step.to model sanity against its theorem on a few values (pure model; the binary side is C13's)
        items = corpus()
        ctx.extra_cov["corpus_journals"] = len(items)
        vflib.log("C11: alias correspondence done at %.1fs; corpus %d journals" % (time.time() - ctx.t0, len(items)))
        if tier == "quick":
            fuzz(ctx, 8000 if not deep else 20000, native, False, items)
        else:
            fuzz(ctx, 100000, native, False, items)
            if asan_bin:
                fuzz(ctx, 50000, asan_bin, True, items)
        if ctx.mism:
            ctx.extra_cov["mismatches"] = ctx.mism[:10]
        ctx.feature("slow-under-load", LOADSTATS["slow-under-load"])
        ctx.feature("killed-under-load", LOADSTATS["killed-under-load"])
        ctx.extra_cov["reference_run_s"] = LOADSTATS["reference_run_s"][:20]
        return ctx.finish()
    finally:
        shutil.rmtree(WORK, ignore_errors=True)


def replay(obj):
    global WORK
    r = obj.get("replay") or {}
    c = r.get("case")
    if not c or "args" not in c:
        print(json.dumps(obj, indent=1)[:3000])
        return 1
    WORK = tempfile.mkdtemp(prefix="c11-replay-")
    try:
        vflib.ensure_ledger()
        case = Case.from_json(c)
        bins = [("native", vflib.LEDGER, False)]
        ab = asan_fresh()
        if ab:
            bins.append(("asan", ab, True))
        bad_any = False
        for name, b, is_asan in bins:
            o = run_case(case, b, asan=is_asan)
            print("%s: rc=%s %s" % (name, o.rc, o.bad() or "clean"))
            tail = o.err.decode("utf-8", "replace").strip().split("\n")
            print("   " + "\n   ".join(tail[:6]))
            bad_any = bad_any or bool(o.bad())
        print("args:", [a[:100] + ("…(%d bytes)" % len(a) if len(a) > 100 else "") for a in case.args])
        return 1 if bad_any else 0
    finally:
        shutil.rmtree(WORK, ignore_errors=True)
