"""C12 — errors are located, counted and never yield a partial report.

Theorems: lean/LedgerModel/Props/C12.lean over the loader model of
Model/Errors.lean (fold over top-level items and include trees; report
suppression; exit status = Gen.exitStatusExpr composed with the 8-bit
truncation of the OS).  Tie: tools/extract_errors.py regenerates
Gen/ExitStatus.lean (exit-status expression of main.cc, accounting shapes of
textual.cc / session.cc / global.cc, context strings of error.cc) and this
check runs the model (driver op errors.run) and the rebuilt binary on the same
real directory trees of journals with injected faults.

Oracle on the implementation (pure Python, independent of the Lean model):
status != 0 iff some injected fault is an error under the checking style; one
`While parsing file "F", line N` record per such fault, in reading order, with
the fault's file, its include chain, N inside the fault's line range (and
`lines A-B` equal to the range when ledger prints one); stdout empty when there
is a fault; clean input => no record, no `Error`, status 0.
"""
import os, re, json, copy, shutil, tempfile, hashlib
from fractions import Fraction
import vflib, jgen
from vflib import Check

MANIFEST = dict(
    text="Machine-checked proof (Lean 4) over a model of ledger's journal loader (instance_t::parse error accounting with the "
         "error_flag swallowing, include trees adding child counts, read_textual's error_count, session's per-file loop, report "
         "suppression, exit status = the expression re-extracted from main.cc composed with 8-bit truncation) that, for every "
         "checking style and every tree of items/includes of any size: error count = number of invalid items, the k-th record "
         "names the k-th invalid item's file, include chain and a line inside its range, any invalid item empties stdout, valid "
         "input gives no record and status 0; `status != 0 iff error` is proved for every non-wrapping status expression and "
         "refuted (witness 256) for a raw count; which of the two holds is decided by the shape re-extracted from main.cc "
         "(C12.status_flag). The shapes and the bodies of the loader / known-name routines are re-extracted on every run; the "
         "model is diffed against the rebuilt binary on real directory trees with 1-300 injected faults of ten kinds under "
         "default / --strict / --pedantic — unknown accounts, commodities, payees and tags in every relation to the declared "
         "names (under a declared parent, sibling or child of a declared leaf, undeclared ancestor, other letter case, near "
         "miss, declared after first use, known only through a P/N line) — and an independent Python oracle on ledger's own "
         "status/stderr/stdout finds the failing input.",
    note="Trusted/assumed: the OS keeps the low 8 bits of main()'s return value; fault classification (which text is unbalanced, "
         "a bad date, ...) is given by the generator and checked against the binary, not proved (C01/C09/C14 own it); the report "
         "command itself succeeds on valid input; unknown payees need --check-payees in addition to --pedantic. Findings: exit "
         "status wrapped at 256 errors (main.cc, fixed); with several -f files the files after the first faulty one were not "
         "read (session.cc, fixed); under --pedantic a commodity that occurs only in a cost (@, @@) or in a lot price ({...}) "
         "is never checked, so such an undeclared commodity gets no message (textual.cc parse_post).",
    technique="Lean 4 proof over a loader model + regenerated exit-status/accounting shapes + differential model/binary check on "
              "generated journal trees with an independent stderr/status oracle",
    ref="DESIGN.md §5 C12")

COMMS = jgen.STD_COMMS[:3]
ERR_KINDS = ["unbalanced", "badDate", "badAmount", "failedAssert", "badDirective"]
NAME_KINDS = ["unknownAccount", "unknownCommodity", "unknownPayee", "unknownTag"]
ALL_KINDS = ERR_KINDS + NAME_KINDS
MODE_FLAGS = {"normal": [], "strict": ["--strict"], "pedantic": ["--pedantic"]}
CMDS = [["print"], ["reg"], ["bal", "--empty"]]
BAD_DATES = ["2020/13/45", "2020/02/30", "2020/00/10", "2019/04/31", "2020/1/1/1", "20200101"]
BAD_AMOUNTS = ["$1.2.3", "1.2.3 EUR", "$", "$-", "1..2 EUR", "EUR", "$1,2.3.4", "(1", "$1.00."]
BAD_DIRS = ["P 2020/13/45 AAA $1", "include nothere-%d.dat", "apply", "end", "Y", "commodity", "account", "P 2020/01/01 AAA"]
OK_DIRS = ["; a comment %d", "# note %d", "P 2020/01/02 EUR $1.1%d", "* org heading %d"]
UNKNOWN_COMM = jgen.Commodity("ZQX", 0)
# Names that are NOT declared, by how they relate to what IS declared (Builder.declarations):
# the `known` state lives in per-object flags / sets (ACCOUNT_KNOWN on account_t objects created by
# account_t::find_account, COMMODITY_KNOWN on commodity_t, journal_t::known_payees / known_tags),
# so every way a name can sit next to a known one is a branch of its own.
ACCT_VARIANTS = {
    "fresh": ["Zzz:Unknown%d"],
    "under-declared-parent": ["Expenses:Fodo%d", "Income:Bonus%d", "Expenses:Fodo%d:Deeper"],
    "sibling-of-declared-leaf": ["Assets:Bank:Chequing", "Expenses:Foods", "Expenses:Food:In"],
    "child-of-declared-leaf": ["Assets:Cash:Wallet", "Expenses:Food:Out:Late%d", "Equity:Opening:Sub"],
    "undeclared-ancestor": ["Assets:Bank", "Assets", "Liabilities", "Equity"],
    "case": ["assets:cash", "EXPENSES:FOOD", "Expenses:food", "expenses", "Assets:CASH"],
}
COMM_VARIANTS = {"fresh": ["ZQX"], "case": ["eur", "Eur", "aaa", "ppp"], "near": ["EURO", "EU", "AAAA"]}
PAYEE_VARIANTS = {"fresh": ["stranger %d"], "case": ["Payee 1", "PAYEE 2"], "near": ["payee 13", "payee", "payee 1x"]}
TAG_VARIANTS = {"fresh": ["Nope%d"], "case": ["project", "PROJECT", "receipt"], "near": ["Projec", "Projects", "Receipt2"]}
UNCHECKED_VARIANTS = ("cost", "cost-total", "lot")
FP_COST = "C12:textual.cc:cost-commodity-unchecked"
FP_LOT = "C12:textual.cc:lot-price-commodity-unchecked"
DECL_PARENTS = ["Expenses", "Income"]           # declared non-leaf accounts
DECL_TAGS = ["Project", "Receipt"]
P_KNOWN, N_KNOWN = jgen.Commodity("PPP", 0), jgen.Commodity("NMK", 0)   # known through a `P` line / an `N` line only


def letters(n):
    s = ""
    n += 1
    while n:
        n, r = divmod(n - 1, 26)
        s = chr(65 + r) + s
    return s
HUGE = 10 ** 15 + 7


def sev(kind, mode, cp):
    """Independent restatement: is this kind an error / a warning / nothing under the options?"""
    if kind == "valid":
        return "none"
    if kind in ERR_KINDS:
        return "error"
    if kind == "unknownPayee" and not cp:
        return "none"
    assert kind in NAME_KINDS, kind
    return {"normal": "none", "strict": "warn", "pedantic": "error"}[mode]


# ---------------------------------------------------------------------------
# building trees


def P(acct, q, c, kind="real"):
    return {"account": acct, "kind": kind, "state": 0, "amount": jgen.amt(Fraction(q), c) if q is not None else None,
            "cost": None, "assert": None, "note": ""}


class Builder:
    def __init__(self, rng):
        self.rng = rng
        self.gen = jgen.Gen(rng, comms=COMMS)
        self.k = 0

    def nid(self):
        self.k += 1
        return self.k

    def mini(self, posts, payee="payee 1"):
        return {"date": jgen.day_of(2020, 1, 1) + self.rng.randint(0, 300), "aux": None, "state": 0, "code": "",
                "payee": payee, "note": "", "posts": posts}

    def valid(self, small=False):
        r = self.rng
        if small:
            x = self.mini([P("Assets:Cash", r.randint(1, 99), COMMS[0]), P("Expenses:Food", None, None)])
        else:
            x = self.gen.xact()
        return {"xact": x, "id": self.nid()}

    def decoy(self):
        """A valid transaction that sits right next to the unknown-name faults: a posting to a declared
        NON-LEAF account, a commodity known only through a `P` / `N` line, declared tags."""
        r = self.rng
        c0 = COMMS[0]
        what = r.choice(["parent", "p-known", "n-known", "tag-head", "tag-post", "tag-flag"])
        x = self.mini([P("Assets:Cash", r.randint(1, 99), c0), P("Expenses:Food", None, None)])
        if what == "parent":
            x["posts"][1]["account"] = r.choice(DECL_PARENTS)
        elif what == "p-known":
            x["posts"][0]["amount"] = jgen.amt(Fraction(r.randint(1, 9)), P_KNOWN)
        elif what == "n-known":
            x["posts"][0]["amount"] = jgen.amt(Fraction(r.randint(1, 9)), N_KNOWN)
        elif what == "tag-head":
            x["head_after"] = ["    ; %s: value %d" % (r.choice(DECL_TAGS), r.randint(1, 9))]
        elif what == "tag-post":
            x["posts"][0]["note"] = "%s: v%d" % (r.choice(DECL_TAGS), r.randint(1, 9))
        else:
            x["posts"][1]["note"] = ":%s:" % r.choice(DECL_TAGS)
        x["decoy"] = what
        return {"xact": x, "id": self.nid()}

    def okdir(self):
        return {"dir": {"kind": "valid", "text": self.rng.choice(OK_DIRS).replace("%d", str(self.rng.randint(1, 9)))},
                "id": self.nid()}

    def late(self, kind, x):
        """Declared AFTER its first use: returns (name, then-nodes); the then-nodes (the declaration and a
        valid later use, one shrinking unit) are placed later in the same file by mkfile()."""
        r = self.rng
        n = self.nid()
        c0 = COMMS[0]
        use = self.mini([P("Assets:Cash", r.randint(1, 99), c0), P("Expenses:Food", None, None)])
        if kind == "unknownAccount":
            name = "Late:Acct%d" % n
            d = "account " + name
            use["posts"][1]["account"] = name
        elif kind == "unknownCommodity":
            name = "LT" + letters(n)
            d = "commodity " + name
            use["posts"][0]["amount"] = jgen.amt(Fraction(3), jgen.Commodity(name, 0))
        elif kind == "unknownPayee":
            name = "late payee %d" % n
            d = "payee " + name
            use["payee"] = name
        else:
            name = "Late%d" % n
            d = "tag " + name
            use["posts"][0]["note"] = "%s: again" % name
        pid = self.nid()
        then = [{"dir": {"kind": "valid", "text": d}, "id": pid, "gap": r.choice([0, 1])},
                {"xact": use, "id": pid, "gap": 1}]
        return name, then

    def fault(self, kind, small=False, variant=None, allow_late=False, name=None):
        r = self.rng

        def pick(names):
            return name or r.choice(names)
        then = None
        if kind == "badDirective":
            t = r.choice(BAD_DIRS[:1] if small else BAD_DIRS)
            return {"dir": {"kind": "badDirective", "text": t.replace("%d", str(r.randint(1, 99)))}, "id": self.nid()}
        if kind == "unbalanced":
            if small:
                x = self.mini([P("Assets:Cash", 1, COMMS[0]), P("Expenses:Food", -2, COMMS[0])])
            else:
                x = self.gen.xact(balanced=False, off_by=r.choice([1, -1, 2, 10, -7]))
            x["fault"] = {"kind": kind}
        elif kind == "unknownCommodity":
            variant = variant or r.choice(list(COMM_VARIANTS) * 3 + (["late"] * 3 if allow_late else []) + list(UNCHECKED_VARIANTS))
            x = self.mini([P(r.choice(self.gen.accounts), r.randint(1, 50), UNKNOWN_COMM), P(r.choice(self.gen.accounts), None, None)])
            x["fault"] = {"kind": kind, "post": 0, "variant": variant}
            if variant == "late":
                cname, then = self.late(kind, x)
                x["posts"][0]["amount"] = jgen.amt(Fraction(r.randint(1, 50)), jgen.Commodity(cname, 0))
            elif variant in ("cost", "cost-total"):
                # the amount's commodity is declared, the commodity of the cost is not
                x["posts"][0]["amount"] = jgen.amt(Fraction(r.randint(1, 50)), COMMS[1])
                x["posts"][0]["cost"] = dict(jgen.amt(Fraction(r.randint(1, 9)), jgen.Commodity("CQZ", 0)), per_unit=variant == "cost")
            elif variant == "lot":
                x["posts"][0]["amount"] = jgen.amt(Fraction(r.randint(1, 50)), COMMS[1])
                x["fault"]["append"] = " {%d LQZ}" % r.randint(1, 9)
            else:
                x["posts"][0]["amount"] = jgen.amt(Fraction(r.randint(1, 50)), jgen.Commodity(pick(COMM_VARIANTS[variant]), 0))
        else:
            x = self.valid(small)["xact"]
            if kind == "badDate":
                x["fault"] = {"kind": kind, "text": r.choice(BAD_DATES)}
            elif kind == "unknownPayee":
                variant = variant or r.choice(list(PAYEE_VARIANTS) * 2 + (["late"] * 2 if allow_late else []))
                x["fault"] = {"kind": kind, "variant": variant}
                if variant == "late":
                    x["payee"], then = self.late(kind, x)
                else:
                    x["payee"] = pick(PAYEE_VARIANTS[variant]).replace("%d", str(r.randint(1, 9)))
            elif kind == "unknownTag":
                variant = variant or r.choice(list(TAG_VARIANTS) * 2 + (["late"] * 2 if allow_late else []))
                if variant == "late":
                    tname, then = self.late(kind, x)
                else:
                    tname = pick(TAG_VARIANTS[variant]).replace("%d", str(r.randint(1, 9)))
                where = r.choice(["head", "post", "flag"])
                # (an elided posting that balances several commodities is split and its note copied:
                #  a tag there would be looked at once per copy)
                i = r.choice([j for j, q in enumerate(x["posts"]) if q["amount"] is not None] or [0])
                if where == "head":
                    x["head_after"] = ["    ; %s: some value" % tname]
                elif where == "post":
                    x["posts"][i]["note"] = "%s: v" % tname
                else:
                    x["posts"][i]["note"] = ":%s:" % tname
                x["note"] = ""
                x["fault"] = {"kind": kind, "variant": variant, "where": where}
            else:
                # posting-level fault on a posting that carries an amount
                cands = [i for i, p in enumerate(x["posts"]) if p["amount"] is not None and
                         (kind != "failedAssert" or p["kind"] == "real")]
                if not cands:
                    x = self.mini([P("Assets:Cash", 3, COMMS[0]), P("Expenses:Food", None, None)])
                    cands = [0]
                i = r.choice(cands)
                p = x["posts"][i]
                if kind == "badAmount":
                    x["fault"] = {"kind": kind, "post": i, "text": r.choice(BAD_AMOUNTS)}
                elif kind == "failedAssert":
                    cm = {c.name: c for c in COMMS}[p["amount"]["comm"]]
                    p["assert"] = jgen.amt(Fraction(HUGE + r.randint(0, 9)), cm)
                    x["fault"] = {"kind": kind, "post": i}
                elif kind == "unknownAccount":
                    variant = variant or r.choice(list(ACCT_VARIANTS) * 2 + (["late"] * 3 if allow_late else []))
                    if variant == "late":
                        p["account"], then = self.late(kind, x)
                    else:
                        p["account"] = pick(ACCT_VARIANTS[variant]).replace("%d", str(r.randint(1, 5)))
                    x["fault"] = {"kind": kind, "post": i, "variant": variant}
                else:
                    raise ValueError(kind)
        nd = {"xact": x, "id": self.nid()}
        if then:
            nd["then"] = then
        return nd

    def declarations(self):
        """One-line directives that make every name the generator uses known."""
        ds = ["account " + a for a in self.gen.accounts] + ["account " + a for a in DECL_PARENTS] + \
             ["commodity " + c.sym() for c in COMMS] + ["payee payee %d" % i for i in range(1, 13)] + \
             ["tag " + t for t in DECL_TAGS] + ["P 2019/12/31 %s $2.00" % P_KNOWN.name, "N " + N_KNOWN.name]
        return [{"dir": {"kind": "valid", "text": t}, "id": self.nid(), "gap": 0, "decl": True} for t in ds]


def mkfile(rel, nodes, final_newline=True):
    """A file; the `then` nodes of late-declaration faults are placed after their fault (directly after it,
    or at the end of the file)."""
    out, tail = [], []
    for nd in nodes:
        out.append(nd)
        th = nd.pop("then", None)
        if th:
            if nd["id"] % 2:
                out += th
            else:
                tail += th
    return {"rel": rel, "nodes": out + tail, "final_newline": final_newline}


def include_node(b, rel, nodes, final_newline=True):
    return {"include": {"file": mkfile(rel, nodes, final_newline)}, "id": b.nid()}


def render_file(f):
    """Journal text of one file; fills line numbers into the AST (1-based)."""
    out = []
    for nd in f["nodes"]:
        if "xact" in nd:
            x = nd["xact"]
            base = jgen.render_xact(x, COMMS)
            after = x.get("after") or {}
            lines = [base[0]] + list(x.get("head_after") or [])   # `; Tag: value` lines under the header
            x["line"] = len(out) + 1
            for i, p in enumerate(x["posts"]):
                p["line"] = len(out) + len(lines) + 1
                lines.append(base[1 + i])
                lines += after.get(str(i), [])       # indented comment / metadata lines that continue the posting
            ft = x.get("fault")
            if ft:
                if ft["kind"] == "badDate":
                    good = jgen.date_text(x["date"])
                    assert lines[0].startswith(good)
                    lines[0] = ft["text"] + lines[0][len(good):]
                if "post" in ft:
                    ft["line"] = x["posts"][ft["post"]]["line"]
                    if "append" in ft:
                        lines[ft["line"] - x["line"]] += ft["append"]
                    if ft["kind"] == "badAmount":
                        q = dict(x["posts"][ft["post"]], amount=None, cost=None, note="")
                        q["assert"] = None
                        lines[ft["line"] - x["line"]] = jgen.render_post(q, COMMS) + "  " + ft["text"]
                else:
                    ft["line"] = x["line"]
            out += lines
            x["end_line"] = len(out)
        elif "dir" in nd:
            nd["dir"]["line"] = len(out) + 1
            out.append(nd["dir"]["text"])
        else:
            nd["include"]["line"] = len(out) + 1
            out.append("include " + nd["include"]["file"]["rel"])
        out += [""] * nd.get("gap", 1)
    if f.get("final_newline", True):
        return "\n".join(out) + "\n"
    while out and out[-1] == "":
        out.pop()
    return "\n".join(out)


def materialise(roots, d):
    """Assign absolute paths under d, render, return {abs path: text} (children included)."""
    files = {}

    def go(f, base):
        f["path"] = os.path.join(base, f["rel"])
        files[f["path"]] = render_file(f)
        for nd in f["nodes"]:
            if "include" in nd:
                go(nd["include"]["file"], os.path.dirname(f["path"]))
    for f in roots:
        go(f, d)
    return files


def flatten(f, chain=()):
    """The items of a file in reading order (includes expanded)."""
    for nd in f["nodes"]:
        if "xact" in nd:
            x = nd["xact"]
            ft = x.get("fault")
            yield dict(file=f["path"], chain=chain, first=x["line"], last=x["end_line"], id=nd["id"],
                       kind=ft["kind"] if ft else "valid", at=ft["line"] if ft else x["line"], xact=True,
                       variant=(ft or {}).get("variant"))
        elif "dir" in nd:
            dd = nd["dir"]
            yield dict(file=f["path"], chain=chain, first=dd["line"], last=dd["line"], id=nd["id"], kind=dd["kind"],
                       at=dd["line"], xact=False, variant=None)
        else:
            yield from flatten(nd["include"]["file"], chain + ((f["path"], nd["include"]["line"]),))


# does the source register the commodity of a cost / of a lot price? (set from the extractor in run())
SOURCE_CHECKS = {"cost": False, "cost-total": False, "lot": False}


def model_json(roots):
    def fj(f):
        ns = []
        for nd in f["nodes"]:
            if "xact" in nd:
                x = nd["xact"]
                ft = x.get("fault")
                y = {k: v for k, v in x.items() if k != "fault"}
                if ft and not (ft.get("variant") in UNCHECKED_VARIANTS and not SOURCE_CHECKS.get(ft["variant"])):
                    # (a commodity that only occurs in a cost / lot price is not looked at by the code as
                    #  extracted: the model, which mirrors the code, is told `valid`; the oracle is not)
                    y["fault"] = {"kind": ft["kind"], "line": ft["line"]}
                ns.append({"xact": y})
            elif "dir" in nd:
                ns.append({"dir": {"kind": nd["dir"]["kind"], "line": nd["dir"]["line"]}})
            else:
                ns.append({"include": {"line": nd["include"]["line"], "file": fj(nd["include"]["file"])}})
        return {"path": f["path"], "nodes": ns}
    return json.dumps({"roots": [fj(f) for f in roots]}, ensure_ascii=True, separators=(",", ":"))


def prune(roots, keep):
    """Deep copy keeping only the item nodes whose id is in `keep` (include nodes stay)."""
    def go(f):
        g = {k: v for k, v in f.items() if k not in ("nodes", "path")}
        g["nodes"] = []
        for nd in f["nodes"]:
            if "include" in nd:
                n2 = {k: v for k, v in nd.items() if k != "include"}
                n2["include"] = {"file": go(nd["include"]["file"])}
                g["nodes"].append(n2)
            elif nd["id"] in keep or nd.get("decl"):
                g["nodes"].append(copy.deepcopy(nd))
        return g
    return [go(f) for f in roots]


# ---------------------------------------------------------------------------
# running and observing


RE_WP = re.compile(r'^While parsing file "(.*)", line (\d+):$')
RE_IF = re.compile(r'^In file included from "(.*)", line (\d+):$')
RE_LINES = re.compile(r'^While balancing transaction from "(.*)", lines (\d+)-(\d+):$')
RE_WARN = re.compile(r'^Warning: ("(.*)", line (\d+):)')


def parse_stderr(err):
    """-> (records, warnings, stray); record = dict(ctx=[context lines], wp=[(file, line)], chain=[(file, line)],
    lines=(file, a, b)|None, what=str)."""
    recs, warns, cur = [], [], []
    for line in err.split("\n"):
        m = RE_WARN.match(line)
        if m:
            warns.append((m.group(1), m.group(2), int(m.group(3))))
            continue
        cur.append(line)
        if line.startswith("Error: "):
            r = dict(ctx=[], wp=[], chain=[], lines=None, what=line[7:])
            for l in cur:
                m1, m2, m3 = RE_WP.match(l), RE_IF.match(l), RE_LINES.match(l)
                if m1:
                    r["wp"].append((m1.group(1), int(m1.group(2))))
                    r["ctx"].append(l)
                elif m2:
                    r["chain"].append((m2.group(1), int(m2.group(2))))
                    r["ctx"].append(l)
                elif m3:
                    r["lines"] = (m3.group(1), int(m3.group(2)), int(m3.group(3)))
            recs.append(r)
            cur = []
    stray = [l for l in cur if l.strip()]
    return recs, warns, stray


def args_of(case, roots):
    a = []
    for f in roots:
        a += ["-f", f["path"]]
    return a + MODE_FLAGS[case["mode"]] + (["--check-payees"] if case["cp"] else []) + list(case["cmd"])


def observe(case, roots=None, keep_files=False):
    """Write the tree into a fresh directory, run ledger, parse. Returns an observation dict."""
    roots = copy.deepcopy(roots if roots is not None else case["roots"])
    d = tempfile.mkdtemp(prefix="c12-")
    try:
        files = materialise(roots, d)
        for p, t in files.items():
            os.makedirs(os.path.dirname(p), exist_ok=True)
            with open(p, "w", encoding="utf-8") as fh:
                fh.write(t)
        args = args_of(case, roots)
        rc, out, err = vflib.ledger_run(args, timeout=120)
    finally:
        shutil.rmtree(d, ignore_errors=True)
    recs, warns, stray = parse_stderr(err)
    items = [it for f in roots for it in flatten(f)]
    ob = dict(dir=d, roots=roots, rc=rc, out_bytes=len(out.encode("utf-8", "replace")), err=err, recs=recs, warns=warns,
              stray=stray, items=items, args=args)
    if keep_files:
        ob["files"] = {os.path.relpath(p, d): t for p, t in files.items()}
    return ob


def impl_line(case, ob):
    """The binary's behaviour in the format of driver op errors.run."""
    recs = ";".join("|".join(r["ctx"]) for r in ob["recs"])
    warns = ";".join(w[0] for w in ob["warns"])
    return "ok\t%s\t%d\t%d\t%s\t%s" % (ob["rc"], len(ob["recs"]), 1 if ob["out_bytes"] == 0 else 0, recs, warns)


def oracle(case, ob):
    """The property on ledger's own outputs. Returns list of (fingerprint, what).  When the only thing
    wrong is that unknown commodities occurring in a cost / lot price got no message, that is one
    finding, not also a status / partial-report failure."""
    res = oracle1(case, ob)
    if any(b[0] == "C12:session.cc:later-file-skipped" for b in res):
        # "files after the first faulty one are not read" and "an item of a later file got no record" look the
        # same on one run: drop the first faulty file and see whether the later faults are reported then
        mode, cp = case["mode"], case["cp"]
        src_roots = case["roots"] if len(case["roots"]) == len(ob["roots"]) else None
        idx = next((i for i, f in enumerate(ob["roots"])
                    if any(sev(it["kind"], mode, cp) == "error" for it in flatten(f))), None)
        if src_roots is not None and idx is not None:
            rest = [copy.deepcopy(f) for i, f in enumerate(ob["roots"])]
            rest[idx]["nodes"] = [nd for nd in rest[idx]["nodes"] if nd.get("decl")]   # keep only its declarations
            for f in rest:
                _strip_paths(f)
            ob2 = observe(case, rest)
            res2 = oracle1(case, ob2)
            if res2:
                res = [b for b in res if b[0] != "C12:session.cc:later-file-skipped"] + \
                      [b for b in res2 if b[0] not in [x[0] for x in res]]
    special = [b for b in res if b[0] in (FP_COST, FP_LOT)]
    if special and not oracle1(case, ob, drop=UNCHECKED_VARIANTS):
        return special
    return res


def _strip_paths(f):
    f.pop("path", None)
    for nd in f["nodes"]:
        if "include" in nd:
            _strip_paths(nd["include"]["file"])


def oracle1(case, ob, drop=()):
    mode, cp = case["mode"], case["cp"]
    faults = [it for it in ob["items"] if sev(it["kind"], mode, cp) == "error" and it.get("variant") not in drop]
    recs = ob["recs"]
    bad = []
    rc = ob["rc"]
    if rc is None or rc < 0:
        bad.append(("C12:abnormal-exit", "ledger ended abnormally (rc=%r) on a journal with %d faults" % (rc, len(faults))))
        return bad
    # 1. status
    if faults and rc == 0:
        if len(recs) > 0 and len(recs) % 256 == 0:
            bad.append(("C12:main.cc:exit-status-wrap",
                        "%d invalid items, %d error records on stderr, exit status 0 (the error count is returned as the "
                        "process status and wraps modulo 256)" % (len(faults), len(recs))))
        else:
            bad.append(("C12:status-zero-on-error", "%d invalid items but exit status 0" % len(faults)))
    if not faults and rc != 0:
        bad.append(("C12:status-nonzero-on-valid", "no invalid item but exit status %d" % rc))
    # 2. one located record per fault, in order
    if len(recs) != len(faults):
        fp = "C12:error-count"
        what = "%d invalid items but %d error records" % (len(faults), len(recs))
        if len(case["roots"]) > 1 and len(recs) < len(faults):
            # are the records exactly those of the files up to the first faulty one?
            first_bad = None
            for f in ob["roots"]:
                if any(it["file"] == f["path"] or (it["chain"] and it["chain"][0][0] == f["path"]) for it in faults):
                    first_bad = f["path"]
                    break
            upto = []
            for f in ob["roots"]:
                upto += [it for it in flatten(f) if sev(it["kind"], mode, cp) == "error" and it.get("variant") not in drop]
                if f["path"] == first_bad:
                    break
            if len(upto) == len(recs) and all(locate_error(it, r) is None for it, r in zip(upto, recs)):
                fp = "C12:session.cc:later-file-skipped"
                what = ("%d invalid items in %d -f files, but only the %d of the first faulty file are reported: files "
                        "after it are not read" % (len(faults), len(case["roots"]), len(recs)))
        if fp == "C12:error-count":
            k = first_mismatch(faults, recs)
            kind = faults[k]["kind"] if k < len(faults) else "extra"
            fp = "C12:error-count:" + kind
            v = faults[k].get("variant") if k < len(faults) else None
            if v in UNCHECKED_VARIANTS:
                fp = FP_LOT if v == "lot" else FP_COST
                what += "; the first item without a record uses an undeclared commodity only in its %s" % \
                        ("lot price" if v == "lot" else "cost")
            elif v:
                what += " (first item without its record: %s, variant %s)" % (kind, v)
        bad.append((fp, what))
    for k, (it, r) in enumerate(zip(faults, recs)):
        why = locate_error(it, r)
        if why:
            if any(b[0] == "C12:session.cc:later-file-skipped" for b in bad) or len(recs) != len(faults):
                break  # positions are shifted; the count failure is the report
            bad.append(("C12:location:" + it["kind"], "record %d (%s) for the %s item at %s lines %d-%d: %s" %
                        (k + 1, r["what"], it["kind"], os.path.relpath(it["file"], ob["dir"]), it["first"], it["last"], why)))
            break
    # 3. no partial report
    if faults and ob["out_bytes"] != 0:
        bad.append(("C12:partial-report", "%d invalid items but %d bytes on stdout" % (len(faults), ob["out_bytes"])))
    # 4. clean input
    if not faults:
        if recs or ob["stray"] or "Error" in ob["err"]:
            bad.append(("C12:message-on-valid", "no invalid item but stderr has an error message: %r" % ob["err"][:300]))
        if mode == "normal" and ob["err"].strip():
            bad.append(("C12:message-on-valid", "no invalid item, default checking style, but stderr is not empty: %r" % ob["err"][:300]))
    elif ob["stray"]:
        bad.append(("C12:stray-stderr", "text after the last `Error:` line: %r" % ob["stray"][:3]))
    return bad


def first_mismatch(faults, recs):
    for k, it in enumerate(faults):
        if k >= len(recs) or locate_error(it, recs[k]):
            return k
    return len(faults)


def locate_error(it, r):
    """None when record r is a correct location of item it, else the reason."""
    if len(r["wp"]) != 1:
        return "expected exactly one `While parsing file` line, found %d" % len(r["wp"])
    f, n = r["wp"][0]
    if f != it["file"]:
        return "names file %s" % f
    if not (it["first"] <= n <= it["last"]):
        return "names line %d, outside the item" % n
    if tuple(r["chain"]) != tuple(it["chain"]):
        return "include chain %r, expected %r" % (r["chain"], list(it["chain"]))
    if r["lines"] is not None:
        lf, a, b = r["lines"]
        if lf != it["file"] or a != it["first"] or b != it["last"]:
            return "`lines %d-%d` of %s is not the item's range" % (a, b, lf)
    return None


def case_key(case, ob):
    d = ob["dir"]
    return (case["mode"], case["cp"], tuple((os.path.relpath(it["file"], d), it["kind"], it["first"], it["last"], len(it["chain"]))
                                            for it in ob["items"] if it["kind"] != "valid" or it["xact"]))


# ---------------------------------------------------------------------------
# shrinking


def all_ids(roots):
    ids = []

    def go(f):
        for nd in f["nodes"]:
            if "include" in nd:
                go(nd["include"]["file"])
            elif not nd.get("decl") and nd["id"] not in ids:
                ids.append(nd["id"])
    for f in roots:
        go(f)
    return ids


def shrink(case, fp, max_tests=450):
    """ddmin over the item nodes, keeping the same oracle fingerprint."""
    def fails(ids):
        roots = prune(case["roots"], set(ids))
        ob = observe(case, roots)
        return any(b[0] == fp for b in oracle(case, ob))
    ids = all_ids(case["roots"])
    tests = 0
    # first: drop every valid item at once
    flat_valid = set()
    ob0 = observe(case)
    for it in ob0["items"]:
        if sev(it["kind"], case["mode"], case["cp"]) != "error":
            flat_valid.add(it["id"])
    cand = [i for i in ids if i not in flat_valid]
    if cand and len(cand) < len(ids) and fails(cand):
        ids = cand
    n = 2
    while len(ids) >= 2 and tests < max_tests:
        size = max(1, len(ids) // n)
        chunks = [ids[i:i + size] for i in range(0, len(ids), size)]
        comps = [[x for x in ids if x not in set(c)] for c in chunks]
        cands = [c for c in chunks if c and len(c) < len(ids)] + [c for c in comps if c and len(c) < len(ids)]
        res = vflib.pmap(fails, cands)
        tests += len(cands)
        hit = [c for c, r in zip(cands, res) if r]
        if hit:
            best = min(hit, key=len)
            n = 2 if best in chunks else max(n - 1, 2)
            ids = best
        elif size == 1:
            break
        else:
            n = min(len(ids), 2 * n)
    return prune(case["roots"], set(ids))


def report_violation(ctx, case, fp, what):
    small_roots = shrink(case, fp)
    ob = observe(case, small_roots, keep_files=True)
    still = [b for b in oracle(case, ob) if b[0] == fp]
    if not still:  # shrinking lost it (should not happen): report the original
        ob = observe(case, keep_files=True)
        still = [b for b in oracle(case, ob) if b[0] == fp] or [(fp, what)]
    d = ob["dir"]
    faults = [[os.path.relpath(it["file"], d), it["first"], it["last"], it["kind"]]
              for it in ob["items"] if sev(it["kind"], case["mode"], case["cp"]) == "error"]
    rel_args = [a.replace(d + "/", "") for a in ob["args"]]
    replay = {"files": ob["files"], "args": rel_args, "faults": faults, "label": case["label"],
              "observed": {"exit_status": ob["rc"], "error_records": len(ob["recs"]), "stdout_bytes": ob["out_bytes"],
                           "stderr_head": ob["err"][:600].replace(d + "/", "")},
              "how": "write the files into a directory, cd there, run: ledger --args-only " + " ".join(rel_args) + "; echo $?"}
    return ctx.violation(fp, still[0][1], replay)


# ---------------------------------------------------------------------------
# case generators


def layout(b, valids, faults, how, rng):
    """Arrange nodes into a list of root files according to the layout name."""
    r = rng
    for nd in valids + faults:
        nd["gap"] = r.choice([0, 1, 1, 1, 2])
    if how == "first":
        nodes = faults + valids
    elif how == "last":
        nodes = valids + faults
    elif how == "adjacent":
        for nd in faults:
            nd["gap"] = 0
        k = r.randint(0, len(valids))
        nodes = valids[:k] + faults + valids[k:]
    elif how == "spread":
        nodes = valids + faults
        r.shuffle(nodes)
    elif how == "included":
        # faults split over included files (nested), valid items everywhere
        nodes = list(valids)
        parts = r.randint(1, 3)
        chunks = [faults[i::parts] for i in range(parts)]
        for ci, ch in enumerate(chunks):
            if not ch:
                continue
            inner = ch + [b.valid(small=True) for _ in range(r.randint(0, 2))]
            r.shuffle(inner)
            for nd in inner:
                nd.setdefault("gap", 1)
            rel = r.choice(["inc%d.dat", "sub%d/inc.dat", "sub%d/deep/inc.dat"]) % ci
            node = include_node(b, rel, inner, final_newline=r.random() < 0.8)
            if r.random() < 0.4:   # one more level
                node = include_node(b, "lvl%d/mid.dat" % ci, [b.valid(small=True), node, b.okdir()])
                for nd in node["include"]["file"]["nodes"]:
                    nd.setdefault("gap", r.choice([0, 1]))
            node["gap"] = r.choice([0, 1])
            nodes.insert(r.randint(0, len(nodes)), node)
    else:
        raise ValueError(how)
    return nodes


def make_case(b, rng, kinds, n_faults, n_valid, how, mode, cp, cmd, label, small=False, decl=None, n_roots=1):
    valids = [(b.decoy() if rng.random() < 0.2 else b.valid(small=small)) if rng.random() < 0.9 else b.okdir()
              for _ in range(n_valid)]
    faults = [b.fault(rng.choice(kinds), small=small, allow_late=True) for _ in range(n_faults)]
    nodes = layout(b, valids, faults, how, rng)
    if decl is None:
        decl = mode != "normal" or rng.random() < 0.5
    if decl:
        nodes = b.declarations() + nodes
    if n_roots == 1:
        roots = [mkfile("main.dat", nodes, final_newline=rng.random() < 0.85)]
    else:
        # declarations stay in the first file; the rest is cut into consecutive pieces (reading order kept)
        head = [nd for nd in nodes if nd.get("decl")]
        rest = [nd for nd in nodes if not nd.get("decl")]
        cut = [len(rest) * i // n_roots for i in range(n_roots + 1)]
        roots = [mkfile("root%d.dat" % i, (head if i == 0 else []) + rest[cut[i]:cut[i + 1]]) for i in range(n_roots)]
    return dict(roots=roots, mode=mode, cp=cp, cmd=cmd, label=label)


def fault_last(nd):
    """Move the faulty posting of a posting-level fault to the end of its transaction."""
    x = nd.get("xact")
    if x and x.get("fault") and "post" in x["fault"]:
        i = x["fault"]["post"]
        x["posts"].append(x["posts"].pop(i))
        x["fault"]["post"] = len(x["posts"]) - 1
    return nd


def boundary_cases(b, rng, tier):
    """Deterministic shapes at the edges of the loader's branches: first item, last item without a
    trailing newline, adjacent faulty items, last line of an included file, the counts around the
    8-bit boundary, faults with indented continuation lines after them, empty files."""
    cs = []

    def style(kind):
        return ("normal", False, False) if kind in ERR_KINDS else ("pedantic", True, True)

    def mk(nodes, label, mode="normal", cp=False, decl=False, final_newline=True, roots=None, cmd=("print",)):
        if decl:
            nodes = b.declarations() + nodes
        return dict(roots=roots or [mkfile("main.dat", nodes, final_newline)], mode=mode, cp=cp, cmd=list(cmd),
                    label="edge:" + label)

    def gaps(nodes, g=None):
        for nd in nodes:
            nd["gap"] = rng.choice([0, 1]) if g is None else g
        return nodes
    for kind in ALL_KINDS:
        mode, cp, decl = style(kind)
        for small in (True, False):
            cs.append(mk(gaps([b.fault(kind, small), b.valid(True), b.valid(small)]), "first:" + kind, mode, cp, decl))
            cs.append(mk(gaps([b.valid(small), b.valid(True), fault_last(b.fault(kind, small))]), "last-nonl:" + kind, mode, cp,
                         decl, final_newline=False))
            cs.append(mk(gaps([fault_last(b.fault(kind, small))]), "only:" + kind, mode, cp, decl, final_newline=small))
    # every way an undeclared name can sit next to a declared one (per-object `known` flags / sets)
    table = [("unknownAccount", ACCT_VARIANTS), ("unknownCommodity", COMM_VARIANTS), ("unknownPayee", PAYEE_VARIANTS),
             ("unknownTag", TAG_VARIANTS)]
    for kind, variants in table:
        todo = [(v, n) for v, names in variants.items() for n in names] + [("late", None), ("late", None)]
        if kind == "unknownCommodity":
            todo += [(v, None) for v in UNCHECKED_VARIANTS]
        for k, (v, n) in enumerate(todo):
            for mode in ("pedantic", "strict"):
                nodes = [b.valid(True), b.decoy(), b.fault(kind, k % 2 == 0, variant=v, name=n), b.decoy(), b.valid(k % 2 == 0)]
                cs.append(mk(gaps(nodes), "name:%s:%s:%s" % (kind, v, n or "-"), mode, True, True, cmd=rng.choice(CMDS)))
        # the same names inside an included file, and a late declaration that sits in the including file
        for v in list(variants) + ["late"]:
            inner = gaps([b.decoy(), b.fault(kind, True, variant=v), b.valid(True)])
            inc = include_node(b, "names/%s.dat" % v, inner)
            inc["gap"] = 1
            cs.append(mk(gaps([b.valid(True)]) + [inc] + gaps([b.decoy()]), "name-included:%s:%s" % (kind, v), "pedantic", True, True))
    # decoys alone must be clean under every style
    for mode in ("normal", "strict", "pedantic"):
        cs.append(mk(gaps([b.decoy() for _ in range(12)]), "decoys:" + mode, mode, True, True, cmd=rng.choice(CMDS)))
    # two adjacent faulty items, every ordered pair of kinds
    for k1 in ALL_KINDS:
        for k2 in ALL_KINDS:
            both_err = k1 in ERR_KINDS and k2 in ERR_KINDS
            for mode, cp, decl in ([("normal", False, False)] if both_err else []) + [("pedantic", True, True)]:
                nodes = [b.valid(True), fault_last(b.fault(k1, True)), b.fault(k2, True), b.valid(True)]
                gaps(nodes, 0)
                nodes[0]["gap"] = rng.choice([0, 1])
                cs.append(mk(nodes, "adjacent:%s:%s" % (k1, k2), mode, cp, decl, final_newline=rng.random() < 0.5))
    # a fault in the last line of an included file
    for kind in ALL_KINDS:
        mode, cp, decl = style(kind)
        inner = gaps([b.valid(True), fault_last(b.fault(kind, True))], 0)
        inc = include_node(b, "inc/last.dat", inner, final_newline=False)
        inc["gap"] = 0
        k2 = rng.choice(ERR_KINDS)
        cs.append(mk(gaps([b.valid(True)]) + [inc] + gaps([b.fault(k2, True), b.valid(True)], 0), "incl-last-line:" + kind,
                     mode, cp, decl))
        inner2 = gaps([fault_last(b.fault(kind, True))], 0)
        deep = include_node(b, "d/deep.dat", inner2, final_newline=False)
        deep["gap"] = 0
        mid = include_node(b, "m/mid.dat", [deep], final_newline=False)
        mid["gap"] = 0
        cs.append(mk(gaps([b.fault(k2, True)]) + [mid], "incl-is-last-line:" + kind, mode, cp, decl, final_newline=False))
    # counts around the 8-bit boundary, every kind
    for kind in ALL_KINDS:
        mode, cp, decl = style(kind)
        for n in [1, 2, 255, 256, 257, 300] + ([511, 512, 513] if tier == "thorough" else []):
            nodes = [b.fault(kind, True) for _ in range(n)]
            gaps(nodes)
            cs.append(mk(nodes, "count:%s:%d" % (kind, n), mode, cp, decl, final_newline=n % 2 == 0))
    # faults followed by indented continuation lines (swallowed by error_flag)
    for kind in ["badDate", "badAmount", "failedAssert", "unknownAccount", "unknownCommodity", "unknownPayee", "unknownTag",
                 "unbalanced"]:
        mode, cp, decl = style(kind)
        for pos in (0, 1, 3):
            c0 = COMMS[0]
            posts = [P("Assets:Cash", 5, c0), P("Expenses:Food", 7, c0), P("Expenses:Rent", 11, c0),
                     P("Income:Salary", -23 if kind != "unbalanced" else -20, c0)]
            x = b.mini(posts)
            x["after"] = {str(i): ["        ; continuation %d.%d" % (i, j) for j in range(rng.randint(0, 2))] for i in range(4)}
            x["after"]["3"] = ["        ; trailing note"]
            if kind == "badDate":
                x["fault"] = {"kind": kind, "text": BAD_DATES[pos % len(BAD_DATES)]}
            elif kind == "unknownPayee":
                x["payee"] = "stranger 1"
                x["fault"] = {"kind": kind}
            elif kind == "unbalanced":
                x["fault"] = {"kind": kind}
            elif kind == "unknownTag":
                posts[pos]["note"] = "Nope: %d" % pos
                x["fault"] = {"kind": kind, "variant": "fresh"}
            elif kind == "badAmount":
                x["fault"] = {"kind": kind, "post": pos, "text": BAD_AMOUNTS[pos]}
            elif kind == "failedAssert":
                posts[pos]["assert"] = jgen.amt(Fraction(HUGE), c0)
                x["fault"] = {"kind": kind, "post": pos}
            elif kind == "unknownAccount":
                posts[pos]["account"] = "Zzz:Unknown1"
                x["fault"] = {"kind": kind, "post": pos}
            elif kind == "unknownCommodity":
                posts[pos]["amount"] = jgen.amt(Fraction(5), UNKNOWN_COMM)
                posts[(pos + 1) % 4]["amount"] = None   # lets the rest balance whatever the unknown commodity does
                x["fault"] = {"kind": kind, "post": pos}
            nd = {"xact": x, "id": b.nid(), "gap": rng.choice([0, 1])}
            cs.append(mk(gaps([b.valid(True)]) + [nd] + gaps([b.valid(True)]), "continuation:%s:%d" % (kind, pos), mode, cp, decl))
    # empty files
    cs.append(mk([], "empty-root", final_newline=False))
    cs.append(mk([{"dir": {"kind": "valid", "text": ""}, "id": b.nid(), "gap": 2}], "blank-lines-only"))
    cs.append(mk([b.okdir()], "comment-only"))
    e1 = include_node(b, "empty.dat", [], final_newline=False)
    cs.append(mk(gaps([b.valid(True)]) + [e1] + gaps([b.fault("unbalanced", True), b.valid(True)]), "include-empty-then-fault"))
    e2 = include_node(b, "e/empty.dat", [], final_newline=False)
    cs.append(mk([e2], "include-empty-only"))
    cs.append(mk(None, "roots:empty+faulty", roots=[mkfile("a.dat", [], False), mkfile("b.dat", gaps([b.fault("badDate", True)]))]))
    cs.append(mk(None, "roots:faulty+empty", roots=[mkfile("a.dat", gaps([b.fault("badAmount", True)])), mkfile("b.dat", [], False)]))
    cs.append(mk(None, "roots:clean+faulty", roots=[mkfile("a.dat", gaps([b.valid(True)])),
                                                      mkfile("b.dat", gaps([b.valid(True), b.fault("unbalanced", True)]))]))
    cs.append(mk(None, "roots:faulty+faulty", roots=[mkfile("a.dat", gaps([b.fault("unbalanced", True)])),
                                                       mkfile("b.dat", gaps([b.fault("unbalanced", True)]))]))
    return cs


def gen_cases(ctx, tier):
    rng = ctx.rng
    b = Builder(rng)
    cases = boundary_cases(b, rng, tier)
    ctx.extra_cov["boundary_cases"] = len(cases)
    # 1. bounded-exhaustive on the fault count, cheap kind, so that the 8-bit wrap is always in range
    for n in range(1, 301):
        how = ["adjacent", "last", "spread", "included", "first"][n % 5]
        cases.append(make_case(b, rng, ["unbalanced"], n, n % 4, how, "normal", False, ["print"], "exh:unbalanced:%d" % n,
                               small=True, decl=False))
    ctx.exhaustive = {"what": "fault count 1..300, kind unbalanced (3-line transactions), default checking style", "cases": 300}
    # 2. every kind x checking style x position, several counts
    counts = [1, 2, 3, 17, 64, 255, 256, 257, 300]
    k = 0
    for kind in ALL_KINDS + ["mixed"]:
        kinds = ALL_KINDS if kind == "mixed" else [kind]
        for mode in ("normal", "strict", "pedantic"):
            for how in ("first", "last", "adjacent", "spread", "included"):
                ns = counts if tier == "thorough" else [counts[k % 9], counts[(k + 4) % 9]]
                for n in ns:
                    k += 1
                    cp = kind in ("unknownPayee", "mixed") or rng.random() < 0.2
                    cases.append(make_case(b, rng, kinds, n, rng.randint(0, 8), how, mode, cp, rng.choice(CMDS),
                                           "grid:%s:%s:%s:%d" % (kind, mode, how, n), small=n > 40))
    # 3. random trees
    n_rand = 260 if tier == "quick" else 9000
    for i in range(n_rand):
        x = rng.random()
        n = 0 if x < 0.12 else rng.randint(1, 5) if x < 0.55 else rng.randint(6, 60) if x < 0.87 else rng.randint(200, 300)
        mode = rng.choice(["normal", "strict", "pedantic"])
        kinds = rng.sample(ALL_KINDS, rng.randint(1, len(ALL_KINDS)))
        how = rng.choice(["first", "last", "adjacent", "spread", "included", "included", "spread"])
        n_roots = 1 if rng.random() < 0.9 else rng.randint(2, 3)
        cases.append(make_case(b, rng, kinds, n, rng.randint(0, 25 if n < 100 else 5), how, mode, rng.random() < 0.5,
                               rng.choice(CMDS), "rand:%d" % i, small=n > 60, n_roots=n_roots))
    # 4. clean input (decoys that are not errors under the style included)
    for i in range(60 if tier == "quick" else 1500):
        mode = ["normal", "strict", "pedantic"][i % 3]
        kinds = NAME_KINDS if mode != "pedantic" else []
        n = rng.randint(0, 6) if kinds else 0
        cases.append(make_case(b, rng, kinds or ["unbalanced"], n, rng.randint(1, 30), rng.choice(["spread", "included"]),
                               mode, rng.random() < 0.5, rng.choice(CMDS), "clean:%d" % i))
    # 5. several -f files
    for i, (n_roots, n) in enumerate([(2, 2), (2, 5), (3, 3), (3, 9), (2, 1)] * (1 if tier == "quick" else 8)):
        cases.append(make_case(b, rng, ERR_KINDS, n, rng.randint(2, 6), "spread", "normal", False, ["print"],
                               "roots:%d:%d:%d" % (n_roots, n, i), n_roots=n_roots))
    return cases


MUTATIONS = ["delete", "dup", "garbage", "truncate", "swap", "indent", "dedent", "chop"]


def malformed_stream(ctx, tier):
    """Valid journals with random textual damage. No fault list exists, so only the
    relations among ledger's own outputs are checked."""
    rng = ctx.rng
    b = Builder(rng)
    texts = []
    for i in range(150 if tier == "quick" else 6000):
        f = mkfile("m.dat", [b.valid() for _ in range(rng.randint(2, 12))])
        lines = render_file(f).split("\n")
        muts = []
        for _ in range(rng.randint(1, 4)):
            m = rng.choice(MUTATIONS)
            muts.append(m)
            if not lines:
                break
            j = rng.randrange(len(lines))
            if m == "delete":
                del lines[j]
            elif m == "dup":
                lines.insert(j, lines[j])
            elif m == "garbage":
                lines.insert(j, "".join(rng.choice("ab 1;:$@=()[]/-.\t,*!") for _ in range(rng.randint(1, 30))))
            elif m == "truncate":
                lines = lines[:j + 1]
                lines[-1] = lines[-1][:rng.randint(0, len(lines[-1]))]
            elif m == "swap" and len(lines) > 1:
                k2 = rng.randrange(len(lines))
                lines[j], lines[k2] = lines[k2], lines[j]
            elif m == "indent":
                lines[j] = "    " + lines[j]
            elif m == "dedent":
                lines[j] = lines[j].lstrip()
            elif m == "chop":
                lines[j] = lines[j][:rng.randint(0, len(lines[j]))]
        texts.append(("\n".join(lines), muts))

    def one(tm):
        text, muts = tm
        d = tempfile.mkdtemp(prefix="c12m-")
        try:
            p = os.path.join(d, "m.dat")
            with open(p, "w", encoding="utf-8") as fh:
                fh.write(text)
            rc, out, err = vflib.ledger_run(["-f", p, "print"], timeout=60)
        finally:
            shutil.rmtree(d, ignore_errors=True)
        return p, rc, out, err
    res = vflib.pmap(one, texts)
    for (text, muts), (p, rc, out, err) in zip(texts, res):
        ctx.count()
        recs, warns, stray = parse_stderr(err)
        nlines = text.count("\n") + 1
        ctx.feature("malformed:" + ("error" if recs else "accepted"))
        if rc is None or rc < 0:
            ctx.feature("malformed:abnormal-exit(C11)")
            continue
        bad = None
        parse_recs = [r for r in recs if r["wp"]]
        if len(parse_recs) != len(recs):
            ctx.feature("malformed:non-parse-error")
        if recs and rc == 0:
            bad = ("C12:main.cc:exit-status-wrap" if len(recs) % 256 == 0 else "C12:status-zero-on-error",
                   "%d error records, exit status 0" % len(recs))
        elif not recs and rc != 0:
            bad = ("C12:status-nonzero-on-valid", "no error record but exit status %d" % rc)
        elif parse_recs and out:
            bad = ("C12:partial-report", "%d error records and %d bytes on stdout" % (len(recs), len(out)))
        elif not recs and (stray or "Error" in err):
            bad = ("C12:message-on-valid", "status 0 but stderr: %r" % err[:200])
        else:
            for r in parse_recs:
                if len(r["wp"]) != 1 or r["wp"][0][0] != p or not (1 <= r["wp"][0][1] <= nlines):
                    bad = ("C12:location:malformed", "record %r does not name a line of the file (%d lines)" % (r["wp"], nlines))
        if bad:
            ctx.violation(bad[0], bad[1] + " (malformed stream)",
                          {"files": {"m.dat": text}, "args": ["-f", "m.dat", "print"], "faults": None,
                           "observed": {"exit_status": rc, "error_records": len(recs), "stdout_bytes": len(out)},
                           "how": "ledger --args-only -f m.dat print; echo $?"})
        else:
            ctx.traces_validated += 1
            if recs:
                ctx.nontrivial(("malformed", hashlib.sha1(text.encode()).hexdigest()))


# ---------------------------------------------------------------------------


def run(tier, seed):
    ctx = Check("C12", tier, seed,
                trusted=["tools/extract_errors.py (exit-status expression, accounting shapes, context strings)",
                         "the OS keeps the low 8 bits of main()'s return value (exit(3), wait(2))",
                         "fault classification of generated items (checked against the binary, owned by C01/C09/C14)"])
    ctx.rule = ("real directory trees of journals (tools/jgen.py transactions) with 0-300 injected faults of nine kinds "
                "(unbalanced, bad date, bad amount, failed assertion, bad directive / missing include, unknown account / "
                "commodity / payee) at first / last / adjacent / spread / included positions, under default, --strict, "
                "--pedantic (+/- --check-payees), one to three -f files; bounded-exhaustive on the fault count 1..300; "
                "non-trivial = at least one item that is an error or warning under the style; distinct by (style, sequence of "
                "(file, kind, line range, include depth))")
    ctx.assumptions = ["exit status seen by the parent = main()'s return value mod 256",
                       "the report command succeeds on a journal that was read without error",
                       "static_cast<int>(std::size_t) is the identity below 2^31 errors"]
    have_model = ctx.prepare()
    try:
        import extract_errors
        kf = extract_errors.known_flag_sites()
        SOURCE_CHECKS.update({"cost": kf["cost_commodity_checked"], "cost-total": kf["cost_commodity_checked"],
                              "lot": kf["lot_commodity_checked"]})
    except Exception as e:  # noqa: BLE001  (already a broken tie through Gen/ErrorFns)
        vflib.log("C12: known_flag_sites: %s" % e)
    ctx.extra_cov["source_registers_cost_commodity"] = dict(SOURCE_CHECKS)
    if not os.path.exists(vflib.LEDGER) or any(t[0] == "build:ledger" for t in ctx.ties_broken):
        return ctx.finish()     # no binary of the current tree to observe
    if ctx.ties_broken:
        # a proof obligation / extractor / pin no longer checks: search mode, every stream at full width;
        # the oracle below needs the binary only
        vflib.log("C12: ties broken after prepare (%s): searching with the thorough streams" % [t[0] for t in ctx.ties_broken])
        tier = "thorough"
        ctx.extra_cov["search_mode"] = True
    shape = ["?"] * 5
    if have_model:
        try:
            shape = vflib.driver_run(["errors.shape"])[0].split("\t")
        except Exception as e:  # noqa: BLE001
            ctx.tie_broken("lean:driver", "errors.shape failed: %s" % e)
            have_model = False
    ctx.extra_cov["exit_status_shape"] = shape[1] if len(shape) > 1 else "?"
    ctx.extra_cov["full_statement_status_nonzero_iff_error"] = (
        "refuted in Lean for this tree (C12.status_wraps_counterexample applies: shape raw)" if shape[1:2] == ["raw"]
        else "proved for this tree (C12.status_nonzero_iff_error applies: shape %s)" % shape[1:2])
    ctx.extra_cov["stop_after_faulty_file"] = shape[4:5] == ["1"]

    cases = gen_cases(ctx, tier)
    # corpus first
    cdir = os.path.join(vflib.ROOT, "corpus", "C12")
    corpus = []
    if os.path.isdir(cdir):
        for fn in sorted(os.listdir(cdir)):
            if fn.endswith(".json"):
                with open(os.path.join(cdir, fn)) as fh:
                    corpus.append(json.load(fh))
    for obj in corpus:
        ctx.count()
        if replay(obj, quiet=True) != 0:
            ctx.violation(obj.get("fingerprint", "C12:corpus"), "corpus case fails again: " + obj.get("what", ""),
                          obj.get("replay", obj))

    obs = vflib.pmap(lambda c: observe(c), cases)
    lines = ["errors.run\t%s\t%d\t%s" % (c["mode"], 1 if c["cp"] else 0, model_json(ob["roots"])) for c, ob in zip(cases, obs)]
    model = [None] * len(cases)
    if have_model:
        try:
            model = vflib.driver_run(lines, timeout=1200)
        except Exception as e:  # noqa: BLE001
            ctx.tie_broken("lean:driver", "errors.run failed: %s" % e)
    pending = {}
    mism = []
    for c, ob, m in zip(cases, obs, model):
        ctx.count()
        mode, cp = c["mode"], c["cp"]
        items = ob["items"]
        sevs = [sev(it["kind"], mode, cp) for it in items]
        n_err, n_warn = sevs.count("error"), sevs.count("warn")
        ctx.feature("mode:" + mode)
        ctx.feature("cmd:" + c["cmd"][0])
        ctx.feature("layout:" + c["label"].split(":")[0])
        if len(c["roots"]) > 1:
            ctx.feature("roots>1")
        if any(it["chain"] for it in items if it["kind"] != "valid"):
            ctx.feature("fault-in-included-file")
        if any(len(it["chain"]) >= 2 for it in items):
            ctx.feature("include-depth>=2")
        for it, s in zip(items, sevs):
            if it["kind"] != "valid":
                ctx.feature("kind:%s:%s" % (it["kind"], s))
                if it.get("variant"):
                    ctx.feature("name:%s:%s" % (it["kind"], it["variant"]))
        ctx.feature("faults:" + ("0" if n_err == 0 else "1" if n_err == 1 else "2-9" if n_err < 10 else "10-99" if n_err < 100
                                 else "100-255" if n_err < 256 else "256" if n_err == 256 else "257-300"))
        # correspondence
        impl = impl_line(c, ob)
        if m is not None:
            mi, ii = m.split("\t"), impl.split("\t")
            has_valid_xact = any(it["kind"] == "valid" and it["xact"] for it in items) or \
                any(s != "error" and it["xact"] for it, s in zip(items, sevs))
            if len(mi) == 6 and mi[3] == "0" and ii[3] == "1" and not has_valid_xact:
                ii[3] = "0"   # a journal without any transaction has an empty report
            if mi != ii:
                ctx.tie_broken("corr:errors.run", "model and ledger disagree on %s (%s, cp=%s): model=%s ledger=%s" %
                               (c["label"], mode, cp, [x[:300] for x in mi], [x[:300] for x in ii]))
                mism.append({"label": c["label"], "model": [x[:200] for x in mi], "ledger": [x[:200] for x in ii]})
            else:
                ctx.traces_validated += 1
        # oracle
        for fp, what in oracle(c, ob):
            if fp not in pending or len(items) < pending[fp][2]:
                pending[fp] = (c, what, len(items))
        if n_err + n_warn > 0:
            ctx.nontrivial(case_key(c, ob))
        if n_err > 0:
            ctx.sample({"label": c["label"], "mode": mode, "faults": n_err, "exit_status": ob["rc"],
                        "records": len(ob["recs"]), "stdout_bytes": ob["out_bytes"],
                        "first_record": ob["recs"][0]["ctx"] and [x.replace(ob["dir"] + "/", "") for x in ob["recs"][0]["ctx"]] if ob["recs"] else None},
                       cap=5)
    for fp, (c, what, _) in sorted(pending.items()):
        report_violation(ctx, c, fp, what)
    ctx.extra_cov["oracle_failures"] = sorted(pending)
    if mism:
        ctx.extra_cov["mismatches"] = mism[:10]
    malformed_stream(ctx, tier)
    return ctx.finish()


def replay(obj, quiet=False):
    r = obj.get("replay", obj)
    if not isinstance(r, dict) or "files" not in r:
        if not quiet:
            print(json.dumps(obj, indent=1)[:2000])
        return 1
    vflib.ensure_ledger()
    d = tempfile.mkdtemp(prefix="c12r-")
    try:
        for rel, text in r["files"].items():
            p = os.path.join(d, rel)
            os.makedirs(os.path.dirname(p), exist_ok=True)
            with open(p, "w", encoding="utf-8") as fh:
                fh.write(text)
        rc, out, err = vflib.ledger_run(r["args"], cwd=d, timeout=120)
    finally:
        shutil.rmtree(d, ignore_errors=True)
    recs, warns, stray = parse_stderr(err)
    faults = r.get("faults")
    ok = True
    why = []
    if faults is None:
        if recs and rc == 0:
            ok = False; why.append("error records but exit status 0")
        if recs and out:
            ok = False; why.append("error records and a report on stdout")
    else:
        if faults and rc == 0:
            ok = False; why.append("%d invalid items, exit status 0" % len(faults))
        if not faults and rc != 0:
            ok = False; why.append("no invalid item, exit status %d" % rc)
        if len(recs) != len(faults):
            ok = False; why.append("%d invalid items, %d error records" % (len(faults), len(recs)))
        else:
            for (rel, a, b, kind), rec in zip(faults, recs):
                if len(rec["wp"]) != 1 or os.path.relpath(rec["wp"][0][0], d) != rel or not (a <= rec["wp"][0][1] <= b):
                    ok = False; why.append("record %r does not locate the %s item %s:%d-%d" % (rec["wp"], kind, rel, a, b)); break
        if faults and out:
            ok = False; why.append("invalid items and %d bytes on stdout" % len(out))
    if not quiet:
        print("args:", " ".join(r["args"]))
        print("invalid items:", "n/a" if faults is None else len(faults), " exit status now:", rc, " error records:", len(recs),
              " stdout bytes:", len(out))
        print("property holds on this input now" if ok else "property FAILS on this input: " + "; ".join(why))
    return 0 if ok else 1
