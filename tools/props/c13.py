"""C13 - period reports partition the timeline.

Theorems: lean/LedgerModel/Props/C13.lean over the interval machine of
Model/Period.lean (resolve_end, stabilize, find_period, operator++, the
interval_posts walk), for every date, duration length > 0, week start and
posting list.  Tie: Gen/PeriodKeywords.lean (keyword tables, `every` cases,
date_duration_t::add cases and the normalised bodies of the mirrored routines,
re-extracted from times.cc / times.h / filters.cc / report.cc on every run) and
this differential check of the model's executable definitions against

    ledger period "EXPR" --now D
    ledger -f J reg ^X --period "EXPR" [--align-intervals] [--start-of-week N] [--empty]

Implementation-side oracle (independent of the Lean model; plain Python with its
own calendar arithmetic): ledger's group rows must be consecutive and disjoint,
one duration long unless clipped at a stated bound, aligned as the property
says, every in-bounds posting must be counted in exactly the row whose range
contains its date, and the subtotals must add up to the unperiodised total.
"""
import os, re, sys, json, itertools, tempfile, shutil, datetime, subprocess
from fractions import Fraction
import vflib
from vflib import Check

MANIFEST = dict(
    text="Machine-checked proof (Lean 4) that ledger's interval machine (date_duration_t::add, find_nearest, "
         "date_interval_t::resolve_end/stabilize/find_period/operator++ and the interval_posts walk, modelled step by step) "
         "partitions the timeline: every duration step moves strictly forward (boost month arithmetic with end-of-month snap "
         "included), successive intervals are adjacent, every date inside the bounds lies in exactly one interval, starts are "
         "aligned to month/quarter/year/week starts (or anchored at the from date with --align-intervals), intervals are cut "
         "only at the stated bounds, each posting is put in the interval containing its date and the subtotals sum to the "
         "unperiodised total - for all dates, lengths > 0, week starts and posting lists, no bound. The keyword tables, the "
         "`every` cases, date_duration_t::add and the text of the mirrored routines are re-extracted from the source on every "
         "run; the model is run against the rebuilt binary (`ledger period`, `reg --period`) over all quanta x lengths 1-12, "
         "named forms, from/to/in bounds, 7 week starts, align on/off, --empty on/off; an independent Python oracle on "
         "ledger's own rows supplies the failing input when a proof or the tie breaks.",
    note="Guard of every theorem: 0 < length. For length 0 the termination measure of the stabilize loop does not decrease "
         "(C13.zero_length_diverges); the parser therefore has to refuse a zero length. Modelled, not "
         "verified: boost::gregorian date arithmetic (Ledger.Cal), std::stable_sort is a stable sort, the date words of a "
         "period are fully specified (Y/M/D, Y/M, Y); relative forms (this/last/next, month names, N days ago) are outside "
         "the model. --begin/--end overriding the period's own bounds and --exact are not covered. The zero-length hang "
         "(C13:zero-length-period) is repaired in the period parser; C13.zero_rejected pins the repair.",
    technique="Lean 4 proof over a step-by-step model of the interval machine + regenerated keyword/code tables + differential model/binary check",
    ref="DESIGN.md §5 C13")

EPOCH = datetime.date(1970, 1, 1).toordinal()
QUANTA = ["DAYS", "WEEKS", "MONTHS", "QUARTERS", "YEARS"]
PLURAL = {"DAYS": "days", "WEEKS": "weeks", "MONTHS": "months", "QUARTERS": "quarters", "YEARS": "years"}
SINGULAR = {"DAYS": "day", "WEEKS": "week", "MONTHS": "month", "QUARTERS": "quarter", "YEARS": "year"}
NAMED = {"daily": ("DAYS", 1), "weekly": ("WEEKS", 1), "biweekly": ("WEEKS", 2), "monthly": ("MONTHS", 1),
         "bimonthly": ("MONTHS", 2), "quarterly": ("QUARTERS", 1), "yearly": ("YEARS", 1)}
ROWFMT = '%(format_date(date, "%Y-%m-%d"))|%(payee)|%(account)|%(verif_rational(amount))\n'


# ---- independent calendar (datetime only) ----------------------------------------------

def dn(d):
    return d.toordinal() - EPOCH


def nd(n):
    return datetime.date.fromordinal(n + EPOCH)


def ymd(y, m, d):
    return datetime.date(y, m, d)


def mdays(y, m):
    if m == 12:
        return 31
    return (datetime.date(y, m + 1, 1) - datetime.date(y, m, 1)).days


def add_months(d, k):
    """boost::gregorian `date + months(k)`: end of month stays end of month, days past the end are cut."""
    t = d.year * 12 + (d.month - 1) + k
    y, m = divmod(t, 12)
    m += 1
    last = mdays(y, m)
    if d.day == mdays(d.year, d.month) or d.day > last:
        return datetime.date(y, m, last)
    return datetime.date(y, m, d.day)


def add_dur(d, q, n):
    if q == "DAYS":
        return d + datetime.timedelta(days=n)
    if q == "WEEKS":
        return d + datetime.timedelta(days=7 * n)
    if q == "MONTHS":
        return add_months(d, n)
    if q == "QUARTERS":
        return add_months(d, 3 * n)
    return add_months(d, 12 * n)


def aligned_date(d, q, sow):
    """Is d the first day of a month / quarter / year, or the configured first day of the week?"""
    if q == "MONTHS":
        return d.day == 1
    if q == "QUARTERS":
        return d.day == 1 and d.month in (1, 4, 7, 10)
    if q == "YEARS":
        return d.day == 1 and d.month == 1
    if q == "WEEKS":
        return (d.weekday() + 1) % 7 == sow      # python: Monday = 0; ledger: Sunday = 0
    return True


# ---- cases -------------------------------------------------------------------------------

class Case:
    """One period report: duration spelling, bounds, options, postings."""

    def __init__(self, q, n, spelling, frm=None, to=None, inn=None, sow=0, align=False, empty=True, posts=(),
                 words=("from", "to")):
        self.q, self.n, self.spelling = q, n, spelling
        self.frm, self.to, self.inn = frm, to, inn          # frm/to: date; inn: (y,) or (y, m)
        self.sow, self.align, self.empty = sow, align, empty
        self.posts = list(posts)                             # (date, account, Fraction)
        self.words = words

    def text(self):
        t = [self.spelling]
        if self.frm is not None:
            t.append("%s %s" % (self.words[0], self.frm.strftime("%Y/%m/%d")))
        if self.to is not None:
            t.append("%s %s" % (self.words[1], self.to.strftime("%Y/%m/%d")))
        if self.inn is not None:
            t.append("in " + "/".join("%04d" % self.inn[0] if i == 0 else "%02d" % v for i, v in enumerate(self.inn)))
        return " ".join(t)

    def bounds(self):
        """(begin, end) of the report as the period states them."""
        if self.inn is not None:
            if len(self.inn) == 1:
                return ymd(self.inn[0], 1, 1), ymd(self.inn[0] + 1, 1, 1)
            b = ymd(self.inn[0], self.inn[1], 1)
            return b, add_months(b, 1)
        return self.frm, self.to

    def since(self):
        return self.frm is not None

    def journal(self):
        out = []
        for i, (d, acct, amt) in enumerate(self.posts):
            out.append("%s p%d\n    %s  %s EUR\n    Y:bal\n" % (d.strftime("%Y/%m/%d"), i, acct, dec(amt)))
        return "\n".join(out)

    def args(self, jpath):
        a = ["-f", jpath, "reg", "^X", "--period", self.text(), "--start-of-week", str(self.sow),
             "--date-format", "%Y-%m-%d", "--format", ROWFMT]
        if self.align:
            a.append("--align-intervals")
        if self.empty:
            a.append("--empty")
        return a

    def op(self):
        return "period.group\t%s\t%d\t%d\t%d\t%s" % (self.text(), self.sow, int(self.align), int(self.empty),
                                                      ",".join(str(dn(p[0])) for p in self.posts))

    def key(self):
        return (self.text(), self.sow, self.align, self.empty, tuple((dn(p[0]), p[1], str(p[2])) for p in self.posts))

    def to_json(self):
        return {"q": self.q, "n": self.n, "spelling": self.spelling,
                "from": self.frm.isoformat() if self.frm else None, "to": self.to.isoformat() if self.to else None,
                "in": list(self.inn) if self.inn else None, "sow": self.sow, "align": self.align, "empty": self.empty,
                "words": list(self.words),
                "posts": [[p[0].isoformat(), p[1], str(p[2])] for p in self.posts]}

    @staticmethod
    def from_json(o):
        D = datetime.date.fromisoformat
        return Case(o["q"], o["n"], o["spelling"], D(o["from"]) if o["from"] else None, D(o["to"]) if o["to"] else None,
                    tuple(o["in"]) if o["in"] else None, o["sow"], o["align"], o["empty"],
                    [(D(p[0]), p[1], Fraction(p[2])) for p in o["posts"]], tuple(o.get("words", ("from", "to"))))


def dec(q):
    n = q * 100
    assert n.denominator == 1
    s = str(abs(n.numerator)).rjust(3, "0")
    return ("-" if q < 0 else "") + s[:-2] + "." + s[-2:]


def spelling_of(rng, q, n):
    opts = ["every %d %s" % (n, PLURAL[q])]
    if n == 1:
        opts.append("every " + SINGULAR[q])
    for w, (qq, nn) in NAMED.items():
        if (qq, nn) == (q, n):
            opts += [w, w]
    return rng.choice(opts)


SPECIAL_MD = [(1, 1), (1, 31), (2, 1), (2, 28), (2, 29), (3, 1), (3, 31), (4, 1), (4, 30), (6, 30), (7, 1), (8, 31),
              (9, 30), (10, 1), (12, 1), (12, 31), (1, 30), (5, 31), (11, 30)]


def rand_date(rng, lo, hi):
    """A date in [lo, hi], biased to month ends, leap days, quarter/year starts and week boundaries."""
    r = rng.random()
    if r < 0.45:
        for _ in range(20):
            y = rng.randint(lo.year, hi.year)
            m, d = rng.choice(SPECIAL_MD)
            if d > mdays(y, m):
                continue
            x = ymd(y, m, d)
            if lo <= x <= hi:
                return x
    if r < 0.6:
        x = nd(rng.randint(dn(lo), dn(hi)))
        x = x - datetime.timedelta(days=(x.weekday() + 1) % 7) + datetime.timedelta(days=rng.choice([0, 0, 1, 6, -1]))
        if lo <= x <= hi:
            return x
    return nd(rng.randint(dn(lo), dn(hi)))


def span_for(q, n, rng):
    """Length in days of the window postings and bounds are drawn from: long enough for several
    intervals, short enough that --empty listings stay small."""
    unit = {"DAYS": 1, "WEEKS": 7, "MONTHS": 30, "QUARTERS": 91, "YEARS": 365}[q]
    k = rng.choice([3, 6, 12, 25])
    return max(20, min(unit * n * k, 3700))


def gen_case(rng, q=None, n=None, sow=None, align=None, empty=None, bounds=None):
    q = q or rng.choice(QUANTA)
    if n is None:
        n = rng.choice(list(range(1, 13)) * 3 + [13, 14, 18, 24, 30, 52])
    span = span_for(q, n, rng)
    base = ymd(rng.choice([1996, 1999, 2000, 2003, 2004, 2011, 2012, 2015, 2016, 2019, 2020, 2023, 2024]), rng.randint(1, 12), 1)
    lo, hi = base, base + datetime.timedelta(days=span)
    bounds = bounds or rng.choice(["none", "none", "from", "from", "to", "both", "both", "in-year", "in-month"])
    frm = to = inn = None
    if bounds in ("from", "both"):
        frm = rand_date(rng, lo, lo + datetime.timedelta(days=span // 3))
    if bounds in ("to", "both"):
        to = rand_date(rng, hi - datetime.timedelta(days=span // 3), hi)
        if frm is not None and to <= frm:
            to = frm + datetime.timedelta(days=rng.randint(1, 40))
    if bounds == "in-year":
        inn = (rng.randint(lo.year, hi.year),)
        if q == "DAYS" and n < 3:
            inn = (inn[0], rng.randint(1, 12))
    if bounds == "in-month":
        inn = (rng.randint(lo.year, hi.year), rng.randint(1, 12))
    c = Case(q, n, spelling_of(rng, q, n), frm, to, inn,
             sow if sow is not None else rng.choice([0, 0, 1, 1, 1, 2, 3, 4, 5, 6]),
             align if align is not None else rng.random() < 0.5,
             empty if empty is not None else rng.random() < 0.6,
             words=(rng.choice(["from", "since"]), rng.choice(["to", "until"])))
    b, e = c.bounds()
    plo = (b - datetime.timedelta(days=20)) if b else lo
    phi = (e + datetime.timedelta(days=20)) if e else hi
    if b and not e:
        phi = max(phi, b + datetime.timedelta(days=span))
    if e and not b:
        plo = min(plo, e - datetime.timedelta(days=span))
    if phi <= plo:
        phi = plo + datetime.timedelta(days=30)
    npost = rng.choice([0, 1, 2, 3, 5, 8, 12, 20, 35])
    accts = ["X:a", "X:b", "X:c:d"][:rng.choice([1, 1, 2, 3])]
    posts = []
    for _ in range(npost):
        d = rand_date(rng, plo, phi)
        if rng.random() < 0.15 and posts:
            d = rng.choice(posts)[0]                    # several postings on one day
        if rng.random() < 0.12 and b:
            d = b                                       # exactly on the lower bound
        if rng.random() < 0.12 and e:
            d = e - datetime.timedelta(days=rng.choice([0, 1]))   # on / just inside the upper bound
        posts.append((d, rng.choice(accts), Fraction(rng.randint(1, 99999), 100)))
    if rng.random() < 0.7:
        posts.sort(key=lambda p: p[0])                  # most journals are in date order
    c.posts = posts
    return c


# ---- running both sides ------------------------------------------------------------------

def parse_rows(out):
    """ledger's group rows -> [(start, inclusive_end, account, Fraction)] or None when malformed."""
    rows = []
    for line in out.split("\n"):
        if not line:
            continue
        p = line.split("|")
        if len(p) != 4:
            return None
        m = re.fullmatch(r"- (\d{4})-(\d\d)-(\d\d)", p[1])
        m2 = re.fullmatch(r"A:(-?\d+)/(\d+):\d+:[01]:(.*)", p[3])
        if not m or not m2:
            return None
        try:
            s = datetime.date.fromisoformat(p[0])
            e = ymd(int(m.group(1)), int(m.group(2)), int(m.group(3)))
        except ValueError:
            return None
        rows.append((s, e, p[2], Fraction(int(m2.group(1)), int(m2.group(2)))))
    return rows


def run_ledger(case, tmpdir, idx, timeout=60):
    jp = os.path.join(tmpdir, "c%d.dat" % idx)
    with open(jp, "w") as f:
        f.write(case.journal())
    rc, out, err = vflib.ledger_run(case.args(jp), timeout=timeout)
    b, e = case.bounds()
    a2 = ["-f", jp, "reg", "^X", "--format", "%(account)|%(verif_rational(amount))\n", "--empty"]
    if b:
        a2 += ["--begin", b.strftime("%Y/%m/%d")]
    if e:
        a2 += ["--end", e.strftime("%Y/%m/%d")]
    rc2, out2, err2 = vflib.ledger_run(a2, timeout=timeout)
    return rc, out, err, rc2, out2, err2


def model_rows(case, ans):
    """Model answer -> expected rows in ledger's order (groups in order; accounts sorted by name)."""
    if not ans.startswith("ok\t"):
        return None
    body = ans[3:]
    rows = []
    if body == "":
        return rows
    for g in body.split(";"):
        s, e, mem = g.split(":")
        s, e = nd(int(s)), nd(int(e)) - datetime.timedelta(days=1)
        if mem == "":
            rows.append((s, e, "<None>", Fraction(0)))
            continue
        sums = {}
        for i in mem.split("+"):
            d, acct, amt = case.posts[int(i)]
            sums[acct] = sums.get(acct, 0) + amt
        for acct in sorted(sums):
            rows.append((s, e, acct, sums[acct]))
    return rows


def oracle(case, rows, plain):
    """The property on ledger's own rows; returns a list of (kind, message)."""
    bad = []
    q, n, sow = case.q, case.n, case.sow
    b, e = case.bounds()
    groups = []
    for s, ie, acct, amt in rows:
        if groups and groups[-1][0] == s and groups[-1][1] == ie:
            groups[-1][2].append((acct, amt))
        else:
            groups.append((s, ie, [(acct, amt)]))
    inb = [p for p in case.posts if (b is None or p[0] >= b) and (e is None or p[0] < e)]
    anchored = case.align and case.since() and q != "DAYS"
    # 1. consecutive, disjoint
    for (s1, e1, _), (s2, e2, _) in zip(groups, groups[1:]):
        if not (s1 <= e1 < s2 <= e2):
            bad.append(("overlap", "rows %s..%s and %s..%s overlap or are out of order" % (s1, e1, s2, e2)))
        elif case.empty and s2 != e1 + datetime.timedelta(days=1):
            bad.append(("gap", "with --empty the row after %s..%s starts on %s" % (s1, e1, s2)))
        elif not case.empty:
            x = e1 + datetime.timedelta(days=1)
            k = 0
            while x < s2 and k < 5000:
                x = add_dur(x, q, n)
                k += 1
            if x != s2:
                bad.append(("gap", "the rows between %s and %s are not a whole number of durations" % (e1, s2)))
    for gi, (s, ie, accts) in enumerate(groups):
        end = ie + datetime.timedelta(days=1)
        if not s <= ie:
            bad.append(("empty-interval", "row %s..%s is empty" % (s, ie)))
        clipped_lo = gi == 0 and b is not None and s == b
        clipped_hi = e is not None and end == e
        if b is not None and s < b:
            bad.append(("outside-bounds", "row %s..%s starts before the from bound %s" % (s, ie, b)))
        if e is not None and end > e:
            bad.append(("outside-bounds", "row %s..%s ends after the to bound %s" % (s, ie, e)))
        # 2. one duration long unless clipped at a stated bound
        full = add_dur(s, q, n)
        if end != full:
            if clipped_hi and end < full and not (clipped_lo and not anchored):
                pass
            elif clipped_lo and not anchored and end <= full and (clipped_hi or aligned_date(end, q, sow)):
                pass
            else:
                bad.append(("length", "row %s..%s is not %d %s long (would end %s) and is not cut at a stated bound"
                            % (s, ie, n, PLURAL[q], full - datetime.timedelta(days=1))))
        # 3. alignment
        if anchored:
            x = b
            k = 0
            while x < s and k < 5000:
                x = add_dur(x, q, n)
                k += 1
            if x != s:
                bad.append(("align", "with --align-intervals row start %s is not the from date %s plus whole durations" % (s, b)))
        elif not clipped_lo and not aligned_date(s, q, sow):
            bad.append(("align", "row start %s is not the first day of a %s (week start %d)" % (s, SINGULAR[q], sow)))
        # 4. membership and subtotals
        want = {}
        for d, acct, amt in inb:
            if s <= d <= ie:
                want[acct] = want.get(acct, 0) + amt
        got = {}
        for acct, amt in accts:
            if acct == "<None>" and amt == 0:
                continue
            got[acct] = got.get(acct, 0) + amt
        if got != want:
            bad.append(("membership", "row %s..%s shows %s but the postings dated in it sum to %s" %
                        (s, ie, {k: str(v) for k, v in got.items()}, {k: str(v) for k, v in want.items()})))
        if not want and not case.empty:
            bad.append(("empty-row", "row %s..%s has no postings although --empty was not given" % (s, ie)))
    # every in-bounds posting lies in exactly one row
    for d, acct, amt in inb:
        k = sum(1 for s, ie, _ in groups if s <= d <= ie)
        if k != 1:
            bad.append(("coverage", "posting dated %s lies in %d rows" % (d, k)))
    if case.empty and groups and b is not None and inb and groups[0][0] != b:
        bad.append(("first-row", "with --empty the first row starts %s, not at the from bound %s" % (groups[0][0], b)))
    # 5. subtotals add up to the unperiodised total
    tot = {}
    for s, ie, accts in groups:
        for acct, amt in accts:
            if acct != "<None>":
                tot[acct] = tot.get(acct, 0) + amt
    if plain is not None and tot != plain:
        bad.append(("total", "interval subtotals sum to %s, the unperiodised report to %s" %
                    ({k: str(v) for k, v in tot.items()}, {k: str(v) for k, v in plain.items()})))
    return bad


def parse_plain(out):
    tot = {}
    for line in out.split("\n"):
        if not line:
            continue
        acct, _, v = line.partition("|")
        m = re.fullmatch(r"A:(-?\d+)/(\d+):\d+:[01]:(.*)", v)
        if not m:
            return None
        tot[acct] = tot.get(acct, 0) + Fraction(int(m.group(1)), int(m.group(2)))
    return {k: v for k, v in tot.items()}


def check_cases(ctx, cases, tmpdir):
    """Run model and binary on report cases; compare; apply the oracle.  Returns failing cases."""
    model = vflib.driver_run([c.op() for c in cases])
    outs = vflib.pmap(lambda ic: run_ledger(ic[1], tmpdir, ic[0]), list(enumerate(cases)))
    failing = []
    for c, m, (rc, out, err, rc2, out2, err2) in zip(cases, model, outs):
        ctx.count()
        ctx.feature("quantum:" + c.q)
        ctx.feature("len:%s" % (c.n if c.n <= 12 else ">12"))
        ctx.feature("bounds:" + ("in" if c.inn else "+".join(x for x, v in (("from", c.frm), ("to", c.to)) if v) or "none"))
        ctx.feature("sow:%d" % c.sow)
        ctx.feature("align" if c.align else "noalign")
        ctx.feature("empty" if c.empty else "noempty")
        if rc is None:
            ctx.tie_broken("corr:period.group", "ledger timed out on %s" % c.text())
            failing.append((c, [("hang", "ledger did not finish within the timeout")]))
            continue
        rows = parse_rows(out) if rc == 0 else None
        plain = parse_plain(out2) if rc2 == 0 else None
        if rows is None:
            ctx.feature("impl:error")
            if m.startswith("ok"):
                ctx.tie_broken("corr:period.group", "ledger failed (rc=%s %s) on %s where the model answers %s" %
                               (rc, err.strip()[-200:], c.text(), m[:200]))
                failing.append((c, [("error", "ledger fails: rc=%s %s" % (rc, err.strip()[-300:]))]))
            continue
        want = model_rows(c, m)
        if want is None or want != rows:
            ctx.tie_broken("corr:period.group", "model and ledger disagree on %r sow=%d align=%s empty=%s: model=%s ledger=%s" %
                           (c.text(), c.sow, c.align, c.empty, m[:300], out[:300]))
            ctx.mism.append({"case": c.to_json(), "model": m[:2000], "ledger": out[:2000]})
        else:
            ctx.traces_validated += 1
        bad = oracle(c, rows, plain)
        if bad:
            failing.append((c, bad))
        ngroups = len({(r[0], r[1]) for r in rows})
        if ngroups >= 2 and any(r[2] != "<None>" for r in rows):
            ctx.nontrivial(c.key())
        if len({r[0] for r in rows if r[2] != "<None>"}) >= 2:
            ctx.feature("multi-group-with-postings")
        b, e = c.bounds()
        if rows and b and rows[0][0] == b and not aligned_date(b, c.q, c.sow):
            ctx.feature("first-row-cut-at-from")
        if rows and e and rows[-1][1] + datetime.timedelta(days=1) == e and not aligned_date(e, c.q, c.sow):
            ctx.feature("last-row-cut-at-to")
        if any(p[0].month == 2 and p[0].day == 29 for p in c.posts):
            ctx.feature("leap-day-posting")
        ctx.sample({"period": c.text(), "sow": c.sow, "align": c.align, "empty": c.empty,
                    "postings": len(c.posts), "rows": out.split("\n")[:4]}, cap=4)
    return failing


# ---- shrinking and reporting -------------------------------------------------------------

def still_fails(case, kinds, tmpdir):
    rc, out, err, rc2, out2, err2 = run_ledger(case, tmpdir, 99999, timeout=20)
    if rc is None:
        return "hang" in kinds
    rows = parse_rows(out) if rc == 0 else None
    if rows is None:
        return "error" in kinds
    plain = parse_plain(out2) if rc2 == 0 else None
    return any(k in kinds for k, _ in oracle(case, rows, plain))


def shrink(case, kinds, tmpdir):
    """Drop postings, then simplify options, while the same kind of failure remains."""
    cur = case
    changed = True
    while changed:
        changed = False
        for i in range(len(cur.posts)):
            t = Case.from_json(cur.to_json())
            del t.posts[i]
            if still_fails(t, kinds, tmpdir):
                cur, changed = t, True
                break
    for attr, val in (("align", False), ("sow", 0), ("empty", True), ("to", None)):
        if getattr(cur, attr) != val:
            t = Case.from_json(cur.to_json())
            setattr(t, attr, val)
            if still_fails(t, kinds, tmpdir):
                cur = t
    return cur


def report_failures(ctx, failing, tmpdir):
    seen = set()
    for c, bad in sorted(failing, key=lambda x: len(x[0].posts))[:30]:
        kinds = sorted({k for k, _ in bad})
        fp = "C13:%s:%s" % (kinds[0], c.q)
        if fp in seen:
            continue
        seen.add(fp)
        small = shrink(c, set(kinds), tmpdir)
        rc, out, err, rc2, out2, err2 = run_ledger(small, tmpdir, 99998, timeout=20)
        rows = parse_rows(out) if rc == 0 else None
        msgs = oracle(small, rows, parse_plain(out2) if rc2 == 0 else None) if rows is not None else bad
        ctx.violation(fp, "reg --period %r: %s" % (small.text(), "; ".join(m for _, m in msgs[:3])),
                      {"kind": "report", "case": small.to_json(), "journal": small.journal(),
                       "cmd": "ledger -f J reg ^X --period %r --start-of-week %d%s%s --format ROWFMT" %
                              (small.text(), small.sow, " --align-intervals" if small.align else "", " --empty" if small.empty else ""),
                       "ledger_rows": out[:3000], "ledger_err": (err or "")[:500], "failed": [list(x) for x in msgs[:6]]})


# ---- `ledger period EXPR --now D` ---------------------------------------------------------

def fmt_period_date(d):
    return d.strftime("%y-%b-%d")


def parse_period_output(out):
    """-> (start, finish, [(start, end_inclusive)]) as printed strings, or None on an error."""
    if "Error:" in out:
        return None
    i = out.find("--- After stabilization ---")
    if i < 0:
        return None
    tail = out[i:]
    ms = re.search(r"^\s*start: (\S+)$", tail, flags=re.M)
    mf = re.search(r"^\s*finish: (\S+)$", tail, flags=re.M)
    samples = re.findall(r"^\s*\d+: (\S+)(?: -- (\S+))?$", tail, flags=re.M)
    return (ms.group(1) if ms else None, mf.group(1) if mf else None, [(a, b or None) for a, b in samples])


def listing_cases(rng, tier):
    texts = []
    dates = [ymd(2020, 3, 3), ymd(2019, 12, 31), ymd(2020, 2, 29), ymd(2021, 1, 1), ymd(2024, 1, 31), ymd(2011, 7, 17)]
    for q in QUANTA:
        for n in range(1, 13):
            texts.append(("every %d %s" % (n, PLURAL[q]), q, n))
        texts.append(("every " + SINGULAR[q], q, 1))
    for w, (q, n) in NAMED.items():
        texts.append((w, q, n))
    cases = []
    for t, q, n in texts:
        for k in range(2 if tier == "quick" else 12):
            now = rng.choice(dates) if k == 0 else rand_date(rng, ymd(1999, 1, 1), ymd(2030, 12, 31))
            r = rng.random()
            text = t
            b = e = None
            if r < 0.5:
                b = rand_date(rng, ymd(2000, 1, 1), ymd(2025, 12, 31))
                text += " %s %s" % (rng.choice(["from", "since"]), b.strftime("%Y/%m/%d"))
            if 0.3 < r < 0.7:
                lo = b or ymd(2000, 1, 1)
                e = rand_date(rng, lo + datetime.timedelta(days=1), lo + datetime.timedelta(days=rng.choice([10, 100, 1000, 4000])))
                text += " %s %s" % (rng.choice(["to", "until"]), e.strftime("%Y/%m/%d"))
            if r > 0.9:
                y = rng.randint(1999, 2030)
                mm = rng.randint(1, 12)
                k = rng.randint(0, 2)
                text += [" in %d" % y, " in %d/%02d" % (y, mm), " %d" % y][k]
                b = ymd(y, mm, 1) if k == 1 else ymd(y, 1, 1)
                e = add_months(b, 1) if k == 1 else ymd(y + 1, 1, 1)
            cases.append((text, now, q, n, b, e))
    return cases


def parse_period_date(t, ref):
    """'20-Mar-03' -> date.  The two-digit year is resolved to the century that puts the date
    nearest to `ref` (the previous date of the listing; the stabilization date for the first)."""
    m = re.fullmatch(r"(\d\d)-([A-Z][a-z][a-z])-(\d\d)", t or "")
    if not m:
        return None
    yy = int(m.group(1))
    mon = ["Jan", "Feb", "Mar", "Apr", "May", "Jun", "Jul", "Aug", "Sep", "Oct", "Nov", "Dec"].index(m.group(2)) + 1
    best = None
    for c in range(ref.year // 100 - 1, ref.year // 100 + 2):
        try:
            x = ymd(c * 100 + yy, mon, int(m.group(3)))
        except ValueError:
            continue
        if best is None or abs((x - ref).days) < abs((best - ref).days):
            best = x
    return best


def listing_oracle(q, n, b, e, now, got):
    """The property on the intervals `ledger period` lists (week start 0, no --align-intervals):
    consecutive, one duration long unless cut at a stated bound, aligned, starting at the from
    bound (or at the period containing `now`) and, when fewer than 20 are listed, ending at the
    to bound."""
    bad = []
    start, finish, samples = got
    iv = []
    when = b or now
    ref = when
    for a, z in samples:
        da = parse_period_date(a, ref)
        dz = parse_period_date(z, da) if da else None
        if da is None or dz is None:
            return [("listing-format", "unreadable sample line %r -- %r" % (a, z))]
        iv.append((da, dz + datetime.timedelta(days=1)))
        ref = dz
    if e is not None and when >= e:
        return bad                      # date of stabilization outside the range: nothing is claimed
    if not iv:
        return [("listing-empty", "no interval listed")]
    for (s1, e1), (s2, e2) in zip(iv, iv[1:]):
        if s2 != e1:
            bad.append(("gap", "listed interval starting %s does not follow the one ending %s" % (s2, e1 - datetime.timedelta(days=1))))
    for i, (s, x) in enumerate(iv):
        if not s < x:
            bad.append(("empty-interval", "listed interval %s..%s is empty" % (s, x)))
        lo = i == 0 and b is not None and s == b
        hi = e is not None and x == e
        full = add_dur(s, q, n)
        if x != full and not (hi and x < full and not lo) and not (lo and x <= full and (hi or aligned_date(x, q, 0))):
            bad.append(("length", "listed interval %s..%s is not %d %s long and not cut at a stated bound" % (s, x, n, PLURAL[q])))
        if not lo and not aligned_date(s, q, 0):
            bad.append(("align", "listed interval start %s is not the first day of a %s" % (s, SINGULAR[q])))
        if e is not None and x > e:
            bad.append(("outside-bounds", "listed interval %s..%s ends after the to bound" % (s, x)))
    if b is not None and iv[0][0] != b:
        bad.append(("first-row", "first listed interval starts %s, not at the from bound %s" % (iv[0][0], b)))
    if not (iv[0][0] <= when < iv[0][1]):
        bad.append(("coverage", "first listed interval %s..%s does not contain %s" % (iv[0][0], iv[0][1], when)))
    if e is not None and len(iv) < 20 and iv[-1][1] != e:
        bad.append(("coverage", "listing stops at %s before the to bound %s" % (iv[-1][1], e)))
    if e is None and len(iv) < 20:
        bad.append(("coverage", "listing of an unbounded period stops after %d intervals" % len(iv)))
    return bad


def boundary_listing_cases(rng, tier):
    """from / to exactly on, one day before and one day after a period boundary; `now` on the
    boundaries too."""
    one = datetime.timedelta(days=1)
    out = []
    for q in QUANTA:
        for n in ((1, 2, 3) if tier == "quick" else (1, 2, 3, 5, 12)):
            st = interval_starts(q, n, 0, rng.choice([ymd(2020, 1, 1), ymd(2019, 10, 1), ymd(2024, 1, 1)]), 6)
            for fo in (None, -1, 0, 1):
                for to in (None, -1, 0, 1):
                    if tier == "quick" and rng.random() < 0.4:
                        continue
                    b = st[1] + one * fo if fo is not None else None
                    e = st[4] + one * to if to is not None else None
                    now = st[2] + one * rng.choice([-1, 0, 0, 1])
                    text = "every %d %s" % (n, PLURAL[q])
                    if b:
                        text += " from " + b.strftime("%Y/%m/%d")
                    if e:
                        text += " to " + e.strftime("%Y/%m/%d")
                    out.append((text, now, q, n, b, e))
    return out


def check_listings(ctx, cases):
    def one(c):
        return vflib.ledger_run(["--now", c[1].strftime("%Y/%m/%d"), "period", c[0]], timeout=30)
    outs = vflib.pmap(one, cases)
    model = vflib.driver_run(["period.list\t%s\t%d\t20" % (c[0], dn(c[1])) for c in cases])
    for (t, now, q, n, b, e), (rc, out, err), m in zip(cases, outs, model):
        ctx.count()
        ctx.feature("listing")
        if rc is None:
            ctx.tie_broken("corr:period.list", "ledger period %r --now %s timed out" % (t, now))
            continue
        got = parse_period_output(out + err)
        if got is None:
            if m.startswith("ok"):
                ctx.tie_broken("corr:period.list", "ledger fails on period %r (%s), model answers %s" % (t, (err or out).strip()[-200:], m[:200]))
            continue
        if not m.startswith("ok\t"):
            ctx.tie_broken("corr:period.list", "model answers %s on period %r --now %s, ledger lists intervals" % (m, t, now))
            continue
        _, s, f, ss = m.split("\t")
        want = (fmt_period_date(nd(int(s))) if s != "-" else None, fmt_period_date(nd(int(f))) if f != "-" else None,
                [(fmt_period_date(nd(int(a))), fmt_period_date(nd(int(b)) - datetime.timedelta(days=1)))
                 for a, b in (x.split(":") for x in ss.split(",") if x)])
        if want != got:
            ctx.tie_broken("corr:period.list", "period %r --now %s: model %s ledger %s" % (t, now, want, got))
            ctx.mism.append({"period": t, "now": str(now), "model": str(want), "ledger": str(got)})
        else:
            ctx.traces_validated += 1
        # the property on the listing alone
        bad = listing_oracle(q, n, b, e, now, got)
        if bad:
            fp = "C13:listing:%s:%s" % (bad[0][0], q)
            ctx.violation(fp, "ledger period %r --now %s: %s" % (t, now, "; ".join(x[1] for x in bad[:3])),
                          {"kind": "listing", "period": t, "now": now.isoformat(), "q": q, "n": n,
                           "from": b.isoformat() if b else None, "to": e.isoformat() if e else None,
                           "cmd": "ledger --now %s period %r" % (now.strftime("%Y/%m/%d"), t),
                           "ledger": out[-1500:], "failed": [list(x) for x in bad[:6]]})
        if len(got[2]) >= 2:
            ctx.nontrivial(("list", t, str(now)))


# ---- unit ops against the independent calendar -----------------------------------------

def check_units(ctx, rng, count):
    """Duration.add / findNearest of the model against the independent Python calendar, and
    strict monotonicity of add on ledger itself through two-interval listings."""
    ops, want = [], []
    for _ in range(count):
        q = rng.choice(QUANTA)
        n = rng.choice(list(range(0, 14)) + [24, 36, 100])
        d = rand_date(rng, ymd(1990, 1, 1), ymd(2040, 12, 31))
        ops.append("period.add\t%s\t%d\t%d" % (q, n, dn(d)))
        want.append("ok\t%d" % dn(add_dur(d, q, n)))
        sow = rng.randint(0, 6)
        ops.append("period.nearest\t%s\t%d\t%d" % (q, sow, dn(d)))
        if q == "YEARS":
            r = ymd(d.year, 1, 1)
        elif q == "QUARTERS":
            r = ymd(d.year, d.month - (d.month - 1) % 3, 1)
        elif q == "MONTHS":
            r = ymd(d.year, d.month, 1)
        elif q == "WEEKS":
            r = d - datetime.timedelta(days=((d.weekday() + 1) % 7 - sow) % 7)
        else:
            r = d
        want.append("ok\t%d" % dn(r))
    got = vflib.driver_run(ops)
    for o, w, g in zip(ops, want, got):
        ctx.count()
        if w != g:
            ctx.tie_broken("corr:period.unit", "model %s = %s, independent calendar says %s" % (o, g, w))
    ctx.feature("unit-ops", len(ops))


# ---- malformed / parser stream -------------------------------------------------------------

def check_parser(ctx, rng, count):
    """Period texts, mostly valid plus a malformed stream: model and ledger must agree on
    accept / reject and on what was parsed (duration and bounds as `period` prints them)."""
    good = ["daily", "weekly", "biweekly", "monthly", "bimonthly", "quarterly", "yearly", "every day", "every week",
            "every month", "every quarter", "every year", "every 2 days", "every 3 weeks", "every 5 months",
            "every 2 quarters", "every 10 years", "from 2020/01/15", "since 2019/02/28", "to 2021/03/01", "until 2020/12/31",
            "in 2020", "in 2020/02", "2021", "2020/06", "2020/06/15"]
    junk = ["foo", "every", "every 3", "every 2 week", "every 1 day", "from", "to", "in", "monthly from", "from 2020/02/30",
            "from 2020/13/01", "every days", "every -1 days", "every 70000 days", "monthlyy", "dayly", "from 2020/01/01 from 2020/02/01",
            "to 2020/01/01 until 2020/02/01", "in 2020 in 2021", "2020 in 2021", "every 2 2 days", "from monthly", "weeks", "month",
            "every 0 fortnights", "from 2021/02/29", "until 2020/00/10", "every 3 monthly"]
    junk += ["2021 dayly", "dayly 2021", "in 2021 foo", "2021 foo monthly", "from 2021 foo to 2022 bar", "2021 months ago",
             "2021 month", "2021 monthly", "2021 2022", "2021/03 foo", "from 2021/01/01 foo", "2021 1foo", "2021 foo1 weekly",
             "monthly 2021 %%", "2021 - 2022", "2021 every", "until 2030 x every 2 weeks"]

    def mutate(t):
        """one character of one word deleted, doubled or replaced: misspelt keywords and dates"""
        ws = t.split(" ")
        i = rng.randrange(len(ws))
        w = ws[i]
        k = rng.randrange(len(w))
        r = rng.random()
        if r < 0.35:
            w = w[:k] + w[k + 1:]
        elif r < 0.7:
            w = w[:k] + w[k] + w[k:]
        else:
            w = w[:k] + rng.choice("abcdexyz0123/") + w[k + 1:]
        ws[i] = w
        return " ".join(x for x in ws if x)
    texts = []
    for _ in range(count):
        r = rng.random()
        if r < 0.25:
            t = mutate(" ".join(rng.sample(good, rng.randint(1, 3))))
            if t:
                texts.append(t)
        elif r < 0.55:
            texts.append(" ".join(rng.sample(good, rng.randint(1, 3))))
        elif r < 0.8:
            parts = rng.sample(good, rng.randint(0, 2)) + [rng.choice(junk)]
            rng.shuffle(parts)
            texts.append(" ".join(parts))
        else:
            texts.append(rng.choice(junk))
    texts += good + junk
    def one(t):
        return vflib.ledger_run(["--now", "2020/03/03", "period", t], timeout=30)
    outs = vflib.pmap(one, texts)
    model = vflib.driver_run(["period.parse\t" + t for t in texts])
    for t, (rc, out, err), m in zip(texts, outs, model):
        ctx.count()
        if m == "err\tunsupported":
            ctx.feature("parse:outside-model")
            continue
        failed = rc != 0 or "Error:" in err
        if rc is None or (rc is not None and rc < 0):
            ctx.feature("parse:impl-died")
            ctx.tie_broken("corr:period.parse", "ledger period %r died (rc=%s)" % (t, rc))
            continue
        if m.startswith("err"):
            ctx.feature("parse:rejected")
            if not failed:
                ctx.tie_broken("corr:period.parse", "model rejects %r (%s), ledger accepts it" % (t, m))
            else:
                ctx.traces_validated += 1
            continue
        ctx.feature("parse:accepted")
        if failed:
            ctx.tie_broken("corr:period.parse", "model accepts %r, ledger rejects it: %s" % (t, err.strip()[-200:]))
            continue
        _, q, n, b, e, since = m.split("\t")
        md = re.search(r"--- Before stabilization ---\n(?:\s*range:[^\n]*\n)?duration: (\d+) (day|week|month|quarter|year)s?\n", out)
        got = (md.group(2).upper() + "S", md.group(1)) if md else ("-", "0")
        lst = parse_period_output(out)
        want_b = fmt_period_date(nd(int(b))) if b != "-" else None
        want_e = fmt_period_date(nd(int(e))) if e != "-" else None
        if (q, n) != got:
            ctx.tie_broken("corr:period.parse", "period %r: model duration %s %s, ledger %s" % (t, q, n, got))
        elif lst is not None and ((want_b is not None and lst[0] != want_b) or lst[1] != want_e):
            ctx.tie_broken("corr:period.parse", "period %r: model bounds %s..%s, ledger start %s finish %s" % (t, want_b, want_e, lst[0], lst[1]))
        else:
            ctx.traces_validated += 1


# ---- zero length: DESIGN 9-3 -----------------------------------------------------------------

def check_zero_length(ctx, tmpdir):
    """`every 0 <quantum>`: the model's termination measure does not decrease (err diverges /
    sigfpe); the binary must not hang or die.  A parser that rejects zero (Gen.everyRejectsZero)
    makes both sides answer an error."""
    jp = os.path.join(tmpdir, "zero.dat")
    with open(jp, "w") as f:
        f.write("2020/01/15 a\n    X:a  10.00 EUR\n    Y:bal\n\n2020/03/20 b\n    X:a  5.00 EUR\n    Y:bal\n")
    res = {}
    hang = []
    for q in QUANTA:
        t = "every 0 " + PLURAL[q]
        m = vflib.driver_run(["period.group\t%s\t0\t0\t1\t%d,%d" % (t, dn(ymd(2020, 1, 15)), dn(ymd(2020, 3, 20)))])[0]
        rc, out, err = vflib.ledger_run(["-f", jp, "reg", "^X", "--period", t, "--empty", "--format", ROWFMT], timeout=4)
        ctx.count()
        res[t] = {"model": m, "ledger": "timeout" if rc is None else ("signal %d" % -rc if rc < 0 else "rc=%d %s" % (rc, err.strip()[-120:]))}
        if rc is None or rc < 0:
            hang.append(t)
            if m not in ("err\tdiverges", "err\tsigfpe"):
                ctx.tie_broken("corr:zero-length", "ledger hangs/dies on %r but the model answers %s" % (t, m))
        elif rc != 0 and m.startswith("err"):
            ctx.traces_validated += 1
        elif rc == 0 and m.startswith("ok"):
            ctx.traces_validated += 1
        else:
            ctx.tie_broken("corr:zero-length", "period %r: model %s, ledger rc=%s" % (t, m, rc))
    ctx.extra_cov["zero_length"] = res
    if hang:
        ctx.violation("C13:zero-length-period",
                      "reg --period with a zero-length duration never terminates (SIGFPE for weeks): %s; the stabilize loop "
                      "(times.cc `while (*start < *date)`) makes no progress because duration->add(start) == start" % ", ".join(hang),
                      {"kind": "zero", "journal": open(jp).read(), "periods": hang,
                       "cmd": "timeout 4 ledger -f J reg ^X --period 'every 0 days' --empty", "observed": res,
                       "expected": "an error such as 'Invalid period: length must be positive' and exit status 1"})


# ---- tiers ------------------------------------------------------------------------------------

def exhaustive_cases(rng, tier):
    """Bounded-exhaustive part: every quantum x length 1-12 x bound shape x week start {0,1} x align,
    each on a fixed multi-year posting pattern (month ends, leap days, week edges)."""
    cases = []
    pattern = [ymd(2019, 12, 29), ymd(2019, 12, 31), ymd(2020, 1, 1), ymd(2020, 1, 5), ymd(2020, 1, 6), ymd(2020, 1, 31),
               ymd(2020, 2, 1), ymd(2020, 2, 28), ymd(2020, 2, 29), ymd(2020, 3, 1), ymd(2020, 3, 31), ymd(2020, 4, 30),
               ymd(2020, 6, 30), ymd(2020, 7, 1), ymd(2020, 12, 31), ymd(2021, 1, 1), ymd(2021, 2, 28), ymd(2021, 3, 1)]
    lens = range(1, 13) if tier == "thorough" else (1, 2, 3, 5, 12)
    shapes = [("none", None, None), ("from-aligned", ymd(2020, 1, 1), None), ("from-mid", ymd(2020, 1, 30), None),
              ("both-mid", ymd(2020, 1, 31), ymd(2020, 12, 15)), ("to", None, ymd(2020, 12, 31)),
              ("leap-from", ymd(2020, 2, 29), ymd(2021, 2, 28))]
    if tier != "thorough":
        shapes = shapes[:4]
    for q in QUANTA:
        for n in lens:
            for name, f, t in shapes:
                for sow in (0, 1):
                    if q != "WEEKS" and sow == 1 and tier != "thorough":
                        continue
                    for align in (False, True):
                        if align and f is None:
                            continue
                        posts = [(d, "X:a", Fraction(100 + i, 100)) for i, d in enumerate(pattern)]
                        if q == "DAYS" and n < 4:
                            posts = posts[:10]
                            t2 = t if t is None or t <= ymd(2020, 4, 1) else ymd(2020, 3, 15)
                        else:
                            t2 = t
                        cases.append(Case(q, n, "every %d %s" % (n, PLURAL[q]), f, t2, None, sow, align, True, posts))
    return cases


def interval_starts(q, n, sow, anchor, count):
    """Independent enumeration of `count` consecutive step starts of the (q, n) sequence that
    begins at the aligned date at or before `anchor` (or at `anchor` itself for DAYS)."""
    if q == "YEARS":
        s = ymd(anchor.year, 1, 1)
    elif q == "QUARTERS":
        s = ymd(anchor.year, anchor.month - (anchor.month - 1) % 3, 1)
    elif q == "MONTHS":
        s = ymd(anchor.year, anchor.month, 1)
    elif q == "WEEKS":
        s = anchor - datetime.timedelta(days=((anchor.weekday() + 1) % 7 - sow) % 7)
    else:
        s = anchor
    out = [s]
    for _ in range(count):
        s = add_dur(s, q, n)
        out.append(s)
    return out


def boundary_cases(rng, tier):
    """Edges of every comparison in the interval machine: postings dated exactly on an interval
    start, the day before and the day after; from / to bounds exactly on, one day before and one
    day after a period boundary; month ends 28/29/30/31 as --align-intervals anchors; every
    weekday as week start."""
    cases = []
    one = datetime.timedelta(days=1)
    anchors = [ymd(2019, 12, 1), ymd(2020, 1, 1), ymd(2020, 2, 1), ymd(2023, 10, 1)]
    lens = (1, 2, 3) if tier == "quick" else (1, 2, 3, 4, 6, 12)
    for q in QUANTA:
        for n in lens:
            for sow in (range(7) if q == "WEEKS" else (0, 1)):
                if q != "WEEKS" and sow == 1 and (tier == "quick" or n > 1):
                    continue
                anchor = rng.choice(anchors)
                K = 5 if q in ("DAYS", "WEEKS", "MONTHS") else 3
                st = interval_starts(q, n, sow, anchor, K + 1)
                edge = []
                for x in st[:K + 1]:
                    edge += [x - one, x, x + one]
                for fo in (None, -1, 0, 1):
                    for to in (None, -1, 0, 1):
                        if fo is None and to is None and n > 1:
                            continue
                        if tier == "quick" and rng.random() < 0.5:
                            continue
                        frm = st[1] + one * fo if fo is not None else None
                        t = st[K] + one * to if to is not None else None
                        for align in ((False, True) if frm is not None else (False,)):
                            posts = [(d, "X:a", Fraction(100 + i, 100)) for i, d in enumerate(edge)]
                            if rng.random() < 0.5:
                                posts = posts[::-1]                     # file order reversed
                            cases.append(Case(q, n, spelling_of(rng, q, n), frm, t, None, sow, align, rng.random() < 0.7, posts))
    # month-end anchors with --align-intervals
    for y, m, d in ((2019, 1, 28), (2019, 1, 29), (2019, 1, 30), (2019, 1, 31), (2020, 1, 29), (2020, 1, 30), (2020, 1, 31),
                    (2020, 2, 29), (2019, 2, 28), (2020, 3, 31), (2020, 8, 31), (2019, 12, 31), (2020, 11, 30)):
        for q, n in (("MONTHS", 1), ("MONTHS", 2), ("QUARTERS", 1), ("YEARS", 1), ("MONTHS", 11)):
            frm = ymd(y, m, d)
            st = [frm]
            for _ in range(5):
                st.append(add_dur(st[-1], q, n))
            posts = []
            for x in st:
                posts += [(x - one, "X:a", Fraction(1)), (x, "X:b", Fraction(2)), (x + one, "X:a", Fraction(3))]
            for align in (True, False):
                cases.append(Case(q, n, "every %d %s" % (n, PLURAL[q]), frm, None, None, 0, align, True, posts))
                cases.append(Case(q, n, "every %d %s" % (n, PLURAL[q]), frm, st[3], None, 0, align, False, posts))
    return cases


def load_corpus():
    d = os.path.join(vflib.ROOT, "corpus", "C13")
    out = []
    if os.path.isdir(d):
        for fn in sorted(os.listdir(d)):
            if fn.endswith(".json"):
                with open(os.path.join(d, fn)) as f:
                    out.append(Case.from_json(json.load(f)))
    return out


def run(tier, seed):
    ctx = Check("C13", tier, seed)
    ctx.mism = []
    ctx.rule = ("period = duration spelling (named form / every N <quantum>, N mostly 1-12) x bounds (none, from, to, both, in Y, in Y/M; "
                "dates biased to month ends, leap days, week edges) x week start 0-6 x --align-intervals x --empty, with 0-35 postings "
                "over a multi-year window; non-trivial = the report has >= 2 interval rows and at least one holds postings; distinct by "
                "(period text, options, postings)")
    ctx.assumptions = ["boost::gregorian date arithmetic is modelled by Ledger.Cal (proleptic Gregorian, end-of-month snap)",
                       "std::stable_sort is a stable sort by date",
                       "0 < length (guard of every theorem; length 0 is the finding C13:zero-length-period)",
                       "period dates are fully specified (Y/M/D, Y/M, Y); --begin/--end/--exact not combined with --period"]
    ctx.trusted = ["tools/extract_period.py (keyword tables, every-cases, add cases, normalised routine bodies)"]
    if not ctx.prepare():
        return ctx.finish()
    rng = ctx.rng
    search = bool(ctx.ties_broken)          # a proof obligation / extractor / pin broke: widen every stream
    if search:
        ctx.extra_cov["search_mode"] = [t[0] for t in ctx.ties_broken]
    wide = "thorough" if (search or tier == "thorough") else "quick"
    tmpdir = tempfile.mkdtemp(prefix="c13-")
    try:
        failing = []
        corpus = load_corpus()
        if corpus:
            failing += check_cases(ctx, corpus, tmpdir)
            ctx.feature("corpus", len(corpus))
        ex = exhaustive_cases(rng, wide)
        ctx.exhaustive = {"cases": len(ex), "what": "quantum x length x bound shape x week start x align on a fixed 18-posting pattern"}
        failing += check_cases(ctx, ex, tmpdir)
        bc = boundary_cases(rng, wide)
        ctx.extra_cov["boundary_cases"] = len(bc)
        for i in range(0, len(bc), 400):
            failing += check_cases(ctx, bc[i:i + 400], tmpdir)
        nrand = 300 if tier == "quick" else 40000
        if search and tier == "quick":
            nrand = 3000
        CH = 400
        for i in range(0, nrand, CH):
            batch = [gen_case(rng) for _ in range(min(CH, nrand - i))]
            failing += check_cases(ctx, batch, tmpdir)
        check_listings(ctx, listing_cases(rng, wide) + boundary_listing_cases(rng, wide))
        check_units(ctx, rng, 400 if tier == "quick" else 20000)
        check_parser(ctx, rng, 150 if tier == "quick" else 3000)
        check_zero_length(ctx, tmpdir)
        report_failures(ctx, failing, tmpdir)
        ctx.extra_cov["oracle_failures"] = len(failing)
        # A broken obligation / extractor / correspondence that no failing report or listing explains is
        # reported on its own (the zero-length finding is unrelated to it and must not stand in for it).
        related = [v for v in ctx.violations if v[0] != "C13:zero-length-period" and v[3]]
        if ctx.ties_broken and not related and any(v[3] for v in ctx.violations):   # otherwise Check.finish() does it
            for name, detail in list(ctx.ties_broken):
                ctx.violation("tie:" + name, "proof obligation / correspondence no longer checks: " + name,
                              {"kind": "tie", "name": name, "detail": detail[-3000:]}, found_input=False)
        if ctx.mism:
            ctx.extra_cov["mismatches"] = ctx.mism[:8]
    finally:
        shutil.rmtree(tmpdir, ignore_errors=True)
    return ctx.finish()


def replay(obj):
    r = obj.get("replay", {})
    vflib.ensure_ledger()
    tmpdir = tempfile.mkdtemp(prefix="c13r-")
    try:
        if r.get("kind") == "report":
            c = Case.from_json(r["case"])
            rc, out, err, rc2, out2, err2 = run_ledger(c, tmpdir, 0, timeout=30)
            print("period:", c.text(), "sow", c.sow, "align", c.align, "empty", c.empty)
            print("journal:\n" + c.journal())
            print("ledger now (rc=%s):\n%s%s" % (rc, out, err))
            rows = parse_rows(out) if rc == 0 else None
            if rows is None:
                return 1
            bad = oracle(c, rows, parse_plain(out2) if rc2 == 0 else None)
            for k, msg in bad:
                print("FAILS:", k, msg)
            return 1 if bad else 0
        if r.get("kind") == "listing":
            D = datetime.date.fromisoformat
            now = D(r["now"])
            rc, out, err = vflib.ledger_run(["--now", now.strftime("%Y/%m/%d"), "period", r["period"]], timeout=30)
            print(out + err)
            got = parse_period_output(out + err)
            if got is None:
                return 1
            bad = listing_oracle(r["q"], r["n"], D(r["from"]) if r["from"] else None, D(r["to"]) if r["to"] else None, now, got)
            for k, msg in bad:
                print("FAILS:", k, msg)
            return 1 if bad else 0
        if r.get("kind") == "zero":
            jp = os.path.join(tmpdir, "z.dat")
            with open(jp, "w") as f:
                f.write(r["journal"])
            rcs = []
            for t in r["periods"]:
                rc, out, err = vflib.ledger_run(["-f", jp, "reg", "^X", "--period", t, "--empty"], timeout=4)
                print("%r -> %s" % (t, "timeout (hang)" if rc is None else "rc=%s %s" % (rc, err.strip()[-100:])))
                rcs.append(rc)
            return 1 if any(x is None or x < 0 for x in rcs) else 0
    finally:
        shutil.rmtree(tmpdir, ignore_errors=True)
    print(json.dumps(obj, indent=1)[:3000])
    return 1
