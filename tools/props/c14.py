"""C14 — dates read and print consistently; impossible dates are rejected.

Theorems: lean/LedgerModel/Props/C14.lean (calendar bijection / order / weekday for all
integers; reader completeness and soundness for the extracted reader list).
Tie: Gen/DateReaders.lean is re-extracted from times.cc on every run (reader list,
formats, separator rule, length limit, year-inference form, pinned function bodies), and
the model's executable `parseDate` / `formatDate` / calendar functions are run against the
rebuilt binary on every case below.
Oracle on the implementation (independent of the Lean model): Python's proleptic Gregorian
calendar (`datetime.date`) — the day ledger reports for a spelling, its weekday name, the
order of consecutive days and the print/re-read round trip must be Python's; a text that
is not a real date must be refused (error text, no value; non-zero exit for journals).
"""
import os, re, sys, json, datetime, tempfile, itertools
import vflib
from vflib import Check

MANIFEST = dict(
    text="Machine-checked proof (Lean 4) that the day-number functions of the date model are a bijection between real "
         "proleptic-Gregorian dates and all integers (toYMD/ofYMD inverse both ways, no enumeration), that day order is "
         "lexicographic (year, month, day) order and that the weekday advances by one per day from a proved anchor; that "
         "the modelled reader (strptime field rules, the reader list re-extracted from times.cc, separator normalisation, "
         "re-format-and-compare acceptance test, year inference) reads every valid day 1400..9999 in every accepted spelling "
         "(36 full spellings, year/month, MM/DD under a year) as exactly that day, accepts nothing but those spellings, and "
         "re-reads what it prints. Correspondence with the rebuilt binary is exhaustive on 1900-01-01..2199-12-31 x 6 spellings "
         "(thorough tier; a seeded multi-year window in quick), every impossible year/month/day triple for leap, non-leap and "
         "century years, journals under a year directive, --now boundaries, random --input-date-format/--date-format pairs and a "
         "malformed stream; Python's datetime is the independent oracle on ledger's own answers.",
    note="External and trusted (modelled from their specification, exercised exhaustively by the correspondence): glibc "
         "strptime/strftime for %Y %y %m %d (and %a %A %b %B on output) in the C locale, boost::gregorian date construction "
         "range checks, `date - years(1)` and day_of_week. Text is modelled as characters (ASCII). Other strptime directives "
         "are outside the model (the driver answers `unsupported`, such formats are not generated). "
         "Finding reported by this check: MM/DD with a clock-inferred previous year goes through boost's end-of-month snap "
         "(02/28 read in January 2021 becomes 2020-02-29; 02/29 read in January 2020 becomes 2019-02-28).",
    technique="Lean 4 proof (omega case analysis on calendar arithmetic; symbolic execution of the reader model) + regenerated "
              "reader table / pinned function bodies + exhaustive differential model/binary check with a datetime oracle",
    ref="DESIGN.md §5 C14")

DAY_ABBR = ["Mon", "Tue", "Wed", "Thu", "Fri", "Sat", "Sun"]          # datetime.weekday(): Monday = 0
DAY_FULL = ["Monday", "Tuesday", "Wednesday", "Thursday", "Friday", "Saturday", "Sunday"]
MON_FULL = ["January", "February", "March", "April", "May", "June", "July", "August", "September",
            "October", "November", "December"]
OUTFMT = "%Y-%m-%d %a %A"
EPOCH = datetime.date(1970, 1, 1)


def enc(s):
    return "".join(c if 0x21 <= ord(c) <= 0x7e and c != "%" else "".join("%%%02X" % b for b in c.encode("utf-8", "replace")) if ord(c) > 0x7f else "%%%02X" % ord(c) for c in s)


def dec(s):
    return re.sub(r"%([0-9A-Fa-f]{2})", lambda m: chr(int(m.group(1), 16)), s)


def is_date(y, m, d):
    try:
        datetime.date(y, m, d)
        return True
    except ValueError:
        return False


def render(date, fmt):
    """Independent strftime for the directives the streams use (C locale)."""
    out = []
    i = 0
    while i < len(fmt):
        c = fmt[i]
        if c == "%" and i + 1 < len(fmt):
            k = fmt[i + 1]
            i += 2
            if k == "Y":
                out.append("%04d" % date.year)
            elif k == "y":
                out.append("%02d" % (date.year % 100))
            elif k == "m":
                out.append("%02d" % date.month)
            elif k == "d":
                out.append("%02d" % date.day)
            elif k == "a":
                out.append(DAY_ABBR[date.weekday()])
            elif k == "A":
                out.append(DAY_FULL[date.weekday()])
            elif k == "b":
                out.append(MON_FULL[date.month - 1][:3])
            elif k == "B":
                out.append(MON_FULL[date.month - 1])
            elif k == "%":
                out.append("%")
            else:
                raise ValueError(k)
        else:
            out.append(c)
            i += 1
    return "".join(out)


def expect_text(date):
    return render(date, OUTFMT)


FULL_RE = re.compile(r"^(\d{4})([/.\-])(\d{1,2})([/.\-])(\d{1,2})$")
YM_RE = re.compile(r"^(\d{4})([/.\-])(\d{1,2})$")
MD_RE = re.compile(r"^(\d{1,2})([/.\-])(\d{1,2})$")


def oracle_default(text, cur):
    """What the property says about `text` under the default readers with clock (year, month) = cur:
    ('date', date) — it is an accepted spelling of that day; ('reject',) — it is not a date and must be refused;
    ('open',) — the property does not decide (not generated on purpose)."""
    m = FULL_RE.match(text)
    if m:
        y, mo, d = int(m.group(1)), int(m.group(3)), int(m.group(5))
        if 1400 <= y <= 9999 and is_date(y, mo, d):
            return ("date", datetime.date(y, mo, d))
        return ("reject",)
    m = YM_RE.match(text)
    if m:
        y, mo = int(m.group(1)), int(m.group(3))
        if 1400 <= y <= 9999 and 1 <= mo <= 12:
            return ("date", datetime.date(y, mo, 1))
        return ("reject",)
    m = MD_RE.match(text)
    if m:
        mo, d = int(m.group(1)), int(m.group(3))
        y = cur[0] if mo <= cur[1] else cur[0] - 1
        if 1400 <= y <= 9999 and is_date(y, mo, d):
            if not is_date(cur[0], mo, d):
                # 29 February meant for last (leap) year while this year is not leap: ledger refuses it because
                # strptime's result is first built in the current year; refusing is not shifting -> not decided
                return ("open",)
            return ("date", datetime.date(y, mo, d))
        return ("reject",)
    return ("reject",)


def err_kind(text):
    if "Invalid date" in text:
        return "invalid"
    if "Year is out of valid range" in text:
        return "badYear"
    if "Day of month is not valid for year" in text:
        return "badDay"
    if "Error:" in text:
        return "other"
    return None


def canon_repl(out):
    """REPL answer -> ('ok', text) | ('err', kind) | ('died',)"""
    if out is None:
        return ("died",)
    o = out.strip()
    k = err_kind(o)
    if k:
        return ("err", k)
    return ("ok", o.split("\n")[-1] if o else "")


def canon_model(line):
    f = line.split("\t")
    if f[0] == "ok":
        return ("ok",) + tuple(f[1:])
    return ("err", f[1] if len(f) > 1 else "?")


def model_parse_lines(texts, cur, infmt=None):
    inf = "-" if infmt is None else "=" + enc(infmt)
    return ["date.parse\t%s\t%d\t%d\t%s" % (enc(t), cur[0], cur[1], inf) for t in texts]


def ymd_of_model(ans):
    """('ok','Y-M-D') -> date"""
    y, m, d = ans[1].rsplit("-", 2)
    return datetime.date(int(y), int(m), int(d))


def quote_ok(t):
    return not any(c in t for c in "'\"\\\n\r") and all(0x20 <= ord(c) < 0x7f for c in t)


# ---------------------------------------------------------------------------------------------
# REPL evaluation of many date texts under one configuration


def repl_parse(texts, now=None, infmt=None, literal=False, chunk=2500):
    """ledger's reading of each text: list of ('ok', 'YYYY-MM-DD Abr Full') | ('err', kind) | ('died',)."""
    if literal:
        lines = ['eval "format_date([%s], \'%s\')"' % (t, OUTFMT) for t in texts]
    else:
        lines = ['eval "format_date(to_date(\'%s\'), \'%s\')"' % (t, OUTFMT) for t in texts]
    extra = []
    if now:
        extra += ["--now", now]
    if infmt:
        extra += ["--input-date-format", infmt]
    outs = vflib.repl_parallel(lines, chunk=chunk, extra_args=extra)
    return [canon_repl(o) for o in outs]


def spell6(y, m, d):
    out = []
    for sep in "/-.":
        out.append("%04d%s%02d%s%02d" % (y, sep, m, sep, d))
        out.append("%d%s%d%s%d" % (y, sep, m, sep, d))
    return out


def spell_md6(m, d):
    out = []
    for sep in "/-.":
        out.append("%02d%s%02d" % (m, sep, d))
        out.append("%d%s%d" % (m, sep, d))
    return out


def days_of(y0, y1):
    d = datetime.date(y0, 1, 1)
    end = datetime.date(y1, 12, 31)
    one = datetime.timedelta(days=1)
    while d <= end:
        yield d
        if d == datetime.date.max:
            break
        d += one


class Run:
    def __init__(self, ctx):
        self.ctx = ctx
        self.mism = []

    # -- reporting helpers ---------------------------------------------------------------
    def tie(self, op, detail, obj):
        self.ctx.tie_broken("corr:" + op, detail)
        if len(self.mism) < 12:
            self.mism.append(obj)

    def check_parse_case(self, text, cur, infmt, got, model, path, now=None):
        """One text: compare binary vs model (tie) and apply the datetime oracle to the binary's answer."""
        ctx = self.ctx
        ctx.count()
        # --- tie
        if model is not None:
            mm = canon_model(model)
            if got[0] == "ok" and mm[0] == "ok":
                same = got[1].split(" ")[0] == ymd_of_model(mm).isoformat()
            elif got[0] == "err" and mm[0] == "err":
                same = got[1] == mm[1]
            else:
                same = False
            if mm == ("err", "unsupported"):
                ctx.feature("model:unsupported")
            elif not same:
                self.tie("date.parse", "text %r cur=%s infmt=%r: ledger=%r model=%r (%s)" % (text, cur, infmt, got, mm, path),
                         {"text": text, "cur": cur, "infmt": infmt, "ledger": got, "model": mm, "path": path})
            else:
                ctx.traces_validated += 1
        if got[0] == "died":
            ctx.violation("C14:crash:" + path, "ledger died while reading the date %r" % text,
                          self.replay_obj(path, text, now, infmt, "an error message or a date"))
            return
        # --- oracle
        if infmt is not None:
            return
        want = oracle_default(text, cur)
        ctx.feature("oracle:" + want[0])
        if want[0] == "date":
            exp = expect_text(want[1])
            if got[0] == "ok":
                if got[1] != exp:
                    cls = self.classify_wrong(text, cur, want[1], got[1])
                    ctx.violation(cls, "%r (clock %d-%02d) is read as %r, the Gregorian calendar says %r" % (text, cur[0], cur[1], got[1], exp),
                                  self.replay_obj(path, text, now, infmt, exp))
            else:
                ctx.violation("C14:rejects-valid:" + self.form_of(text), "%r is a real date in an accepted form but is refused (%s)" % (text, got[1]),
                              self.replay_obj(path, text, now, infmt, exp))
        elif want[0] == "reject":
            if got[0] == "ok":
                cls = self.classify_accept(text, cur)
                ctx.violation(cls, "%r (clock %d-%02d) is not a real date but is accepted as %r" % (text, cur[0], cur[1], got[1]),
                              self.replay_obj(path, text, now, infmt, "an error"))

    @staticmethod
    def form_of(text):
        if FULL_RE.match(text):
            return "ymd"
        if YM_RE.match(text):
            return "ym"
        if MD_RE.match(text):
            return "md"
        return "other"

    def classify_wrong(self, text, cur, want, got):
        if MD_RE.match(text) and want.year == cur[0] - 1:
            return "C14:mmdd-clock-year:eom-snap"
        return "C14:wrong-day:" + self.form_of(text)

    def classify_accept(self, text, cur):
        m = MD_RE.match(text)
        if m and int(m.group(1)) > cur[1] and 1 <= int(m.group(1)) <= 12:
            return "C14:mmdd-clock-year:eom-snap"
        m = FULL_RE.match(text)
        if m:
            y, mo, d = int(m.group(1)), int(m.group(3)), int(m.group(5))
            if not 1 <= mo <= 12:
                return "C14:accepts-impossible:month"
            if not 1 <= d <= 31:
                return "C14:accepts-impossible:day"
            if mo == 2 and d == 29:
                return "C14:accepts-impossible:feb29"
            return "C14:accepts-impossible:day-of-month"
        if re.match(r"^\d{4}[/.\-]\d{1,2}[/.\-]\d{1,2}", text):
            return "C14:accepts-impossible:trailing"
        return "C14:accepts-impossible:malformed"

    def replay_obj(self, path, text, now, infmt, expect):
        return {"kind": path, "text": text, "now": now, "infmt": infmt, "expect": expect}

    # -- streams -------------------------------------------------------------------------------
    def exhaustive(self, y0, y1):
        """every day y0-01-01..y1-12-31 x 6 spellings through to_date (direct parse_date), the canonical
        spelling through a [date] literal compared with its successor, model on all of it."""
        ctx = self.ctx
        cur = (2030, 12)
        days = list(days_of(y0, y1))
        texts = []
        for d in days:
            texts += spell6(d.year, d.month, d.day)
        got = repl_parse(texts)
        model = vflib.driver_run(model_parse_lines(texts, cur))
        # the clock of the REPL runs is the real one; full dates do not depend on it
        for t, g, m in zip(texts, got, model):
            self.check_parse_case(t, cur, None, g, m, "to_date")
        for d in days:
            ctx.nontrivial(d.isoformat())
        # order of consecutive days + literal path
        one = datetime.timedelta(days=1)
        lines = []
        odays = [d for d in days if d != datetime.date.max]
        for d in odays:
            n = d + one
            lines.append('eval "[%04d/%02d/%02d] < [%d-%d-%d]"' % (d.year, d.month, d.day, n.year, n.month, n.day))
            lines.append('eval "[%d.%d.%d] < [%04d/%02d/%02d]"' % (n.year, n.month, n.day, d.year, d.month, d.day))
        outs = vflib.repl_parallel(lines, chunk=3000)
        for i, d in enumerate(odays):
            ctx.count()
            a, b = canon_repl(outs[2 * i]), canon_repl(outs[2 * i + 1])
            if a != ("ok", "1") or b != ("ok", "0"):
                n = d + one
                ctx.violation("C14:order", "%s < %s evaluates to %r and the converse to %r" % (d, n, a, b),
                              {"kind": "order", "a": d.isoformat(), "b": n.isoformat(), "expect": "1 / 0"})
            else:
                ctx.traces_validated += 1
        # model's format + weekday against Python, and against ledger's format of the same day
        fl = []
        for d in days:
            fl.append("date.format\t%d\t%s" % ((d - EPOCH).days, enc(OUTFMT)))
        mf = vflib.driver_run(fl)
        for d, ans in zip(days, mf):
            a = canon_model(ans)
            if a[0] != "ok" or dec(a[1]) != expect_text(d):
                self.tie("date.format", "model formats %s as %r" % (d, a), {"day": d.isoformat(), "model": a})
        ctx.feature("exhaustive-days", len(days))
        ctx.feature("exhaustive-spellings", len(texts))
        return len(days)

    def journals_by_year(self, years, spell_rot):
        """One journal per year: `Y year`, then every day as MM/DD (6 spellings rotating or all) and as full
        dates; reg through format_date, print with --date-format, print | re-read."""
        ctx = self.ctx

        def one(y):
            days = list(days_of(y, y))
            lines = ["Y %d" % y]
            want = []
            src = []
            for i, d in enumerate(days):
                sp = spell_md6(d.month, d.day) + spell6(d.year, d.month, d.day)
                if spell_rot:
                    sp = [sp[i % 6], sp[6 + (i // 6) % 6]]
                for t in sp:
                    lines.append("%s p\n    A  1\n    B" % t)
                    want.append(d)
                    src.append(t)
            text = "\n".join(lines) + "\n"
            with tempfile.TemporaryDirectory() as td:
                p = os.path.join(td, "j.dat")
                with open(p, "w") as f:
                    f.write(text)
                fmtarg = '%(format_date(date, "' + OUTFMT + '"))\n'
                r1 = vflib.ledger_run(["-f", p, "reg", "^A", "--format", fmtarg])
                r2 = vflib.ledger_run(["-f", p, "print", "--date-format", "%d.%m.%Y"])
                r3 = vflib.ledger_run(["-f", p, "print"])
                p2 = os.path.join(td, "k.dat")
                with open(p2, "w") as f:
                    f.write(r3[1])
                r4 = vflib.ledger_run(["-f", p2, "reg", "^A", "--format", fmtarg])
            return y, want, src, r1, r2, r3, r4

        for y, want, src, r1, r2, r3, r4 in vflib.pmap(one, years):
            rows = r1[1].split("\n")[:-1]
            if r1[0] != 0 or len(rows) != len(want):
                # localise: which text is refused / which row is missing
                bad = self.localise_journal(y, src, want)
                ctx.violation("C14:rejects-valid:journal", "journal of year %d under `Y %d`: exit %s, %d rows for %d transactions; %s" %
                              (y, y, r1[0], len(rows), len(want), bad),
                              {"kind": "journal-year", "year": y, "first_bad": bad, "stderr": r1[2][-400:], "expect": "every date accepted"})
                continue
            for t, d, row in zip(src, want, rows):
                ctx.count()
                if row != expect_text(d):
                    ctx.violation("C14:wrong-day:journal:" + self.form_of(t), "under `Y %d` the transaction date %r is read as %r, expected %r" % (y, t, row, expect_text(d)),
                                  {"kind": "journal", "year_directive": y, "text": t, "expect": expect_text(d)})
                else:
                    ctx.traces_validated += 1
            # print --date-format
            heads = [l for l in r2[1].split("\n") if l and l[0].isdigit()]
            if r2[0] != 0 or len(heads) != len(want) or any(h.split(" ")[0] != render(d, "%d.%m.%Y") for h, d in zip(heads, want)):
                k = next((i for i, (h, d) in enumerate(zip(heads, want)) if h.split(" ")[0] != render(d, "%d.%m.%Y")), None)
                ctx.violation("C14:print-date-format", "print --date-format %%d.%%m.%%Y of year %d writes a wrong date (first at index %s: %r)" %
                              (y, k, heads[k] if k is not None and k < len(heads) else None),
                              {"kind": "journal-year", "year": y, "expect": "dates rendered as dd.mm.yyyy"})
            # print | re-read
            rows4 = r4[1].split("\n")[:-1]
            ctx.count()
            if r3[0] != 0 or r4[0] != 0 or rows4 != rows:
                k = next((i for i, (a, b) in enumerate(zip(rows, rows4)) if a != b), None)
                ctx.violation("C14:print-reread", "year %d: dates change when `print` output is read back (first difference at transaction %s)" % (y, k),
                              {"kind": "journal-year", "year": y, "expect": "identical dates after print | re-read"})
            else:
                ctx.traces_validated += 1
            ctx.feature("journal-years")

    def localise_journal(self, y, src, want):
        for t, d in list(zip(src, want)):
            rc, out, err = self.run_one_journal(t, year=y)
            if rc != 0 or out.strip() != expect_text(d):
                return "text %r -> rc=%s out=%r err=%r" % (t, rc, out.strip(), err.strip().split("\n")[-1] if err.strip() else "")
        return "no single transaction reproduces it"

    @staticmethod
    def run_one_journal(text, year=None, now=None, infmt=None, aux=None):
        head = "Y %d\n" % year if year else ""
        datefield = text if aux is None else "%s=%s" % (text, aux)
        j = "%s%s p\n    A  1\n    B\n" % (head, datefield)
        with tempfile.TemporaryDirectory() as td:
            p = os.path.join(td, "j.dat")
            with open(p, "w", errors="surrogateescape") as f:
                f.write(j)
            args = ["-f", p, "reg", "^A", "--format", '%(format_date(date, "' + OUTFMT + '"))\n']
            if now:
                args += ["--now", now]
            if infmt:
                args += ["--input-date-format", infmt]
            return vflib.ledger_run(args)

    def impossible(self, years, journal_every):
        """every (month, day) in an extended grid for the given years: valid ones must read exactly, all others must
        be refused, through to_date, [literal] and (a share of them) one-transaction journals with exit status."""
        ctx = self.ctx
        cur = (2030, 12)
        months = list(range(0, 15)) + [19, 20, 21, 99]
        dayset = list(range(0, 34)) + [39, 40, 41, 99]
        cases = []
        for y in years:
            for m in months:
                for d in dayset:
                    for sep, pad in (("/", True), ("-", False), (".", True)):
                        if pad:
                            cases.append("%04d%s%02d%s%02d" % (y, sep, m, sep, d))
                        else:
                            cases.append("%d%s%d%s%d" % (y, sep, m, sep, d))
        # year range boundaries
        for y in (0, 1, 99, 999, 1000, 1399, 1400, 1401, 9998, 9999, 10000, 12020):
            for md in ("01/01", "12/31", "02/29", "2/28"):
                cases.append("%d/%s" % (y, md))
        cases = list(dict.fromkeys(cases))
        got = repl_parse(cases)
        got_lit = repl_parse(cases, literal=True)
        model = vflib.driver_run(model_parse_lines(cases, cur))
        for t, g, gl, m in zip(cases, got, got_lit, model):
            self.check_parse_case(t, cur, None, g, m, "to_date")
            self.check_parse_case(t, cur, None, gl, m, "literal")
            if oracle_default(t, cur)[0] == "reject":
                ctx.nontrivial(("imp", t))
        ctx.feature("impossible-grid", len(cases))
        # journals: exit status
        sub = [t for i, t in enumerate(cases) if i % journal_every == 0 or re.search(r"[/.\-]0?2[/.\-](28|29|30)$", t)]

        def one(t):
            return t, self.run_one_journal(t)
        for t, (rc, out, err) in vflib.pmap(one, sub):
            ctx.count()
            want = oracle_default(t, cur)
            if want[0] == "date":
                if rc != 0 or out.strip() != expect_text(want[1]):
                    ctx.violation("C14:wrong-day:journal:ymd" if rc == 0 else "C14:rejects-valid:journal",
                                  "transaction dated %r: exit %s, date %r, expected %r" % (t, rc, out.strip(), expect_text(want[1])),
                                  {"kind": "journal", "text": t, "expect": expect_text(want[1])})
                else:
                    ctx.traces_validated += 1
            else:
                if rc == 0 or out.strip() or "Error:" not in err:
                    ctx.violation(self.classify_accept(t, cur), "transaction dated %r is not a real date: exit %s, output %r, stderr %r" %
                                  (t, rc, out.strip(), err.strip()[-120:]),
                                  {"kind": "journal", "text": t, "expect": "non-zero exit and an error"})
                else:
                    ctx.traces_validated += 1
                    ctx.feature("journal-rejected:" + (err_kind(err) or "?"))
        # aux dates and bracketed note dates go through the same reader
        aux_cases = [("2020/02/28", "2020/02/30"), ("2020/02/28", "2019/02/29"), ("2020/02/28", "2020/13/01"), ("2020/02/28", "2020/03/01x")]
        for a, b in aux_cases:
            rc, out, err = self.run_one_journal(a, aux=b)
            ctx.count()
            if rc == 0 or "Error:" not in err:
                ctx.violation("C14:accepts-impossible:aux-date", "auxiliary date %r is accepted (exit %s)" % (b, rc),
                              {"kind": "journal", "text": a, "aux": b, "expect": "non-zero exit and an error"})
            else:
                ctx.traces_validated += 1

    def clock_year(self, nows):
        """MM/DD without a year directive: the year comes from the clock (--now): this year if the month is not
        after the current month, else last year (times.cc 164-169). Boundaries: month = current month, +-1,
        last days of months, 29 February around leap years."""
        ctx = self.ctx
        mds = []
        for m in range(1, 13):
            for d in (1, 2, 27, 28, 29, 30, 31):
                mds.append((m, d))
        for now in nows:
            cur = (int(now[:4]), int(now[5:7]))
            texts = []
            for m, d in mds:
                texts += ["%02d/%02d" % (m, d), "%d-%d" % (m, d)]
            texts += ["13/01", "00/10", "1/0", "1/32", "12/32", "2/30", "4/31", "1/1/1", "01/01x", "1/", "/1"]
            texts = list(dict.fromkeys(texts))
            got = repl_parse(texts, now=now)
            model = vflib.driver_run(model_parse_lines(texts, cur))
            for t, g, m in zip(texts, got, model):
                self.check_parse_case(t, cur, None, g, m, "to_date", now=now)
                ctx.nontrivial(("now", now, t))
            ctx.feature("clock-year-configs")
        # the same through journals for the february cases (exit status)
        for now, t in [("2021/01/15", "02/28"), ("2020/01/15", "02/29"), ("2021/03/01", "02/28"), ("2024/02/10", "03/31")]:
            cur = (int(now[:4]), int(now[5:7]))
            rc, out, err = self.run_one_journal(t, now=now)
            g = ("ok", out.strip()) if rc == 0 else ("err", err_kind(err) or "other")
            self.check_parse_case(t, cur, None, g, None, "journal", now=now)

    def format_pairs(self, n):
        """random --input-date-format / --date-format pairs on random days; text written by the independent renderer
        (with and without zero padding), read by ledger, printed with the output format."""
        ctx = self.ctx
        rng = ctx.rng
        seps = ["/", "-", ".", "", " ", ",", ":", "_", "x"]
        jobs = []
        for i in range(n):
            order = rng.choice([("%Y", "%m", "%d"), ("%d", "%m", "%Y"), ("%m", "%d", "%Y"), ("%Y", "%d", "%m"),
                                ("%d", "%m", "%y"), ("%y", "%m", "%d"), ("%m", "%d", "%y")])
            s1 = rng.choice(seps)
            s2 = rng.choice(seps)
            if " " in (s1, s2):
                s1 = s2 = rng.choice(["/", "-", "."])   # a blank would end the date field of a transaction
            infmt = order[0] + s1 + order[1] + s2 + order[2]
            two_digit = "%y" in infmt
            if two_digit:
                y = rng.choice([1969, 1970, 1999, 2000, 2001, 2024, 2068, rng.randint(1969, 2068)])
            else:
                y = rng.choice([1400, 1900, 1999, 2000, 2024, 2100, 9999, rng.randint(1400, 9999)])
            m = rng.randint(1, 12)
            d = rng.choice([1, 28, rng.randint(1, 28), 29, 30, 31])
            while not is_date(y, m, d):
                d -= 1
            date = datetime.date(y, m, d)
            padded = render(date, infmt)
            text = padded
            if rng.random() < 0.4 and s1 != "" and s2 != "":
                # drop leading zeros of month/day
                parts = []
                for k in order:
                    v = render(date, k)
                    parts.append(v.lstrip("0") if k in ("%m", "%d") else v)
                text = parts[0] + s1 + parts[1] + s2 + parts[2]
            outfmt = rng.choice(["%Y-%m-%d", "%d.%m.%Y %a", "%A, %d %B %Y", "%y%m%d", "%b %d %Y", "%m/%d/%y %a", "%Y/%m/%d", "%d-%b-%y", "%%%Y"])
            jobs.append((infmt, outfmt, text, date))
        # also: with an input format in force, the built-in forms still work except `.` normalisation
        for t in ("2020/02/29", "2020-02-29", "2020.02.29", "2020-2-9", "2/29", "02-29", "2020/02/30"):
            jobs.append(("%d.%m.%Y", "%Y-%m-%d", t, None))

        def one(job):
            infmt, outfmt, text, date = job
            j = "%s p\n    A  1\n    B\n" % text
            with tempfile.TemporaryDirectory() as td:
                p = os.path.join(td, "j.dat")
                with open(p, "w") as f:
                    f.write(j)
                # --now is read with the same reader list: write it in the input format
                r = vflib.ledger_run(["-f", p, "--input-date-format", infmt, "--date-format", outfmt,
                                      "--now", render(datetime.date(2030, 12, 31), infmt),
                                      "reg", "^A", "--format", "%(format_date(date))|%(format_date(date, \"%Y-%m-%d\"))\n"])
            return r
        outs = vflib.pmap(one, jobs)
        cur = (2030, 12)
        ml = []
        for infmt, outfmt, text, date in jobs:
            ml.append("date.parse\t%s\t%d\t%d\t=%s" % (enc(text), cur[0], cur[1], enc(infmt)))
        model = vflib.driver_run(ml)
        fl = []
        for (infmt, outfmt, text, date), m in zip(jobs, model):
            mm = canon_model(m)
            n = (ymd_of_model(mm) - EPOCH).days if mm[0] == "ok" else 0
            fl.append("date.format\t%d\t%s" % (n, enc(outfmt)))
        mfmt = vflib.driver_run(fl)
        for (infmt, outfmt, text, date), (rc, out, err), m, mf in zip(jobs, outs, model, mfmt):
            ctx.count()
            mm = canon_model(m)
            if rc == 0:
                printed, _, iso = out.strip().partition("|")
                got = ("ok", iso)
            else:
                printed = None
                got = ("err", err_kind(err) or "other")
            # tie
            if mm[0] == "ok" and got[0] == "ok":
                same = ymd_of_model(mm).isoformat() == iso and dec(canon_model(mf)[1]) == printed
            else:
                same = mm[0] == got[0] and mm[1] == got[1]
            if not same:
                self.tie("date.parse+format", "--input-date-format %r --date-format %r text %r: ledger=%r/%r model=%r/%r" %
                         (infmt, outfmt, text, got, printed, mm, mf), {"infmt": infmt, "outfmt": outfmt, "text": text, "ledger": [got, printed], "model": [mm, mf]})
            else:
                ctx.traces_validated += 1
            # oracle
            if date is not None:
                exp = render(date, outfmt)
                if got[0] != "ok" or iso != date.isoformat() or printed != exp:
                    ctx.violation("C14:format-pair", "--input-date-format %r reads %r as %r and --date-format %r prints %r; expected %s printed %r" %
                                  (infmt, text, got, outfmt, printed, date, exp),
                                  {"kind": "format-pair", "infmt": infmt, "outfmt": outfmt, "text": text, "expect": exp, "expect_iso": date.isoformat()})
                ctx.nontrivial(("fmt", infmt, outfmt, text))
            ctx.sample({"input_format": infmt, "date_format": outfmt, "text": text, "ledger": out.strip() or err.strip()[-80:]}, cap=4)
        ctx.feature("format-pairs", len(jobs))

    def malformed(self, n):
        """mutated and random date-like texts read by to_date; whatever is not an accepted spelling must be refused."""
        ctx = self.ctx
        rng = ctx.rng
        alpha = "0123456789/-.0123456789 xX:+,_%#aZ"
        texts = ["", "/", "-", ".", "//", "2020", "2020/", "2020//", "2020//1", "2020/1/", "/1/1", "2020/01/01/", "2020/01/01/01",
                 "2020/1/1 ", " 2020/1/1", "2020/ 1/1", "2020/1/ 1", "+2020/01/01", "2020/+1/1", "2020/01/+1", "2020/01/1.0", "2020/01/001",
                 "2020/001/01", "02020/01/01", "20200101", "2020/0101", "202/01/01", "20/01/01", "2/01/01", "99/12/31", "69/01/01", "68/12/31",
                 "00/01/01", "2020/1/1x", "2020/1/1/", "2020/1/1-", "2020/1/1.", "2020/1/10", "2020/1/100", "2020/10/1", "2020/100/1",
                 "0/0", "1/1", "12/31", "13/1", "1/32", "0x10/1/1", "2020/1/1%", "%Y/%m/%d", "2020\t1\t1", "2020/02/29T00:00", "2020/02/29 00:00:00",
                 "1" * 126, "1" * 127, "1" * 128, "1" * 129, "2020/01/01" + "0" * 117, "2020/01/01" + "0" * 118, "2020/01/0" + " " * 118 + "1"]
        base = [datetime.date(rng.randint(1400, 9999), rng.randint(1, 12), rng.randint(1, 28)) for _ in range(max(1, n // 6))]
        for d in base:
            s = rng.choice(spell6(d.year, d.month, d.day))
            for _ in range(5):
                t = list(s)
                op = rng.choice(["del", "ins", "sub", "swap", "dup"])
                k = rng.randrange(len(t))
                if op == "del":
                    del t[k]
                elif op == "ins":
                    t.insert(k, rng.choice(alpha))
                elif op == "sub":
                    t[k] = rng.choice(alpha)
                elif op == "swap" and k + 1 < len(t):
                    t[k], t[k + 1] = t[k + 1], t[k]
                else:
                    t.insert(k, t[k])
                texts.append("".join(t))
        for _ in range(n // 6):
            texts.append("".join(rng.choice(alpha) for _ in range(rng.randint(1, 12))))
        texts = [t for t in dict.fromkeys(texts) if quote_ok(t)]
        now = "2030/12/31"
        cur = (2030, 12)
        got = repl_parse(texts, now=now, chunk=500)
        model = vflib.driver_run(model_parse_lines(texts, cur))
        for t, g, m in zip(texts, got, model):
            self.check_parse_case(t, cur, None, g, m, "to_date", now=now)
            if oracle_default(t, cur)[0] == "reject":
                ctx.nontrivial(("mal", t))
        ctx.feature("malformed", len(texts))

    def mixed_spellings(self, n):
        """the spellings the exhaustive stream leaves out: independent separators and independent padding."""
        ctx = self.ctx
        rng = ctx.rng
        texts = []
        for _ in range(n):
            y = rng.choice([1400, 1599, 1600, 1900, 2000, 2100, 9999, rng.randint(1400, 9999)])
            m = rng.randint(1, 12)
            d = rng.randint(1, 31)
            while not is_date(y, m, d):
                d -= 1
            ms = "%02d" % m if rng.random() < 0.5 else "%d" % m
            ds = "%02d" % d if rng.random() < 0.5 else "%d" % d
            texts.append("%d%s%s%s%s" % (y, rng.choice("/-."), ms, rng.choice("/-."), ds))
            if rng.random() < 0.2:
                texts.append("%d%s%s" % (y, rng.choice("/-."), ms))
        texts = list(dict.fromkeys(texts))
        cur = (2030, 12)
        got = repl_parse(texts)
        model = vflib.driver_run(model_parse_lines(texts, cur))
        for t, g, m in zip(texts, got, model):
            self.check_parse_case(t, cur, None, g, m, "to_date")
            ctx.nontrivial(("mix", t))
        ctx.feature("mixed-spellings", len(texts))

    def calendar_model(self, n):
        """the model's calendar functions against datetime on boundary and random day numbers (tie of cal.* ops)."""
        ctx = self.ctx
        rng = ctx.rng
        lo = (datetime.date(1, 1, 1) - EPOCH).days
        hi = (datetime.date(9999, 12, 31) - EPOCH).days
        ns = [lo, lo + 1, hi - 1, hi, -1, 0, 1, 59, 60, 11016, 11017, -25567, -25568]
        for y in (1, 4, 100, 400, 1400, 1582, 1600, 1700, 1900, 1970, 2000, 2100, 2400, 9999):
            for m, d in ((1, 1), (2, 28), (3, 1), (12, 31)):
                ns.append((datetime.date(y, m, d) - EPOCH).days)
        ns += [rng.randint(lo, hi) for _ in range(n)]
        ans = vflib.driver_run(["cal.toymd\t%d" % k for k in ns] + ["date.weekday\t%d" % k for k in ns])
        for i, k in enumerate(ns):
            ctx.count()
            d = EPOCH + datetime.timedelta(days=k)
            a = ans[i].split("\t")
            w = ans[len(ns) + i].split("\t")
            if a != ["ok", str(d.year), str(d.month), str(d.day)] or w != ["ok", str((d.weekday() + 1) % 7)]:
                self.tie("cal.toymd", "day %d: model %r / weekday %r, datetime %s weekday %d" % (k, a, w, d, (d.weekday() + 1) % 7),
                         {"n": k, "model": a, "weekday": w})
        trip = []
        for y in (1400, 1900, 2000, 2019, 2020, 2100, 9999):
            for m in range(0, 14):
                for d in (0, 1, 28, 29, 30, 31, 32):
                    trip.append((y, m, d))
        ans = vflib.driver_run(["cal.ofymd\t%d\t%d\t%d" % t for t in trip])
        for (y, m, d), a in zip(trip, ans):
            ctx.count()
            f = a.split("\t")
            ok = is_date(y, m, d)
            if f[2] != ("1" if ok else "0") or (ok and int(f[1]) != (datetime.date(y, m, d) - EPOCH).days):
                self.tie("cal.ofymd", "%s: model %r" % ((y, m, d), f), {"ymd": [y, m, d], "model": f})
        bad = vflib.driver_run(["date.parse\tx", "nosuch.op\t1", "cal.toymd\tabc", "date.format\t1"])
        if any(not b.startswith("err\tbad-op") for b in bad):
            self.tie("proto", "driver does not refuse malformed ops: %r" % bad, {"answers": bad})


def run(tier, seed):
    ctx = Check("C14", tier, seed)
    R = Run(ctx)
    ctx.rule = ("every day of the tier's year range x 6 spellings (separator / - . with and without leading zeros) read by ledger "
                "(to_date and [literal] paths, journals under a year directive incl. 6 MM/DD spellings) and by the model; every "
                "(month, day) of an extended grid (months 0..14,19..21,99; days 0..33,39..41,99) for leap/non-leap/century years; "
                "--now boundary clocks; random input/output format pairs; malformed texts. Non-trivial: every distinct day of the "
                "enumeration, every distinct rejected text, every distinct format pair / clock case.")
    ctx.assumptions = ["glibc strptime/strftime (C locale), boost::gregorian date checks, years(1) subtraction and day_of_week are external; "
                       "modelled from their specification and exercised exhaustively",
                       "date texts are ASCII (bytes = characters)",
                       "the REPL's clock is the real one for the exhaustive stream: only full dates (clock independent) are read there"]
    ctx.trusted = ["glibc strptime/strftime, boost::gregorian (modelled, compared exhaustively on 1900..2199)", "Python datetime as the calendar oracle"]
    if not ctx.prepare():
        return ctx.finish()
    search = bool(ctx.ties_broken)          # a proof obligation / extractor broke: widen every stream
    rng = ctx.rng
    thorough = tier == "thorough" or search
    if thorough:
        y0, y1 = 1900, 2199
        ctx.exhaustive = True
    else:
        a = rng.randint(1900, 2140)
        y0, y1 = a, a + 59
        ctx.exhaustive = False
    R.calendar_model(300 if not thorough else 20000)
    ndays = R.exhaustive(y0, y1)
    if not thorough:
        # always: the edges of the property's range and of boost's range, century and leap years
        for a, b in ((1900, 1900), (2000, 2000), (2100, 2100), (2199, 2199), (1400, 1400), (9999, 9999)):
            if not (y0 <= a <= y1):
                ndays += R.exhaustive(a, b)
    else:
        ndays += R.exhaustive(1400, 1401) + R.exhaustive(9998, 9999) + R.exhaustive(1599, 1601)
    ctx.extra_cov["exhaustive_range"] = "%d-01-01..%d-12-31" % (y0, y1)
    ctx.extra_cov["days_enumerated"] = ndays
    years = list(range(y0, y1 + 1))
    jy = years if thorough else sorted(set(rng.sample(years, 4) + [rng.choice([1900, 2000, 2100]), rng.choice([2020, 2024, 1996])]))
    R.journals_by_year(jy, spell_rot=not thorough)
    imp_years = [1900, 2000, 2100, 2019, 2020, 2023, 2024, 1400, 9999, 2199] if thorough else \
        [1900, 2000, rng.choice([2100, 2200 - 1]), rng.choice([2019, 2021, 2023]), rng.choice([2020, 2024, 1996])]
    R.impossible(imp_years, journal_every=3 if thorough else 16)
    nows = ["2021/01/15", "2020/01/15", "2020/02/29", "2021/02/28", "2024/03/01", "2023/12/31", "2000/06/30", "1900/03/01"]
    if thorough:
        nows += ["%04d/%02d/%02d" % (y, m, 10) for y in (2019, 2020, 2021, 2100) for m in range(1, 13)]
    R.clock_year(nows)
    R.format_pairs(150 if not thorough else 3000)
    R.mixed_spellings(1500 if not thorough else 40000)
    R.malformed(1500 if not thorough else 40000)
    if R.mism:
        ctx.extra_cov["mismatches"] = R.mism
    return ctx.finish()


def replay(obj):
    r = obj.get("replay") or {}
    vflib.ensure_ledger()
    kind = r.get("kind")
    if kind in ("to_date", "literal"):
        got = repl_parse([r["text"]], now=r.get("now"), infmt=r.get("infmt"), literal=(kind == "literal"))[0]
        print("text: %r  now=%s  input-date-format=%s" % (r["text"], r.get("now"), r.get("infmt")))
        print("ledger now:", got)
        print("expected:", r.get("expect"))
        if r.get("expect") in ("an error", "an error message or a date"):
            return 0 if got[0] == "err" else 1
        return 0 if got == ("ok", r.get("expect")) else 1
    if kind == "journal":
        rc, out, err = Run.run_one_journal(r["text"], year=r.get("year_directive"), now=r.get("now"), infmt=r.get("infmt"), aux=r.get("aux"))
        print("transaction date: %r  (Y %s, now %s)" % (r["text"], r.get("year_directive"), r.get("now")))
        print("ledger now: exit %s, output %r, stderr %r" % (rc, out.strip(), err.strip()[-200:]))
        print("expected:", r.get("expect"))
        if "error" in str(r.get("expect")):
            return 0 if rc != 0 and "Error:" in err and not out.strip() else 1
        return 0 if rc == 0 and out.strip() == r.get("expect") else 1
    if kind == "order":
        a, b = r["a"].replace("-", "/"), r["b"].replace("-", "/")
        outs = vflib.repl_parallel(['eval "[%s] < [%s]"' % (a, b), 'eval "[%s] < [%s]"' % (b, a)])
        got = [canon_repl(o) for o in outs]
        print("[%s] < [%s] ->" % (a, b), got[0], "; converse ->", got[1])
        return 0 if got == [("ok", "1"), ("ok", "0")] else 1
    if kind == "format-pair":
        j = "%s p\n    A  1\n    B\n" % r["text"]
        with tempfile.TemporaryDirectory() as td:
            p = os.path.join(td, "j.dat")
            open(p, "w").write(j)
            rc, out, err = vflib.ledger_run(["-f", p, "--input-date-format", r["infmt"], "--date-format", r["outfmt"],
                                             "--now", render(datetime.date(2030, 12, 31), r["infmt"]),
                                             "reg", "^A", "--format", "%(format_date(date))|%(format_date(date, \"%Y-%m-%d\"))\n"])
        print("ledger now: exit %s %r %r; expected %r|%r" % (rc, out.strip(), err.strip()[-200:], r["expect"], r["expect_iso"]))
        return 0 if rc == 0 and out.strip() == "%s|%s" % (r["expect"], r["expect_iso"]) else 1
    if kind == "journal-year":
        R = Run(Check("C14", "quick", 1))
        R.journals_by_year([r["year"]], spell_rot=False)
        print("violations on re-run:", [v[0] for v in R.ctx.violations])
        return 1 if R.ctx.violations else 0
    print(json.dumps(obj, indent=1))
    return 1
