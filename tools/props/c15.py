"""C15 — value expressions evaluate as written and survive printing.

Theorems: lean/LedgerModel/Props/C15.lean (precedence ladder, parse of minimally
parenthesised text, short circuit, constant folding, print/re-parse, scoping).
Tie: Gen.Ladder / Gen.TokenSpellings regenerated from parser.cc / token.cc on
every run (tools/extract_expr.py), and this differential check of the model's
tokeniser, parser, printer, compiler and evaluator (driver ops expr.*) against
`ledger parse` and `ledger eval` REPL batches.

Oracle on the implementation, independent of the Lean model: every generated
tree is rendered fully parenthesised and minimally parenthesised (by the
DOCUMENTED precedence: unary - ! > * / > + - > comparisons > and > or > ?:,
left associative) and in alternative spellings; ledger must parse all of them
to the tree that was generated, give the same value for all of them, that value
must equal a reference evaluation over Fractions (short circuit, lexical
scoping), and the text ledger prints for the parsed expression must evaluate to
the same value when fed back.
"""
import os, re, sys, itertools, json
from fractions import Fraction
import vflib
from vflib import Check

MANIFEST = dict(
    text="Machine-checked proof (Lean 4, 16 theorems) about a model of ledger's expression language whose parser is DRIVEN by the "
         "precedence ladder re-extracted from parser.cc on every run: the ladder and the operator spellings are the documented ones "
         "(evaluation of the generated tables); for EVERY operator tree (unary - !, the 11 binary operators, ?:) the parser returns "
         "exactly that tree from its minimally parenthesised token sequence and from the fully parenthesised one op_t::print emits, "
         "conditionals included (induction over trees, no size bound; whether print wraps the O_COLON node is a flag re-extracted from "
         "op.cc on every run, and the repaired state is itself a proof obligation); and/or/?: never evaluate the operand that is not selected; constant folding changes "
         "neither value nor error whenever folding itself raises no error (all of the modelled language, recursion included); "
         "re-binding a name that was bound where an expression was compiled never changes its value (definition-site binding); "
         "renaming a lambda parameter is harmless unless a captured definition mentions it. The bodies of the 37 C++ routines the "
         "model mirrors are pinned (rfl). The model is run against the rebuilt binary on every operator skeleton to depth 2 (thorough: "
         "all depth-3 nesting chains), boundary operands of every comparison / truth test / arity test, tokeniser edge cases, random "
         "programs to depth 7 with definitions, redefinitions, lambdas, functions and recursion, every operator spelling and a "
         "malformed stream; an independent Fraction/closure reference evaluator with the documented precedence judges ledger's own "
         "answers (tree of minimal vs full rendering, value vs reference, value of the printed text fed back).",
    note="Genuine violations found and kept visible (full statement as a def, negation proved on a witness replayed on the binary, "
         "_partial theorem with its guard): printed "
         "literals `{…}` re-read with keep-precision, which changes display-rounded truth tests; constant folding evaluates operands "
         "that short circuit skips, folds O_COLON (assertion) and folds argument lists into one sequence argument; a local definition "
         "mentioning a parameter is captured by an inner function with the same parameter name. Theorems about parsing are stated over "
         "token lists; tokeniser <-> text is tied by correspondence only. Not modelled: strings, dates, masks, =~, member lookup, "
         "sequences as values, built-in functions, prefix/quoted commodities, the private symbol table of SCOPE nodes; INTEGER/AMOUNT "
         "division is C03's known finding and is left out of the oracle. Repaired in /repo: op_t::print no longer parenthesises the O_COLON "
         "node (printed conditionals did not re-parse); its witness stays in the check as a regression probe.",
    technique="Lean 4 proof over a table-driven parser model + regenerated ladder/spellings/pinned sources + differential "
              "model/binary check with an independent reference evaluator",
    ref="DESIGN.md §5 C15")

COMMS = {"EUR": 2, "USD": 3, "XAU": 0}
WARM = 'eval "0.00 EUR + 0.000 USD + 0 XAU"'
ENV = ",".join("%s=%d" % kv for kv in COMMS.items())

F = Fraction

# ---------------------------------------------------------------------------
# trees
#  ('lit', ('num', q, dec, comm) | ('bool', b))
#  ('var', name)
#  ('un', 'neg'|'not', a)
#  ('bin', op, a, b)       op in BINOPS
#  ('cond', c, a, b)
#  ('let', name, e, body)          (name = e; body)
#  ('call', fname, [args])
#  ('lamcall', param, body, arg)   (param -> body)(arg)
# program: ('prog', [('defvar', n, e) | ('deffn', n, [params], e) | ('deflam', n, param, e)], final)

MUL = ["*", "/"]
ADD = ["+", "-"]
CMP = ["==", "!=", "<", "<=", ">", ">="]
BINOPS = MUL + ADD + CMP + ["and", "or"]
LEVEL = {"cond": 1, "or": 2, "and": 3, "un": 7, "atom": 8}
for _o in CMP:
    LEVEL[_o] = 4
for _o in ADD:
    LEVEL[_o] = 5
for _o in MUL:
    LEVEL[_o] = 6
OPKIND = {"*": "O_MUL", "/": "O_DIV", "+": "O_ADD", "-": "O_SUB", "==": "O_EQ", "<": "O_LT", "<=": "O_LTE",
          ">": "O_GT", ">=": "O_GTE", "and": "O_AND", "or": "O_OR"}
DEFAULT_SP = {"and": "&", "or": "|", "not": "! ", "div": "/", "cond": "?:"}


def lvl(t):
    k = t[0]
    if k == "bin":
        return LEVEL[t[1]]
    if k == "cond":
        return 1
    if k == "un":
        return 7
    if k in ("let",):
        return 0
    return 8


def dec_str(q, dec):
    n = q * 10 ** dec
    assert n.denominator == 1, (q, dec)
    s = str(abs(n.numerator)).rjust(dec + 1, "0")
    s = s if dec == 0 else s[:-dec] + "." + s[-dec:]
    return ("-" if n < 0 else "") + s


def lit_text(v):
    if v[0] == "bool":
        return "true" if v[1] else "false"
    _, q, dec, comm = v
    return dec_str(q, dec) + ((" " + comm) if comm else "")


def optext(op, sp):
    if op == "and":
        return sp["and"]
    if op == "or":
        return sp["or"]
    if op == "/":
        return sp["div"]
    return op


def render(t, sp=DEFAULT_SP, full=False, need=0):
    """text of t; parenthesised when `full` (every operator node) or when its level is below `need`."""
    k = t[0]
    if k == "lit":
        return lit_text(t[1])
    if k == "var":
        return t[1]
    if k == "un":
        s = ("-" if t[1] == "neg" else sp["not"]) + render(t[2], sp, full, 8)
    elif k == "bin":
        L = LEVEL[t[1]]
        s = "%s %s %s" % (render(t[2], sp, full, L), optext(t[1], sp), render(t[3], sp, full, L + 1))
    elif k == "cond":
        if sp["cond"] == "?:":
            s = "%s ? %s : %s" % (render(t[1], sp, full, 2), render(t[2], sp, full, 2), render(t[3], sp, full, 2))
        else:
            s = "%s if %s else %s" % (render(t[2], sp, full, 2), render(t[1], sp, full, 2), render(t[3], sp, full, 2))
    elif k == "let":
        return "(%s = %s; %s)" % (t[1], render(t[2], sp, full, 1), render(t[3], sp, full, 1))
    elif k == "call":
        return "%s(%s)" % (t[1], ", ".join(render(a, sp, full, 1) for a in t[2]))
    elif k == "lamcall":
        return "(%s -> %s)(%s)" % (t[1], render(t[2], sp, full, 1), render(t[3], sp, full, 1))
    else:
        raise ValueError(k)
    if full or lvl(t) < need:
        return "(" + s + ")"
    return s


def render_prog(p, sp=DEFAULT_SP, full=False):
    parts = []
    for st in p[1]:
        if st[0] == "defvar":
            parts.append("%s = %s" % (st[1], render(st[2], sp, full, 1)))
        elif st[0] == "deffn":
            parts.append("%s(%s) = %s" % (st[1], ", ".join(st[2]), render(st[3], sp, full, 1)))
        else:
            parts.append("%s = (%s -> %s)" % (st[1], st[2], render(st[3], sp, full, 1)))
    parts.append(render(p[2], sp, full, 1))
    return "; ".join(parts)


def text_of(t, sp=DEFAULT_SP, full=False):
    if t[0] == "prog":
        return render_prog(t, sp, full)
    return render(t, sp, full, 0)


# --- the tree ledger must build (independent of the Lean model): S-expression in op_t::dump's terms


def vshort(v):
    if v[0] == "bool":
        return "T:true" if v[1] else "T:false"
    _, q, dec, comm = v
    return "A:%d/%d:%s" % (q.numerator, q.denominator, comm)


def literal_node(t):
    """the literal a tree parses to when the parser folds it into one VALUE node, else None"""
    if t[0] == "lit":
        return t[1]
    if t[0] == "un":
        v = literal_node(t[2])
        if v is None:
            return None
        if t[1] == "neg":
            return ("bool", not v[1]) if v[0] == "bool" else ("num", -v[1], v[2], v[3])
        return ("bool", not v[1]) if v[0] == "bool" else ("bool", v[1] == 0)
    return None


def expected_sexpr(t):
    k = t[0]
    if k == "lit":
        return "(VALUE %s)" % vshort(t[1])
    if k == "var":
        return "(IDENT %s)" % t[1]
    if k == "un":
        v = literal_node(t)
        if v is not None:       # parser.cc 142-149, 159-166: an operand that is a VALUE node is negated / inverted in place
            return "(VALUE %s)" % vshort(v)
        return "(%s %s)" % ("O_NEG" if t[1] == "neg" else "O_NOT", expected_sexpr(t[2]))
    if k == "bin":
        if t[1] == "!=":
            return "(O_NOT (O_EQ %s %s))" % (expected_sexpr(t[2]), expected_sexpr(t[3]))
        return "(%s %s %s)" % (OPKIND[t[1]], expected_sexpr(t[2]), expected_sexpr(t[3]))
    if k == "cond":
        return "(O_QUERY %s (O_COLON %s %s))" % (expected_sexpr(t[1]), expected_sexpr(t[2]), expected_sexpr(t[3]))
    if k == "let":
        return "(O_SEQ (O_DEFINE (IDENT %s) (SCOPE %s)) %s)" % (t[1], expected_sexpr(t[2]), expected_sexpr(t[3]))
    if k == "call":
        return "(O_CALL (IDENT %s)%s)" % (t[1], cons_sexpr([expected_sexpr(a) for a in t[2]], True))
    if k == "lamcall":
        return "(O_CALL (O_LAMBDA (IDENT %s) (SCOPE %s)) %s)" % (t[1], expected_sexpr(t[2]), expected_sexpr(t[3]))
    if k == "prog":
        items = []
        for st in t[1]:
            if st[0] == "defvar":
                items.append("(O_DEFINE (IDENT %s) (SCOPE %s))" % (st[1], expected_sexpr(st[2])))
            elif st[0] == "deffn":
                items.append("(O_DEFINE (O_CALL (IDENT %s)%s) (SCOPE %s))" %
                             (st[1], cons_sexpr(["(IDENT %s)" % p for p in st[2]], True), expected_sexpr(st[3])))
            else:
                items.append("(O_DEFINE (IDENT %s) (SCOPE (O_LAMBDA (IDENT %s) (SCOPE %s))))" % (st[1], st[2], expected_sexpr(st[3])))
        items.append(expected_sexpr(t[2]))
        s = items[-1]
        for it in reversed(items[:-1]):
            s = "(O_SEQ %s %s)" % (it, s)
        return s
    raise ValueError(k)


def cons_sexpr(items, lead):
    if not items:
        return ""
    if len(items) == 1:
        return " " + items[0]
    s = "(O_CONS %s)" % items[-1]
    for it in reversed(items[:-1]):
        s = "(O_CONS %s %s)" % (it, s)
    return " " + s


# ---------------------------------------------------------------------------
# reference evaluation (documented semantics, exact, lexical)


class Undefined(Exception):
    """the documented semantics does not determine the result"""


class RefError(Exception):
    """the documented semantics makes this an error"""


def small(d):
    """a non-zero component below the display unit of its commodity: whether it counts as zero is a display matter"""
    for c, q in d.items():
        if q != 0 and c and abs(q) < F(1, 10 ** COMMS.get(c, 0)):
            return True
    return False


def truth(v):
    if v[0] == "bool":
        return v[1]
    if v[0] == "void":
        return False
    if v[0] == "fn":
        raise Undefined
    if small(v[1]):
        raise Undefined
    return any(q != 0 for q in v[1].values())


def num(d, comms, bal=False):
    """a quantity per commodity; `comms`: the commodities of the literals that went in; `bal`: ledger may hold it
    as a BALANCE (a sum that mixed commodities), whose * / and comparisons are C03's subject, not C15's"""
    return ("num", {c: q for c, q in d.items() if q != 0}, frozenset(comms), bal)


def ref_eval(t, env, depth=0):
    """env: name -> ('val', value) | ('name', expr, env) | ('fn', params, body, env_or_None(recursive))"""
    if depth > 200:
        raise Undefined
    k = t[0]
    if k == "lit":
        v = t[1]
        if v[0] == "bool":
            return ("bool", v[1])
        return num({v[3]: v[1]}, [v[3]])
    if k == "var":
        b = env.get(t[1])
        if b is None:
            raise RefError("unbound " + t[1])
        if b[0] == "val":
            return b[1]
        if b[0] == "name":
            return ref_eval(b[1], b[2], depth + 1)
        return ("fn", b)
    if k == "un":
        a = ref_eval(t[2], env, depth + 1)
        if t[1] == "not":
            return ("bool", not truth(a))
        if a[0] == "num":
            return ("num", {c: -q for c, q in a[1].items()}, a[2], a[3])
        raise Undefined       # -true, -null
    if k == "cond":
        c = ref_eval(t[1], env, depth + 1)
        return ref_eval(t[2] if truth(c) else t[3], env, depth + 1)
    if k == "bin":
        op = t[1]
        a = ref_eval(t[2], env, depth + 1)
        if op == "and":
            return ref_eval(t[3], env, depth + 1) if truth(a) else ("bool", False)
        if op == "or":
            return a if truth(a) else ref_eval(t[3], env, depth + 1)
        b = ref_eval(t[3], env, depth + 1)
        if a[0] in ("void", "fn") or b[0] in ("void", "fn"):
            raise Undefined
        if a[0] == "bool" or b[0] == "bool":
            if a[0] == "bool" and b[0] == "bool" and op in ("==", "!="):
                return ("bool", (a[1] == b[1]) == (op == "=="))
            if a[0] == "bool" and b[0] == "bool":
                raise Undefined
            raise RefError("boolean operand of " + op)
        x, y = a[1], b[1]
        if op in "+-":
            r = dict(x)
            for c, q in y.items():
                r[c] = r.get(c, 0) + (q if op == "+" else -q)
            return num(r, a[2] | b[2], a[3] or b[3] or a[2] != b[2] or len(a[2]) != 1)
        if op in "*/":
            if b[3] or len(y) > 1 or ((a[3] or len(x) > 1) and (any(c for c in y) or b[2] != frozenset([""]))):
                raise Undefined
            if small(y):
                raise Undefined
            yv = list(y.values())[0] if y else F(0)
            if op == "/":
                if not x:
                    raise Undefined   # a zero dividend may be an INTEGER (simplified difference): INTEGER / AMOUNT is C03's known finding
                if yv == 0:
                    raise RefError("divide by zero")
                yv = 1 / yv
            if len(x) <= 1:
                xv = list(x.values())[0] if x else F(0)
                ca = list(x.keys())[0] if x else ""
                cb = list(y.keys())[0] if y else ""
                if ca and cb and ca != cb:
                    raise Undefined
                comm = ca or cb
                if not x and len(a[2] - {""}) == 1:
                    comm = list(a[2] - {""})[0]
                return num({comm: xv * yv}, a[2] | b[2], a[3])
            return num({c: q * yv for c, q in x.items()}, a[2] | b[2], a[3])
        # comparisons: defined when both sides are quantities of one and the same commodity (or none at all)
        if len(x) > 1 or len(y) > 1 or a[3] or b[3]:
            raise Undefined
        ca = a[2] - {""} if not x else {c for c in x if c}
        cb = b[2] - {""} if not y else {c for c in y if c}
        if len(ca) > 1 or len(cb) > 1 or (ca and cb and ca != cb):
            raise Undefined
        if (ca or cb) and (not x or not y):
            raise Undefined      # a zero against a commoditized amount
        if bool(ca) != bool(cb) and op not in ("==", "!="):
            pass
        xv = list(x.values())[0] if x else F(0)
        yv = list(y.values())[0] if y else F(0)
        if bool(ca) != bool(cb) and op in ("==", "!="):
            raise Undefined      # 5 == 5 EUR: equality of a bare number and a commoditized one is not fixed by the property
        return ("bool", {"==": xv == yv, "!=": xv != yv, "<": xv < yv, "<=": xv <= yv, ">": xv > yv, ">=": xv >= yv}[op])
    if k == "let":
        env2 = dict(env)
        env2[t[1]] = ("name", t[2], env)
        return ref_eval(t[3], env2, depth + 1)
    if k == "lamcall":
        a = ref_eval(t[3], env, depth + 1)
        env2 = dict(env)
        env2[t[1]] = ("val", a)
        return ref_eval(t[2], env2, depth + 1)
    if k == "call":
        b = env.get(t[1])
        if b is None or b[0] != "fn":
            raise RefError("not a function " + t[1])
        _, params, body, fenv, self_name = b
        if len(t[2]) > len(params):
            raise RefError("too many arguments")
        args = [ref_eval(a, env, depth + 1) for a in t[2]]
        env2 = dict(fenv)
        env2[self_name] = b
        for i, p in enumerate(params):
            env2[p] = ("val", args[i] if i < len(args) else ("void",))
        return ref_eval(body, env2, depth + 1)
    if k == "prog":
        env2 = dict(env)
        for st in t[1]:
            if st[0] == "defvar":
                env2[st[1]] = ("name", st[2], dict(env2))
            elif st[0] == "deffn":
                env2[st[1]] = ("fn", st[2], st[3], dict(env2), st[1])
            else:
                env2[st[1]] = ("fn", [st[2]], st[3], dict(env2), st[1])
        return ref_eval(t[2], env2, depth + 1)
    raise ValueError(k)


def reference(t):
    """('val', denotation) | ('err',) | None (undefined)"""
    try:
        v = ref_eval(t, {})
    except Undefined:
        return None
    except RefError:
        return ("err",)
    except RecursionError:
        return None
    if v[0] == "bool":
        return ("val", {"bool": v[1]})
    if v[0] == "num":
        return ("val", dict(v[1]))
    if v[0] == "void":
        return ("val", "void")
    return None


def den_of_answer(ans):
    tag, _, rest = ans.partition(":")
    if ans == "N":
        return "void"
    if tag == "I":
        n = int(rest)
        return {"": F(n)} if n else {}
    if tag == "A":
        parts = [rest]
    elif tag == "B":
        parts = rest.split(";") if rest else []
    elif tag == "T":
        return {"bool": rest == "true"}
    else:
        return None
    d = {}
    for p in parts:
        q, prec, keep, comm = p.split(":", 3)
        n, dd = q.split("/")
        f = F(int(n), int(dd))
        if f != 0:
            d[comm] = d.get(comm, 0) + f
    return d


# ---------------------------------------------------------------------------
# observing ledger


def impl_kind(text):
    t = text
    if "Divide by zero" in t:
        return "divZero"
    if "Unknown identifier" in t:
        return "unknownIdent"
    if "Assertion failed" in t:
        return "assert"
    if "with different commodities" in t:
        return "diffComm"
    if "with multiple commodities" in t or "multiple commodities to" in t:
        return "multiComm"
    if re.search(r"Error: (Invalid token|Unexpected|Missing|Invalid char|Syntax error|Failed to parse|.* operator not followed|'(if|else)' keyword not followed)", t):
        return "parse"
    if re.search(r"Error: (Cannot|Too few arguments|Too many arguments|Invalid function)", t):
        return "cannot"
    if "Error:" in t:
        return "other"
    return None


def canon_value_payload(s):
    s = s.strip()
    if s in ("true", "false"):
        return "T:" + s
    if s == "null":
        return "N"
    m = re.fullmatch(r"(-?[0-9]+(?:\.[0-9]+)?) ?([A-Za-z]+)?", s)
    if m:
        q, comm = F(m.group(1)), m.group(2) or ""
    else:
        m = re.fullmatch(r"(-)?([A-Za-z]+) ?(-?[0-9]+(?:\.[0-9]+)?)", s)     # a commodity not yet seen as a suffix prints in front
        if not m:
            return "?:" + s
        q, comm = F(m.group(3)) * (-1 if m.group(1) else 1), m.group(2)
    return "A:%d/%d:%s" % (q.numerator, q.denominator, comm)


def tree_of_dump(lines):
    """op_t::dump lines -> S-expression (addresses and reference counts dropped)."""
    nodes = []
    for ln in lines:
        m = re.match(r"(0x[0-9a-f]+)( +)(.*?) \((-?\d+)\)\s*$", ln)
        if not m:
            return None
        depth = len(m.group(1)) + len(m.group(2)) - 18
        nodes.append((depth, m.group(3)))

    def build(i, d):
        depth, txt = nodes[i]
        kids = []
        j = i + 1
        while j < len(nodes) and nodes[j][0] > d:
            if nodes[j][0] == d + 1:
                s, j = build(j, d + 1)
                kids.append(s)
            else:
                return None, len(nodes)
        if txt.startswith("VALUE: "):
            head = "VALUE " + canon_value_payload(txt[7:])
        elif txt.startswith("IDENT: "):
            head = "IDENT " + txt[7:]
        elif txt.startswith("SCOPE: "):
            head = "SCOPE"
        else:
            head = txt
        return "(" + " ".join([head] + kids) + ")", j
    if not nodes:
        return "NULL"
    s, j = build(0, nodes[0][0])
    return s


def parse_sections(out):
    """REPL answer to `parse "..."` -> dict(text=..., tree=..., err=kind)"""
    res = {"text": None, "tree": None, "err": impl_kind(out or "")}
    if not out:
        return res
    m = re.search(r"--- Text as parsed ---\n(.*?)\n\n--- Expression tree ---\n(.*?)(?:\n\n--- Compiled tree ---|\Z)", out, flags=re.S)
    if m:
        res["text"] = m.group(1)
        lines = [l for l in m.group(2).split("\n") if l.startswith("0x")]
        res["tree"] = tree_of_dump(lines)
    return res


def canon_text(s):
    """canonical form of printed expression text: literal amounts as exact fractions"""
    def rep(m):
        return "{" + canon_value_payload(m.group(1)) + "}"
    return re.sub(r"\{([^{}]*)\}", rep, s)


def eval_answer(out):
    if out is None:
        return "died"
    o = out.strip()
    ek = impl_kind(o)
    if ek:
        return "err\t" + ek
    if o == "":
        return "ok\tN"
    return "ok\t" + o.split("\n")[-1]


def same_value(a, b):
    if a.startswith("err") or b.startswith("err"):
        return a.startswith("err") and b.startswith("err")
    return den_of_answer(a[3:]) == den_of_answer(b[3:])


def repl(lines):
    CH = 250
    chunks = [lines[i:i + CH] for i in range(0, len(lines), CH)]

    def one(chunk):
        res, rc = vflib.repl_batch([WARM] + chunk)
        return res[1:]
    outs = []
    for r in vflib.pmap(one, chunks):
        outs += r
    return outs


def oneshot_eval(text):
    rc, out, err = vflib.ledger_run(["-f", "/dev/null", "eval", "verif_rational((%s))" % text])
    return eval_answer((out or "") + (err or ""))


def oneshot_parse(text):
    rc, out, err = vflib.ledger_run(["-f", "/dev/null", "parse", " " + text])
    return parse_sections((out or "") + (err or ""))


# ---------------------------------------------------------------------------
# generators

LEAVES = [("num", F(1), 0, ""), ("num", F(5, 2), 1, ""), ("num", F(0), 0, ""), ("num", F(3), 2, "EUR"), ("num", F(1, 2), 2, "EUR"),
          ("num", F(4), 0, "USD"), ("num", F(7), 0, ""), ("bool", True), ("bool", False), ("num", F(0), 2, "EUR"),
          ("num", F(12), 0, ""), ("num", F(-0 + 2), 0, "")]
NUMS = [v for v in LEAVES if v[0] == "num"]
PLAIN = [v for v in NUMS if v[3] == ""]
EUR = [v for v in NUMS if v[3] == "EUR"]


def rand_leaf(rng, want=None):
    r = rng.random()
    if want == "bool" and r < 0.6:
        return ("lit", rng.choice([("bool", True), ("bool", False)]))
    if want == "plain" and r < 0.85:
        return ("lit", rng.choice(PLAIN))
    if want == "num" and r < 0.85:
        return ("lit", rng.choice(NUMS if rng.random() < 0.5 else PLAIN + EUR))
    return ("lit", rng.choice(LEAVES))


def fill(skel, rng, want=None):
    """skeleton (nested tuples with None leaves) -> tree with leaves, type-directed most of the time"""
    if skel is None:
        return rand_leaf(rng, want)
    k = skel[0]
    if k == "un":
        return ("un", skel[1], fill(skel[2], rng, "num" if skel[1] == "neg" else None))
    if k == "bin":
        op = skel[1]
        if op in ("and", "or"):
            return ("bin", op, fill(skel[2], rng, None), fill(skel[3], rng, None))
        if op in MUL:
            return ("bin", op, fill(skel[2], rng, "num"), fill(skel[3], rng, "plain"))
        w = rng.choice(["plain", "num", "num"])
        return ("bin", op, fill(skel[2], rng, w), fill(skel[3], rng, w))
    if k == "cond":
        return ("cond", fill(skel[1], rng, None), fill(skel[2], rng, want), fill(skel[3], rng, want))
    raise ValueError(k)


def skeletons(depth, ops_un=("neg", "not"), ops_bin=tuple(BINOPS)):
    """all operator skeletons of depth <= depth (leaves = None)"""
    if depth == 0:
        return [None]
    sub = skeletons(depth - 1, ops_un, ops_bin)
    out = [None]
    for u in ops_un:
        out += [("un", u, s) for s in sub if s is not None or depth == 1]
    for b in ops_bin:
        out += [("bin", b, x, y) for x in sub for y in sub if (x is not None or y is not None or depth == 1)]
    out += [("cond", a, b, c) for a in sub for b in sub for c in sub if (a is not None or b is not None or c is not None or depth == 1)]
    return out


def chains3():
    """every operator in every operand position of every operator in every operand position of every operator"""
    ops = [("un", u) for u in ("neg", "not")] + [("bin", b) for b in BINOPS] + [("cond",)]

    def place(op, pos, child):
        if op[0] == "un":
            return ("un", op[1], child)
        if op[0] == "bin":
            return ("bin", op[1], child, None) if pos == 0 else ("bin", op[1], None, child)
        kids = [None, None, None]
        kids[pos] = child
        return ("cond",) + tuple(kids)

    def arity(op):
        return 1 if op[0] == "un" else 2 if op[0] == "bin" else 3
    out = []
    for a in ops:
        for pa in range(arity(a)):
            for b in ops:
                for pb in range(arity(b)):
                    for c in ops:
                        out.append(place(a, pa, place(b, pb, place(c, 0, None) if arity(c) == 1 else
                                                      (("bin", c[1], None, None) if c[0] == "bin" else ("cond", None, None, None)))))
    return out


def depth_of(t):
    k = t[0]
    if k in ("lit", "var"):
        return 0
    if k == "un":
        return 1 + depth_of(t[2])
    if k == "bin":
        return 1 + max(depth_of(t[2]), depth_of(t[3]))
    if k == "cond":
        return 1 + max(depth_of(t[1]), depth_of(t[2]), depth_of(t[3]))
    if k == "let":
        return 1 + max(depth_of(t[2]), depth_of(t[3]))
    if k == "call":
        return 1 + max([depth_of(a) for a in t[2]] + [0])
    if k == "lamcall":
        return 1 + max(depth_of(t[2]), depth_of(t[3]))
    if k == "prog":
        return max([depth_of(st[-1]) for st in t[1]] + [depth_of(t[2])])
    return 0


def ops_of(t, acc=None):
    acc = acc if acc is not None else set()
    k = t[0]
    if k == "un":
        acc.add(t[1])
        ops_of(t[2], acc)
    elif k == "bin":
        acc.add(t[1])
        ops_of(t[2], acc)
        ops_of(t[3], acc)
    elif k == "cond":
        acc.add("cond")
        for x in t[1:]:
            ops_of(x, acc)
    elif k == "let":
        acc.add("let")
        ops_of(t[2], acc)
        ops_of(t[3], acc)
    elif k == "call":
        acc.add("call")
        for a in t[2]:
            ops_of(a, acc)
    elif k == "lamcall":
        acc.add("lambda")
        ops_of(t[2], acc)
        ops_of(t[3], acc)
    elif k == "prog":
        for st in t[1]:
            acc.add(st[0])
            ops_of(st[-1], acc)
        ops_of(t[2], acc)
    return acc


def name_gen(idx):
    """fresh identifiers for case number idx: zq<case letters><local letter>..."""
    s = ""
    n = idx
    while True:
        s = chr(ord("a") + n % 26) + s
        n //= 26
        if n == 0:
            break
    cnt = [0]

    def fresh(kind="v"):
        c = cnt[0]
        cnt[0] += 1
        loc = ""
        while True:
            loc = chr(ord("a") + c % 26) + loc
            c //= 26
            if c == 0:
                break
        return "zq" + s + "x" + kind + loc
    return fresh


def rand_expr(rng, depth, scope, fresh, allow_let=True):
    """scope: dict(vars=[names], fns=[(name, nparams)], params=[names][, ppool=[parameter names that lambdas may reuse]])"""
    names = scope["vars"] + scope["params"]
    if depth <= 0 or rng.random() < 0.12:
        if names and rng.random() < 0.55:
            return ("var", rng.choice(names))
        return rand_leaf(rng, "plain" if rng.random() < 0.6 else "num")
    r = rng.random()
    if r < 0.07:
        return ("un", rng.choice(["neg", "not"]), rand_expr(rng, depth - 1, scope, fresh, allow_let))
    if r < 0.55:
        op = rng.choice(["+", "+", "-", "-", "*", "*", "/", "==", "<", "<=", ">", ">=", "!=", "and", "or"])
        return ("bin", op, rand_expr(rng, depth - 1, scope, fresh, allow_let), rand_expr(rng, depth - 1, scope, fresh, allow_let))
    if r < 0.67:
        return ("cond", rand_expr(rng, depth - 1, scope, fresh, allow_let), rand_expr(rng, depth - 1, scope, fresh, allow_let),
                rand_expr(rng, depth - 1, scope, fresh, allow_let))
    if r < 0.80 and scope["fns"]:
        fn, n = rng.choice(scope["fns"])
        k = n if rng.random() < 0.9 else max(0, n - 1)
        return ("call", fn, [rand_expr(rng, depth - 1, scope, fresh, allow_let) for _ in range(k)])
    if r < 0.90 and allow_let:
        n = fresh("l")
        e = rand_expr(rng, depth - 1, scope, fresh, allow_let)
        sc2 = dict(scope, vars=scope["vars"] + [n])
        return ("let", n, e, rand_expr(rng, depth - 1, sc2, fresh, allow_let))
    if r < 0.96:
        pool = scope.get("ppool")
        p = rng.choice(pool) if pool and rng.random() < 0.5 else fresh("p")      # a reused name shadows an enclosing parameter / outer name
        sc2 = dict(scope, params=[x for x in scope["params"] if x != p] + [p])
        return ("lamcall", p, rand_expr(rng, depth - 1, sc2, fresh, allow_let), rand_expr(rng, depth - 1, scope, fresh, allow_let))
    return rand_leaf(rng, "plain")


def rand_prog(rng, idx, maxdepth):
    fresh = name_gen(idx)
    scope = {"vars": [], "fns": [], "params": []}
    stmts = []
    for _ in range(rng.randint(1, 5)):
        r = rng.random()
        d = rng.randint(1, max(1, maxdepth - 2))
        if r < 0.40 or not scope["vars"]:
            if scope["vars"] and rng.random() < 0.3:
                n = rng.choice(scope["vars"])       # redefinition: later uses see the new one, earlier captures the old one
            else:
                n = fresh("v")
            stmts.append(("defvar", n, rand_expr(rng, d, scope, fresh)))
            if n not in scope["vars"]:
                scope["vars"] = scope["vars"] + [n]
        elif r < 0.80:
            n = fresh("f")
            params = [fresh("p") for _ in range(rng.randint(1, 2))]
            sc2 = dict(scope, params=params)
            stmts.append(("deffn", n, params, rand_expr(rng, d, sc2, fresh)))
            scope["fns"] = scope["fns"] + [(n, len(params))]
        else:
            n = fresh("g")
            p = fresh("p")
            sc2 = dict(scope, params=[p])
            stmts.append(("deflam", n, p, rand_expr(rng, d, sc2, fresh)))
            scope["fns"] = scope["fns"] + [(n, 1)]
    final = rand_expr(rng, rng.randint(1, maxdepth), scope, fresh)
    return ("prog", stmts, final)


def shadow_prog(rng, idx, maxdepth):
    """Programs in which names are REUSED: the same parameter name in several functions and lambdas, local definitions
    (`t = … param …`) inside function and lambda bodies, and a variable or function of the parameter's name defined
    outside – before the function, between its definition and the call, or not at all.  Lexical scoping decides."""
    fresh = name_gen(idx)
    pool = [fresh("p"), fresh("p")]
    tpool = [fresh("l"), fresh("l")]
    X = pool[0]
    scope = {"vars": [], "fns": [], "params": [], "ppool": pool}
    stmts = []
    mode = rng.choice(["before", "after", "none", "fn-before", "both"])

    def outer_def():
        if mode == "fn-before":
            q = fresh("p")
            stmts.append(("deffn", X, [q], ("bin", rng.choice(["+", "*"]), ("var", q), rand_leaf(rng, "plain"))))
        else:
            stmts.append(("defvar", X, ("lit", rng.choice([v for v in PLAIN if v[1] != 0] + [("num", F(100), 0, "")]))))
            if X not in scope["vars"]:
                scope["vars"] = scope["vars"] + [X]
    if mode in ("before", "fn-before", "both"):
        outer_def()
    if rng.random() < 0.4:
        v = fresh("v")
        stmts.append(("defvar", v, rand_expr(rng, 1, scope, fresh)))
        scope["vars"] = scope["vars"] + [v]
    for k in range(rng.randint(1, 3)):
        f = fresh("f")
        as_lambda = rng.random() < 0.5
        params = [X] if (k == 0 or rng.random() < 0.6) else [rng.choice(pool)]
        if not as_lambda and rng.random() < 0.3:
            params = params + [p for p in pool + [fresh("p")] if p not in params][:1]
        sc = dict(scope, params=list(params), vars=[v for v in scope["vars"] if v not in params])
        use = ("bin", rng.choice(["*", "+", "-"]), ("var", rng.choice(params)), rand_expr(rng, rng.randint(0, 1), sc, fresh, allow_let=False))
        t = rng.choice(tpool) if rng.random() < 0.6 else fresh("l")
        sc_t = dict(sc, vars=sc["vars"] + [t])
        inner = rand_expr(rng, rng.randint(1, max(1, maxdepth - 3)), sc_t, fresh)
        body = ("let", t, use, ("bin", rng.choice(["+", "-", "*"]), ("var", t), inner)) if rng.random() < 0.85 else \
            rand_expr(rng, rng.randint(1, 3), sc, fresh)
        if not as_lambda:
            stmts.append(("deffn", f, params, body))
        else:
            stmts.append(("deflam", f, params[0], body))
        scope["fns"] = scope["fns"] + [(f, len(params))]
    if mode in ("after", "both"):
        outer_def()
    calls = []
    for _ in range(rng.randint(1, 2)):
        fn, n = rng.choice(scope["fns"])
        calls.append(("call", fn, [rand_leaf(rng, "plain") if rng.random() < 0.7 else rand_expr(rng, 1, scope, fresh, allow_let=False)
                                   for _ in range(n)]))
    final = calls[0] if len(calls) == 1 else ("bin", "+", calls[0], calls[1])
    if rng.random() < 0.2 and X in scope["vars"]:
        final = ("bin", "+", final, ("var", X))
    return ("prog", stmts, final)


def rec_prog(rng, idx):
    """bounded recursion: f(n) = n < 1 ? base : step(n, f(n - 1))"""
    fresh = name_gen(idx)
    f, n = fresh("f"), fresh("p")
    base = rand_leaf(rng, "plain")
    op = rng.choice(["+", "*", "-"])
    rec = ("call", f, [("bin", "-", ("var", n), ("lit", ("num", F(1), 0, "")))])
    body = ("cond", ("bin", "<", ("var", n), ("lit", ("num", F(1), 0, ""))), base, ("bin", op, ("var", n), rec))
    k = rng.randint(0, 6)
    return ("prog", [("deffn", f, [n], body)], ("call", f, [("lit", ("num", F(k), 0, ""))]))


# ---------------------------------------------------------------------------
# fixed witnesses (run first on every run, in processes of their own)

WITNESSES = [
    # (fingerprint, what, expression, expected exact value or None when only re-parse matters, kind)
    # repaired in /repo (op.cc 669, 860 exclude O_COLON): stays here as a regression probe, reported as a violation if it returns
    ("C15:op.cc:print:O_COLON", "the text printed for a conditional does not parse back: op_t::print wraps the O_COLON node in "
     "parentheses of its own, `(1 ? (2 : 3))`, and the parser rejects `:` there", "1 ? 2 : 3", None, "reparse"),
    ("C15:op.cc:print:keep-precision", "the text printed for a literal amount is `{0.01 EUR}`, which re-reads with the keep-precision flag "
     "(token.cc 233-244 parses it with PARSE_NO_MIGRATE): `!(0.01 EUR * 0.01 EUR)` is true (the product displays as 0.00), the printed "
     "`(! ({0.01 EUR} * {0.01 EUR}))` is false", "!(0.01 EUR * 0.01 EUR)", None, "reparse"),
    ("C15:op.cc:compile:fold-skipped-operand", "constant folding evaluates an operand that short circuit never evaluates: "
     "`false & ((zqwa = 1; 1) / 0)` raises Divide by zero at compile time, `false & (1 / 0)` is false",
     "false & ((zqwa = 1; 1) / 0)", {"bool": False}, "value"),
    ("C15:op.cc:compile:fold-O_COLON", "constant folding evaluates an O_COLON node whose branches became literals: "
     "`true ? (zqwb = 1; 2) : (zqwb = 1; 3)` fails with an assertion instead of giving 2",
     "true ? (zqwb = 1; 2) : (zqwb = 1; 3)", {"": F(2)}, "value"),
    ("C15:op.cc:compile:fold-O_CONS", "constant folding turns an argument list whose members became literals into ONE sequence "
     "argument: `zqwf(zqwp, zqwq) = zqwp - zqwq; zqwf(10, (zqwc = 1; 3))` is not 7",
     "zqwf(zqwp, zqwq) = zqwp - zqwq; zqwf(10, (zqwc = 1; 3))", {"": F(7)}, "value"),
    ("C15:scope:parameter-capture", "a local definition that mentions a parameter is evaluated in the frame of an inner function "
     "with the same parameter name: `zqwg(zqwx) = (zqwt = zqwx * 2; (zqwx -> zqwt + zqwx)(5)); zqwg(1)` gives 15, lexical scoping gives 7",
     "zqwg(zqwx) = (zqwt = zqwx * 2; (zqwx -> zqwt + zqwx)(5)); zqwg(1)", {"": F(7)}, "value"),
]


def run_witnesses(ctx):
    for fp, what, expr, want, kind in WITNESSES:
        ctx.count()
        if kind == "reparse":
            p = oneshot_parse(expr)
            v0 = oneshot_eval(expr)
            v1 = oneshot_eval(p["text"]) if p["text"] else "err\tno-text"
            ctx.feature("witness:" + fp)
            if not same_value(v0, v1):
                ctx.violation(fp, what, {"expr": expr, "printed": p["text"], "value": v0, "value_of_printed": v1,
                                         "how": "ledger parse '%s'; ledger eval 'verif_rational((<text as parsed>))'" % expr,
                                         "kind": "reparse"})
        else:
            v = oneshot_eval(expr)
            got = den_of_answer(v[3:]) if v.startswith("ok\t") else None
            ctx.feature("witness:" + fp)
            if got != want:
                ctx.violation(fp, what, {"expr": expr, "ledger": v, "exact": {k: str(x) for k, x in want.items()},
                                         "how": "ledger eval 'verif_rational((%s))'" % expr, "kind": "value"})


# ---------------------------------------------------------------------------
# one batch of cases through model, ledger and oracle

SPELLINGS = [
    dict(DEFAULT_SP, **{"and": "and"}), dict(DEFAULT_SP, **{"and": "&&"}), dict(DEFAULT_SP, **{"or": "or"}),
    dict(DEFAULT_SP, **{"or": "||"}), dict(DEFAULT_SP, **{"not": "not "}), dict(DEFAULT_SP, **{"not": "!"}),
    dict(DEFAULT_SP, **{"div": "div"}), dict(DEFAULT_SP, **{"cond": "ifelse"}),
    {"and": "and", "or": "or", "not": "not ", "div": "div", "cond": "ifelse"},
]


def has_any(t, names):
    return bool(ops_of(t) & set(names))


def commset(t, whole=None):
    """commodities of the literals under t ("" = a bare number); an identifier or a call may hold anything the program mentions"""
    k = t[0]
    if k == "lit":
        return {t[1][3]} if t[1][0] == "num" else set()
    if k in ("var", "call", "lamcall"):
        return set(whole) if whole is not None else {"?a", "?b"}
    if k == "prog":
        out = set()
        for st in t[1]:
            out |= commset(st[-1], whole)
        return out | commset(t[2], whole)
    out = set()
    for c in t[1:]:
        if isinstance(c, tuple):
            out |= commset(c, whole)
    return out


def all_comms(t):
    k = t[0]
    if k == "lit":
        return {t[1][3]} if t[1][0] == "num" else set()
    if k == "var":
        return set()
    if k == "call":
        return set().union(*[all_comms(a) for a in t[2]]) if t[2] else set()
    if k == "prog":
        out = set()
        for st in t[1]:
            out |= all_comms(st[-1])
        return out | all_comms(t[2])
    out = set()
    for c in t[1:]:
        if isinstance(c, tuple):
            out |= all_comms(c)
    return out


def order_dependent(t, whole=None):
    """Is there a `<`-family comparison with an operand that may be a balance of two or more commodities?  value.cc walks the
    balance's unordered_map and stops at the first component that decides, so whether such a comparison answers or fails
    with "different commodities" depends on the hash order (C19's subject); the model fixes insertion order."""
    if whole is None:
        whole = all_comms(t)
    k = t[0]
    if k == "bin" and t[1] in ("<", "<=", ">", ">="):
        if len(commset(t[2], whole)) >= 2 or len(commset(t[3], whole)) >= 2:
            return True
    if k in ("lit", "var"):
        return False
    if k == "call":
        return any(order_dependent(a, whole) for a in t[2])
    if k == "prog":
        return any(order_dependent(st[-1], whole) for st in t[1]) or order_dependent(t[2], whole)
    return any(order_dependent(c, whole) for c in t[1:] if isinstance(c, tuple))


def model_kind(ans):
    return ans.split("\t")[1] if ans.startswith("err\t") else None


def run_batch(ctx, cases, tag):
    """cases: list of trees/programs.  For each: full and minimal renderings through model and ledger."""
    fulls = [text_of(t, full=True) for t in cases]
    mins = [text_of(t, full=False) for t in cases]
    # model
    mlines = []
    for f, m in zip(fulls, mins):
        mlines += ["expr.parse\t" + f, "expr.parse\t" + m, "expr.eval\t%s\t%s" % (ENV, f), "expr.eval\t%s\t%s" % (ENV, m),
                   "expr.reparse\t%s\t%s" % (ENV, m)]
    mout = vflib.driver_run(mlines)
    # ledger, first round
    llines = []
    for f, m in zip(fulls, mins):
        llines += ['parse " %s"' % f, 'parse " %s"' % m, 'eval "verif_rational((%s))"' % f, 'eval "verif_rational((%s))"' % m]
    lout = repl(llines)
    # second round: the printed text fed back
    printed = []
    for i in range(len(cases)):
        ps = parse_sections(lout[4 * i + 1])
        printed.append(ps)
    l2lines = []
    for p in printed:
        txt = p["text"] if p["text"] else "zqnotext"
        un = unparen_colon(txt)
        l2lines += ['eval "verif_rational((%s))"' % txt, 'eval "verif_rational((%s))"' % un,
                    'eval "verif_rational((%s))"' % re.sub(r"\{([^{}]*)\}", r"\1", un)]
    l2 = repl(l2lines)
    for i, t in enumerate(cases):
        ctx.count()
        f, m = fulls[i], mins[i]
        mp_f, mp_m, me_f, me_m, mr = mout[5 * i:5 * i + 5]
        lp_f = parse_sections(lout[4 * i])
        lp_m = printed[i]
        le_f = eval_answer(lout[4 * i + 2])
        le_m = eval_answer(lout[4 * i + 3])
        le_r = eval_answer(l2[3 * i])
        le_u = eval_answer(l2[3 * i + 1])        # printed text with the parentheses around O_COLON nodes removed
        le_ub = eval_answer(l2[3 * i + 2])       # ... and the literals without braces
        for o in ops_of(t):
            ctx.feature("op:" + o)
        ctx.feature("depth:%d" % depth_of(t))
        ctx.feature("impl:" + (le_m.split("\t")[1] if le_m.startswith("err") else le_m[3:4]))
        # ---- tie: model vs ledger
        unsupported = any(model_kind(x) in ("unsupported", "fuel") for x in (mp_f, mp_m, me_f, me_m))
        tie_ok = True
        if unsupported:
            ctx.feature("model:unsupported")
            tie_ok = False
        else:
            for what, ma, lp in (("full", mp_f, lp_f), ("min", mp_m, lp_m)):
                if ma.startswith("ok\t"):
                    _, sx, ptxt, selfc = ma.split("\t")
                    if lp["tree"] != sx:
                        ctx.tie_broken("corr:expr.parse", "tree of %r: model %s ledger %s" % (f if what == "full" else m, sx, lp["tree"]))
                        ctx.mism.append({"op": "parse", "text": f if what == "full" else m, "model": sx, "ledger": lp["tree"]})
                        tie_ok = False
                    elif lp["text"] is not None and canon_text(lp["text"]) != canon_text(ptxt):
                        ctx.tie_broken("corr:expr.print", "printed text of %r: model %r ledger %r" % (m, ptxt, lp["text"]))
                        ctx.mism.append({"op": "print", "text": m, "model": ptxt, "ledger": lp["text"]})
                        tie_ok = False
                    if selfc != "1":
                        ctx.tie_broken("corr:expr.print-tokens", "tokenize(print e) != printToks e for %r" % m)
                        tie_ok = False
                else:
                    if lp["tree"] is not None:
                        ctx.tie_broken("corr:expr.parse", "model rejects %r (%s), ledger parses it" % (m, ma))
                        ctx.mism.append({"op": "parse", "text": m, "model": ma, "ledger": lp["tree"]})
                        tie_ok = False
            for what, ma, la, txt in (("full", me_f, le_f, f), ("min", me_m, le_m, m)):
                if ma != la:
                    if ma.startswith("err") and la.startswith("err"):
                        ctx.feature("error-kind-differs")     # C++ leaves the evaluation order of a binary operator's operands open
                    elif order_dependent(t):
                        ctx.feature("order-dependent-comparison-skipped")
                    else:
                        ctx.tie_broken("corr:expr.eval", "value of %r: model %r ledger %r" % (txt, ma, la))
                        ctx.mism.append({"op": "eval", "text": txt, "model": ma, "ledger": la})
                        tie_ok = False
            if mr.startswith("ok\t"):
                _, r1, r2, rv = mr.split("\t")
                lsame = "same" if same_value(le_r, le_m) else "diff"
                msame = rv if rv != "err" else "err"
                if (msame == "same") != (lsame == "same") and not (le_m.startswith("err") and le_r.startswith("err")):
                    ctx.tie_broken("corr:expr.reparse", "re-parse of printed %r: model %s ledger %s (%r vs %r)" % (m, mr, lsame, le_m, le_r))
                    ctx.mism.append({"op": "reparse", "text": m, "model": mr, "ledger": [le_m, le_r]})
                    tie_ok = False
        if tie_ok:
            ctx.traces_validated += 1
        # ---- oracle on ledger's own answers
        want_tree = expected_sexpr(t)
        bad = None
        if lp_f["tree"] != want_tree:
            bad = ("C15:parse:full", "ledger parses the fully parenthesised text %r to %s, the tree written is %s" % (f, lp_f["tree"], want_tree))
        elif lp_m["tree"] != want_tree:
            bad = ("C15:parse:precedence", "ledger parses %r to %s; by the documented precedence it is %s" % (m, lp_m["tree"], want_tree))
        elif le_f != le_m and not (le_f.startswith("err") and le_m.startswith("err")):
            bad = ("C15:eval:rendering", "ledger gives %r for %r but %r for %r" % (le_m, m, le_f, f))
        if bad:
            ctx.failing.append((t, bad[0], bad[1], None))
        ref = reference(t)
        if ref is not None:
            ctx.feature("oracle:defined")
            if ref[0] == "err":
                if not le_m.startswith("err"):
                    ctx.failing.append((t, "C15:eval:missing-error", "ledger gives %r for %r, the documented semantics makes it an error" % (le_m, m), None))
            else:
                got = den_of_answer(le_m[3:]) if le_m.startswith("ok\t") else None
                if got != ref[1]:
                    ctx.failing.append((t, "C15:eval:value", "ledger gives %r for %r, the reference value is %s" %
                                        (le_m, m, {k: str(v) for k, v in ref[1].items()} if isinstance(ref[1], dict) else ref[1]), None))
        # print -> re-parse on ledger's own output: same value (the keep-precision display flag of a {literal} is not part of it)
        if not same_value(le_r, le_m):
            # decisive attribution: which repair of the printed text restores the value?
            cause = None
            if "cond" in ops_of(t) and le_r == "err\tparse" and same_value(le_u, le_m):
                cause = "C15:op.cc:print:O_COLON"
            elif same_value(le_ub, le_m):
                cause = "C15:op.cc:print:keep-precision"
            ctx.failing.append((t, "C15:reparse", "ledger prints %r for %r; that text evaluates to %r, the original to %r" %
                                (lp_m["text"], m, le_r, le_m), cause))
        if depth_of(t) >= 2 and m != f and ref is not None:
            ctx.nontrivial(m)
        ctx.sample({"expr": m, "full": f, "ledger": le_m, "model": me_m, "printed": lp_m["text"]}, cap=6)


def run_spellings(ctx, cases):
    """alternative spellings of the operators must give the tree that was written"""
    jobs = []
    for t in cases:
        ops = ops_of(t)
        for sp in SPELLINGS:
            used = (sp["and"] != "&" and "and" in ops) or (sp["or"] != "|" and "or" in ops) or (sp["not"] != "! " and "not" in ops) or \
                   (sp["div"] != "/" and "/" in ops) or (sp["cond"] != "?:" and "cond" in ops)
            if used:
                jobs.append((t, sp, text_of(t, sp)))
    seen = set()
    uniq = []
    for j in jobs:
        if j[2] not in seen:
            seen.add(j[2])
            uniq.append(j)
    model = vflib.driver_run(["expr.parse\t" + j[2] for j in uniq])
    outs = vflib.pmap(lambda j: oneshot_parse(j[2]), uniq)
    for (t, sp, txt), ma, lp in zip(uniq, model, outs):
        ctx.count()
        ctx.feature("spelling:" + "/".join("%s" % sp[k].strip() for k in ("and", "or", "not", "div", "cond")))
        want = expected_sexpr(t)
        if lp["tree"] != want:
            ctx.failing.append((t, "C15:parse:spelling", "ledger parses %r to %s, the tree written is %s" % (txt, lp["tree"], want), None))
        if ma.startswith("ok\t"):
            if ma.split("\t")[1] != lp["tree"]:
                ctx.tie_broken("corr:expr.parse", "spelling %r: model %s ledger %s" % (txt, ma.split("\t")[1], lp["tree"]))
                ctx.mism.append({"op": "parse", "text": txt, "model": ma, "ledger": lp["tree"]})
            else:
                ctx.traces_validated += 1
                ctx.nontrivial(txt)
        elif lp["tree"] is not None and model_kind(ma) not in ("unsupported",):
            ctx.tie_broken("corr:expr.parse", "spelling %r: model %s, ledger parses it" % (txt, ma))


MALFORMED = ["1 +", "+ 1", "(1 + 2", "1 + 2)", "1 ? 2", "1 ? 2 :", "1 : 2", "* 3", "1 + * 2", "- - 1", "! ! true", "()", "1 2", "1 + 2 3",
             "1 ; ", "; 1", "zqma(", "zqma(1,", "zqma(1,)", "zqmb = ", "= 3", "1 = 2", "-> 1", "zqmc ->", "1 if", "if 1", "1 if 1 else",
             "1 else 2", "1 && ", "|| 1", "1 <", "1 <= >= 2", "1 == == 2", "((1)", "(1))", "1 +/ 2", "2 */ 3", "1 & & 2", "not", "div 2",
             "1 div", "3 ?: 4", "true false", "1.2.3", "zqmd(1)(2", "1 , 2", "(1, 2", "zqme = 1;", "1 -", "-", "!", "(", ")", ""]


def run_malformed(ctx, rng, n):
    texts = list(MALFORMED)
    toks = ["1", "2.5", "3 EUR", "true", "zqmz", "+", "-", "*", "/", "div", "<", "<=", "==", "!=", "&", "|", "and", "or", "not", "! ",
            "?", ":", "(", ")", ",", ";", "=", "->", "if", "else"]
    for _ in range(n):
        k = rng.randint(1, 9)
        texts.append(" ".join(rng.choice(toks) for _ in range(k)))
    texts = [t for t in dict.fromkeys(texts)]
    model = vflib.driver_run(["expr.eval\t%s\t%s" % (ENV, t) for t in texts])
    outs = vflib.pmap(lambda t: eval_answer("".join(x or "" for x in vflib.ledger_run(["-f", "/dev/null", "eval", " " + t])[1:])), texts)
    for t, ma, la in zip(texts, model, outs):
        ctx.count()
        ctx.feature("malformed")
        if model_kind(ma) in ("unsupported", "fuel"):
            ctx.feature("model:unsupported")
            continue
        m_ok = ma.startswith("ok")
        l_ok = la.startswith("ok")
        if m_ok != l_ok:
            ctx.tie_broken("corr:expr.malformed", "text %r: model %r ledger %r" % (t, ma, la))
            ctx.mism.append({"op": "malformed", "text": t, "model": ma, "ledger": la})
        else:
            ctx.traces_validated += 1
            if not m_ok:
                ctx.feature("malformed:rejected-by-both")


# ---------------------------------------------------------------------------
# localisation of oracle failures


def subtrees(t):
    k = t[0]
    if k == "un":
        return [t[2]]
    if k == "bin":
        return [t[2], t[3]]
    if k == "cond":
        return [t[1], t[2], t[3]]
    return []


def inline_lets(t, env=None):
    """the same program with every nested `(w = E; body)` replaced by `body` with `E` written in place of `w`
    (definitions are evaluated at each use, and all names are unique per case, so this changes no value);
    nothing is defined inside an operand any more, hence nothing is folded"""
    env = env or {}
    k = t[0]
    if k == "let":
        e = inline_lets(t[2], env)
        return inline_lets(t[3], dict(env, **{t[1]: e}))
    if k == "var":
        return env.get(t[1], t)
    if k == "lit":
        return t
    if k == "un":
        return ("un", t[1], inline_lets(t[2], env))
    if k == "bin":
        return ("bin", t[1], inline_lets(t[2], env), inline_lets(t[3], env))
    if k == "cond":
        return ("cond", inline_lets(t[1], env), inline_lets(t[2], env), inline_lets(t[3], env))
    if k == "call":
        return ("call", t[1], [inline_lets(a, env) for a in t[2]])
    if k == "lamcall":
        return ("lamcall", t[1], inline_lets(t[2], env), inline_lets(t[3], env))
    if k == "prog":
        return ("prog", [st[:-1] + (inline_lets(st[-1], env),) for st in t[1]], inline_lets(t[2], env))
    raise ValueError(k)


def size_of(t):
    if t[0] in ("lit", "var"):
        return 1
    if t[0] == "call":
        return 1 + sum(size_of(a) for a in t[2])
    if t[0] == "prog":
        return sum(size_of(st[-1]) for st in t[1]) + size_of(t[2])
    return 1 + sum(size_of(c) for c in t[1:] if isinstance(c, tuple))


def alpha_inner(t, every=False):
    """(tree, renamed?): every lambda whose parameter shadows an enclosing function / lambda parameter (with `every`: every
    lambda) gets a fresh parameter name – the same program under lexical scoping"""
    cnt = [0]
    changed = [False]

    def go(x, enclosing, ren):
        k = x[0]
        if k == "var":
            return ("var", ren.get(x[1], x[1]))
        if k == "lit":
            return x
        if k == "un":
            return ("un", x[1], go(x[2], enclosing, ren))
        if k == "bin":
            return ("bin", x[1], go(x[2], enclosing, ren), go(x[3], enclosing, ren))
        if k == "cond":
            return ("cond", go(x[1], enclosing, ren), go(x[2], enclosing, ren), go(x[3], enclosing, ren))
        if k == "let":
            return ("let", x[1], go(x[2], enclosing, ren), go(x[3], enclosing, {a: b for a, b in ren.items() if a != x[1]}))
        if k == "call":
            return ("call", x[1], [go(a, enclosing, ren) for a in x[2]])
        if k == "lamcall":
            p = x[1]
            arg = go(x[3], enclosing, ren)
            if every or p in enclosing:
                cnt[0] += 1
                changed[0] = True
                q = "%szqr%s" % (p, "abcdefghijklmnopqrstuvwxyz"[cnt[0] % 26] * (1 + cnt[0] // 26))
                return ("lamcall", q, go(x[2], enclosing | {q}, dict(ren, **{p: q})), arg)
            return ("lamcall", p, go(x[2], enclosing | {p}, {a: b for a, b in ren.items() if a != p}), arg)
        raise ValueError(k)
    if t[0] != "prog":
        return go(t, frozenset(), {}), changed[0]
    stmts = []
    for st in t[1]:
        ps = frozenset(st[2]) if st[0] == "deffn" else frozenset([st[2]]) if st[0] == "deflam" else frozenset()
        stmts.append(st[:-1] + (go(st[-1], ps, {}),))
    return ("prog", stmts, go(t[2], frozenset(), {})), changed[0]


def capture_pattern(t):
    """the known shape: inside a function or lambda with parameter p, a local definition whose expression uses p, and in its
    body a LATER lambda that binds p again"""
    def uses(x, p):
        k = x[0]
        if k == "var":
            return x[1] == p
        if k == "lit":
            return False
        if k == "call":
            return any(uses(a, p) for a in x[2])
        if k == "lamcall":
            return uses(x[3], p) or (x[1] != p and uses(x[2], p))
        if k == "let":
            return uses(x[2], p) or uses(x[3], p)
        return any(uses(c, p) for c in x[1:] if isinstance(c, tuple))

    def rebinds(x, p):
        k = x[0]
        if k in ("var", "lit"):
            return False
        if k == "lamcall":
            return x[1] == p or rebinds(x[2], p) or rebinds(x[3], p)
        if k == "call":
            return any(rebinds(a, p) for a in x[2])
        return any(rebinds(c, p) for c in x[1:] if isinstance(c, tuple))

    def go(x, params):
        k = x[0]
        if k in ("var", "lit"):
            return False
        if k == "let":
            if any(uses(x[2], p) and rebinds(x[3], p) for p in params):
                return True
            return go(x[2], params) or go(x[3], params)
        if k == "lamcall":
            return go(x[2], params | {x[1]}) or go(x[3], params)
        if k == "call":
            return any(go(a, params) for a in x[2])
        return any(go(c, params) for c in x[1:] if isinstance(c, tuple))
    if t[0] != "prog":
        return go(t, frozenset())
    for st in t[1]:
        ps = frozenset(st[2]) if st[0] == "deffn" else frozenset([st[2]]) if st[0] == "deflam" else frozenset()
        if go(st[-1], ps):
            return True
    return go(t[2], frozenset())


def fold_possible(t):
    """constant folding (op.cc 214-218) starts at a nested definition whose body compiles to a literal, `(w = …; literal)`"""
    def const(x):
        k = x[0]
        if k == "lit":
            return True
        if k in ("un", "bin"):
            return all(const(c) for c in x[1:] if isinstance(c, tuple))
        if k == "let":
            return const(x[3])
        return False

    def go(x):
        k = x[0]
        if k in ("var", "lit"):
            return False
        if k == "let":
            return const(x[3]) or go(x[2]) or go(x[3])
        if k == "call":
            return any(go(a) for a in x[2])
        if k == "prog":
            return any(go(st[-1]) for st in x[1]) or go(x[2])
        return any(go(c) for c in x[1:] if isinstance(c, tuple))
    return go(t)


def agrees(ref, v):
    return (ref is None) or (ref[0] == "err" and v.startswith("err")) or \
        (ref[0] == "val" and v.startswith("ok\t") and den_of_answer(v[3:]) == ref[1])


def known_cause(t, fp, msg):
    """Attribute an oracle failure to a root cause that a fixed witness already establishes – only when the program has
    the known shape AND a decisive re-run on the binary confirms it, so that a different defect in the same program is
    not masked."""
    if fp not in ("C15:eval:value", "C15:eval:missing-error", "C15:eval:rendering"):
        return None
    ops = ops_of(t)
    ref = reference(t)
    # 1. parameter capture: with the shadowing inner lambdas renamed (the same program lexically) ledger agrees with the reference
    t1, renamed = alpha_inner(t)
    if renamed and capture_pattern(t) and ref is not None and agrees(ref, oneshot_eval(text_of(t1))):
        return "C15:scope:parameter-capture"
    # 2. constant folding: with the nested definitions written out in place (nothing is defined inside an operand any more,
    #    so nothing is folded) ledger agrees with the reference
    if "let" in ops and fold_possible(t):
        h = inline_lets(alpha_inner(t, every=True)[0])      # renamed first, so that writing a definition out captures nothing
        if size_of(h) > 4000:
            return None
        if not agrees(ref, oneshot_eval(text_of(h))):
            return None
        if "assert" in msg:
            return "C15:op.cc:compile:fold-O_COLON"
        if "call" in ops:
            return "C15:op.cc:compile:fold-O_CONS" if folds_arguments(t) else "C15:op.cc:compile:fold-skipped-operand"
        return "C15:op.cc:compile:fold-skipped-operand"
    return None


def unparen_colon(text):
    """`(a ? (b : c))` -> `(a ? b : c)`: remove the parentheses op_t::print puts around the O_COLON node"""
    out = []
    i = 0
    n = len(text)
    drop = []          # stack: indices of '(' that open an O_COLON group
    depth_stack = []
    while i < n:
        if text.startswith(" ? (", i):
            out.append(" ? ")
            depth_stack.append(0)
            i += 4
            continue
        ch = text[i]
        if depth_stack:
            if ch == "(":
                depth_stack[-1] += 1
            elif ch == ")":
                if depth_stack[-1] == 0:
                    depth_stack.pop()
                    i += 1
                    continue
                depth_stack[-1] -= 1
        out.append(ch)
        i += 1
    return "".join(out)


def folds_arguments(t):
    """is there a call with two or more arguments of which a later one holds a nested definition?"""
    k = t[0]
    if k == "call" and len(t[2]) >= 2 and any("let" in ops_of(a) for a in t[2][1:]):
        return True
    if k == "prog":
        return any(folds_arguments(st[-1]) for st in t[1]) or folds_arguments(t[2])
    if k == "call":
        return any(folds_arguments(a) for a in t[2])
    return any(folds_arguments(c) for c in t[1:] if isinstance(c, tuple))


def shrink(t, fails):
    """smallest operator sub-tree (pure operator trees only) on which `fails` still holds"""
    cur = t
    changed = True
    while changed:
        changed = False
        for s in subtrees(cur):
            if s[0] not in ("lit", "var") and fails(s):
                cur = s
                changed = True
                break
    return cur


def tree_fails(t):
    """re-run the oracle on one tree against the binary (one-shot processes)"""
    f, m = text_of(t, full=True), text_of(t)
    want = expected_sexpr(t)
    pf, pm = oneshot_parse(f), oneshot_parse(m)
    if pf["tree"] != want or pm["tree"] != want:
        return True
    ef, em = oneshot_eval(f), oneshot_eval(m)
    if ef != em and not (ef.startswith("err") and em.startswith("err")):
        return True
    ref = reference(t)
    if ref is not None:
        if ref[0] == "err":
            if not em.startswith("err"):
                return True
        else:
            got = den_of_answer(em[3:]) if em.startswith("ok\t") else None
            if got != ref[1]:
                return True
    er = oneshot_eval(pm["text"]) if pm["text"] else "err\tno-text"
    if not same_value(er, em):
        return True
    return False


def report_failures(ctx):
    seen = 0
    for t, fp, msg, cause in sorted(ctx.failing, key=lambda x: len(text_of(x[0]))):
        if cause is None:
            cause = known_cause(t, fp, msg)
        if cause:
            ctx.feature("oracle-failure-explained:" + cause)
            # same root cause as a fixed witness (confirmed by a decisive re-run): reported under that fingerprint
            ctx.violation(cause, msg, {"expr": text_of(t), "full": text_of(t, full=True), "how": "ledger eval / ledger parse", "kind": "case"})
            continue
        if seen >= 12:
            break
        seen += 1
        small = t
        if t[0] != "prog" and not has_any(t, ["let", "call", "lambda"]):
            try:
                small = shrink(t, tree_fails)
            except Exception:
                small = t
        rp = {"expr": text_of(small), "full": text_of(small, full=True), "found_in": text_of(t),
              "how": "ledger parse '<expr>'; ledger eval 'verif_rational((<expr>))'", "kind": "case"}
        if fp in ("C15:eval:value", "C15:eval:missing-error") and agrees(reference(small), oneshot_eval(rp["expr"])):
            # not reproduced by a fresh process: the failure needs the definitions the first rendering left in the session
            fp = "C15:eval:rendering"
        rf = reference(small)
        if fp == "C15:eval:value" and rf is not None and rf[0] == "val" and isinstance(rf[1], dict):
            rp["exact"] = {k: str(v) for k, v in rf[1].items()}
        if fp == "C15:eval:rendering":
            # the two renderings were evaluated one after the other in ONE ledger process (definitions persist in the session)
            rp["session"] = ['eval "verif_rational((%s))"' % rp["full"], 'eval "verif_rational((%s))"' % rp["expr"]]
            rp["how"] = "both lines, in this order, in one `ledger -f /dev/null` session"
        ctx.violation(fp + ":" + top_op(small), msg, rp)


def top_op(t):
    if t[0] == "bin":
        return OPKIND.get(t[1], "O_NOT")
    if t[0] == "un":
        return "O_NEG" if t[1] == "neg" else "O_NOT"
    if t[0] == "cond":
        return "O_QUERY"
    return t[0]


# ---------------------------------------------------------------------------


def L(q, dec=0, comm=""):
    return ("lit", ("num", F(q), dec, comm))


def boundary_cases():
    """operands at the edges of every comparison / truth test / arity test the evaluator makes"""
    plain = [L(0), L(1), L(2), L("0.5", 1), L("1.0", 1)]
    eur = [L(0, 2, "EUR"), L("0.01", 2, "EUR"), L("0.99", 2, "EUR"), L(1, 2, "EUR"), L("1.01", 2, "EUR")]
    bools = [("lit", ("bool", True)), ("lit", ("bool", False))]
    boom = ("bin", "/", L(1), L(0))            # fails when evaluated
    out = []
    for grp in (plain, eur):
        for a in grp:
            for b in grp:
                for op in CMP:
                    out.append(("bin", op, a, b))
                    out.append(("bin", op, ("un", "neg", a), b))
                out.append(("bin", "-", a, b))
                out.append(("bin", "/", a, b))
                out.append(("bin", "<", ("bin", "-", a, b), L(0) if grp is plain else L(0, 2, "EUR")))
    for c in plain + eur + bools + [("bin", "-", L(1), L(1)), ("bin", "*", L("0.01", 2, "EUR"), L("0.01", 2, "EUR")),
                                    ("bin", "*", L("0.10", 2, "EUR"), L("0.10", 2, "EUR"))]:
        out.append(("bin", "and", c, boom))
        out.append(("bin", "or", c, boom))
        out.append(("bin", "and", c, L(7)))
        out.append(("bin", "or", c, L(7)))
        out.append(("bin", "and", boom, c))
        out.append(("un", "not", c))
        out.append(("un", "not", ("un", "not", c)))
        out.append(("cond", c, L(1), boom))
        out.append(("cond", c, boom, L(2)))
        out.append(("cond", c, L(1), L(2)))
        out.append(("cond", ("un", "not", c), L(1), L(2)))
    # associativity at every level: a op b op c both ways
    for ops in (MUL, ADD, ["and"], ["or"]):
        for o1 in ops:
            for o2 in ops:
                x, y, z = L(12), L(4), L(2)
                if o1 in ("and", "or"):
                    x, y, z = L(0), L(3), L(0)
                out.append(("bin", o2, ("bin", o1, x, y), z))
                out.append(("bin", o1, x, ("bin", o2, y, z)))
    # arity: one fewer, exact, one more argument; recursion depth 0 and 1
    for i, (npar, narg) in enumerate([(1, 0), (1, 1), (1, 2), (2, 1), (2, 2), (2, 3)]):
        fresh = name_gen(900000 + i)
        f = fresh("f")
        ps = [fresh("p") for _ in range(npar)]
        body = ("bin", "+", ("var", ps[0]), L(1)) if npar == 1 else ("bin", "-", ("var", ps[0]), ("var", ps[1]))
        out.append(("prog", [("deffn", f, ps, body)], ("call", f, [L(10 - k) for k in range(narg)])))
    for i, k in enumerate([0, 1, 2]):
        fresh = name_gen(900100 + i)
        f, n = fresh("f"), fresh("p")
        body = ("cond", ("bin", "<", ("var", n), L(1)), L(0), ("bin", "+", ("var", n), ("call", f, [("bin", "-", ("var", n), L(1))])))
        out.append(("prog", [("deffn", f, [n], body)], ("call", f, [L(k)])))
    # definition-site binding at its edge: redefinition right after / right before the function definition
    for i in range(2):
        fresh = name_gen(900200 + i)
        y, f, x = fresh("v"), fresh("f"), fresh("p")
        defs = [("defvar", y, L(5)), ("deffn", f, [x], ("bin", "+", ("var", x), ("var", y))), ("defvar", y, L(7))]
        if i == 1:
            defs = [("defvar", y, L(5)), ("defvar", y, L(7)), ("deffn", f, [x], ("bin", "+", ("var", x), ("var", y)))]
        out.append(("prog", defs, ("call", f, [L(1)])))
    # parameter scoping at its edges: a local definition that uses the parameter, with a variable / function of the
    # parameter's name defined outside before the function, after it but before the call, or not at all; as a function
    # and as a lambda; called once and twice; two functions with the same parameter name; nested shadowing
    k = 0
    for outer in ("none", "before", "after", "fn-before"):
        for form in ("deffn", "deflam"):
            for twice in (False, True):
                fresh = name_gen(900300 + k)
                k += 1
                X, f, t, q = fresh("p"), fresh("f"), fresh("l"), fresh("p")
                body = ("let", t, ("bin", "*", ("var", X), L(2)), ("bin", "+", ("var", t), L(1)))
                fdef = ("deffn", f, [X], body) if form == "deffn" else ("deflam", f, X, body)
                odef = ("deffn", X, [q], ("bin", "+", ("var", q), L(1000))) if outer == "fn-before" else ("defvar", X, L(100))
                stmts = [odef, fdef] if outer in ("before", "fn-before") else [fdef, odef] if outer == "after" else [fdef]
                fin = ("call", f, [L(5)])
                if twice:
                    fin = ("bin", "+", fin, ("call", f, [L(7)]))
                out.append(("prog", stmts, fin))
    for i in range(4):
        fresh = name_gen(900400 + i)
        X, f, g, t, u = fresh("p"), fresh("f"), fresh("f"), fresh("l"), fresh("l")
        if i == 0:      # two functions, same parameter name, same local name
            out.append(("prog", [("deffn", f, [X], ("let", t, ("bin", "*", ("var", X), L(2)), ("bin", "+", ("var", t), L(1)))),
                                 ("deffn", g, [X], ("let", t, ("bin", "+", ("var", X), L(3)), ("bin", "*", ("var", t), L(2))))],
                        ("bin", "-", ("call", f, [L(5)]), ("call", g, [L(7)]))))
        elif i == 1:    # one calls the other, both with the parameter X and a local definition
            out.append(("prog", [("defvar", X, L(100)),
                                 ("deffn", g, [X], ("let", u, ("bin", "+", ("var", X), L(1)), ("var", u))),
                                 ("deffn", f, [X], ("let", t, ("bin", "*", ("var", X), L(2)), ("call", g, [("var", t)])))],
                        ("bin", "+", ("call", f, [L(5)]), ("var", X))))
        elif i == 2:    # an inner lambda shadows the parameter but no local definition crosses it
            out.append(("prog", [("defvar", X, L(100)), ("deffn", f, [X], ("lamcall", X, ("bin", "+", ("var", X), L(1)), ("bin", "*", ("var", X), L(2))))],
                        ("call", f, [L(5)])))
        else:           # the known capture: the local definition is used under an inner lambda with the same parameter name
            out.append(("prog", [("deffn", f, [X], ("let", t, ("bin", "*", ("var", X), L(2)), ("lamcall", X, ("bin", "+", ("var", t), ("var", X)), L(5))))],
                        ("call", f, [L(1)])))
    return out


# text, expected tree (None: only model and ledger are compared)
TOKEN_EDGES = [
    ("1+2", "(O_ADD (VALUE A:1/1:) (VALUE A:2/1:))"), ("1<=2", "(O_LTE (VALUE A:1/1:) (VALUE A:2/1:))"),
    ("1>=2", "(O_GTE (VALUE A:1/1:) (VALUE A:2/1:))"), ("1==2", "(O_EQ (VALUE A:1/1:) (VALUE A:2/1:))"),
    ("1!=2", "(O_NOT (O_EQ (VALUE A:1/1:) (VALUE A:2/1:)))"), ("1<2", "(O_LT (VALUE A:1/1:) (VALUE A:2/1:))"),
    ("1< =2", None), ("1 = = 2", None), ("1 ! = 2", None), ("1 =< 2", None), ("1 => 2", None), ("1 - > 2", None),
    ("1--2", "(O_SUB (VALUE A:1/1:) (VALUE A:-2/1:))"), ("1 - -2", "(O_SUB (VALUE A:1/1:) (VALUE A:-2/1:))"),
    ("1 - - 2", "(O_SUB (VALUE A:1/1:) (VALUE A:-2/1:))"), ("- 1", "(VALUE A:-1/1:)"), ("-1", "(VALUE A:-1/1:)"),
    ("zqea&&zqeb", "(O_AND (IDENT zqea) (IDENT zqeb))"), ("zqea&zqeb", "(O_AND (IDENT zqea) (IDENT zqeb))"),
    ("zqea||zqeb", "(O_OR (IDENT zqea) (IDENT zqeb))"), ("zqea|zqeb", "(O_OR (IDENT zqea) (IDENT zqeb))"),
    ("zqea & & zqeb", None), ("zqea and zqeb", "(O_AND (IDENT zqea) (IDENT zqeb))"), ("zqea andzqeb", None),
    ("zqeaand zqeb", None), ("andy", "(IDENT andy)"), ("orx", "(IDENT orx)"), ("nota", "(IDENT nota)"), ("divx", "(IDENT divx)"),
    ("ifx", "(IDENT ifx)"), ("elsex", "(IDENT elsex)"), ("truex", "(IDENT truex)"), ("falsex", None), ("falsey", None),
    ("not zqea", "(O_NOT (IDENT zqea))"), ("!zqea", "(O_NOT (IDENT zqea))"), ("! zqea", "(O_NOT (IDENT zqea))"),
    ("not true", "(VALUE T:false)"), ("!true", "(VALUE T:false)"), ("not 0", "(VALUE T:true)"), ("! 3", "(VALUE T:false)"),
    ("6 div 3", "(O_DIV (VALUE A:6/1:) (VALUE A:3/1:))"), ("6div 3", None), ("6 div3", None), ("6/3", "(O_DIV (VALUE A:6/1:) (VALUE A:3/1:))"),
    ("6 /3/ 1", "(O_DIV (O_DIV (VALUE A:6/1:) (VALUE A:3/1:)) (VALUE A:1/1:))"),
    ("2 EUR", "(VALUE A:2/1:EUR)"), ("2EUR", "(VALUE A:2/1:EUR)"), ("2 EURO", "(VALUE A:2/1:EURO)"), ("2.50 EUR + 1", None),
    ("2 - 1 EUR", "(O_SUB (VALUE A:2/1:) (VALUE A:1/1:EUR))"), ("2 and 1", "(O_AND (VALUE A:2/1:) (VALUE A:1/1:))"),
    ("2 or 1", "(O_OR (VALUE A:2/1:) (VALUE A:1/1:))"), ("2 if 1", None), ("2 if 1 else 3", "(O_QUERY (VALUE A:1/1:) (O_COLON (VALUE A:2/1:) (VALUE A:3/1:)))"),
    ("zq_e", "(IDENT zq_e)"), ("_zqe", "(IDENT _zqe)"), ("zqe_ + 1", "(O_ADD (IDENT zqe_) (VALUE A:1/1:))"),
    ("zqea - 1", "(O_SUB (IDENT zqea) (VALUE A:1/1:))"), ("zqea-1", None), ("zqea -1", None), ("zqea - -1", "(O_SUB (IDENT zqea) (VALUE A:-1/1:))"),
    ("(1)", "(VALUE A:1/1:)"), ("((1))", "(VALUE A:1/1:)"), ("( 1 + 2 )*3", "(O_MUL (O_ADD (VALUE A:1/1:) (VALUE A:2/1:)) (VALUE A:3/1:))"),
    ("1?2:3", "(O_QUERY (VALUE A:1/1:) (O_COLON (VALUE A:2/1:) (VALUE A:3/1:)))"), ("zqea?zqeb:zqec", None),
    ("zqef(1,2)", None), ("zqef(1, 2)", "(O_CALL (IDENT zqef) (O_CONS (VALUE A:1/1:) (O_CONS (VALUE A:2/1:))))"), ("zqef()", "(O_CALL (IDENT zqef))"),
    ("zqef( 1 )", "(O_CALL (IDENT zqef) (VALUE A:1/1:))"), ("zqea->zqea", "(O_LAMBDA (IDENT zqea) (SCOPE (IDENT zqea)))"),
    ("zqea=1;zqea", "(O_SEQ (O_DEFINE (IDENT zqea) (SCOPE (VALUE A:1/1:))) (IDENT zqea))"),
    ("{1}", "(VALUE A:1/1:)"), ("{ 1 }", None), ("{-1}", "(VALUE A:-1/1:)"), ("{1.50 EUR}", "(VALUE A:3/2:EUR)"), ("{1", None),
    ("1 < 2 < 3", "(O_LT (O_LT (VALUE A:1/1:) (VALUE A:2/1:)) (VALUE A:3/1:))"),
    ("1 == 2 != 3", "(O_NOT (O_EQ (O_EQ (VALUE A:1/1:) (VALUE A:2/1:)) (VALUE A:3/1:)))"),
]


def run_token_edges(ctx):
    texts = [t for t, _ in TOKEN_EDGES]
    model = vflib.driver_run(["expr.parse\t" + t for t in texts])
    outs = vflib.pmap(oneshot_parse, texts)
    for (t, want), ma, lp in zip(TOKEN_EDGES, model, outs):
        ctx.count()
        ctx.feature("token-edge")
        if model_kind(ma) == "unsupported":
            ctx.feature("model:unsupported")
        elif ma.startswith("ok\t"):
            if ma.split("\t")[1] != lp["tree"]:
                ctx.tie_broken("corr:expr.tokens", "text %r: model %s ledger %s" % (t, ma.split("\t")[1], lp["tree"]))
                ctx.mism.append({"op": "tokens", "text": t, "model": ma, "ledger": lp["tree"]})
            else:
                ctx.traces_validated += 1
        elif lp["tree"] is not None and lp["tree"] != "NULL":
            ctx.tie_broken("corr:expr.tokens", "text %r: model %s, ledger parses it to %s" % (t, ma, lp["tree"]))
            ctx.mism.append({"op": "tokens", "text": t, "model": ma, "ledger": lp["tree"]})
        else:
            ctx.traces_validated += 1
        if want is not None:
            ctx.nontrivial(t)
            if lp["tree"] != want:
                ctx.violation("C15:tokens:" + re.sub(r"[^A-Za-z0-9]+", "_", t), "ledger parses %r to %s; as written it is %s" % (t, lp["tree"], want),
                              {"expr": t, "ledger_tree": lp["tree"], "expected_tree": want, "how": "ledger parse '%s'" % t, "kind": "tree"})


def run(tier, seed):
    ctx = Check("C15", tier, seed)
    ctx.mism = []
    ctx.failing = []
    ctx.rule = ("operator trees over - ! * / + - == != < <= > >= and or ?: with leaves from integers, decimals, EUR/USD amounts and "
                "booleans: every operator skeleton of depth <= 2 (thorough: plus every nesting chain of depth 3), leaves filled by the "
                "seeded PRNG; random programs to depth 7 with definitions, redefinitions, lambdas, functions, recursion; every "
                "alternative operator spelling; a malformed stream. Each case is rendered fully and minimally parenthesised. "
                "Non-trivial = depth >= 2, the two renderings differ and the reference evaluator defines the value; distinct by text")
    ctx.assumptions = ["theorems about parsing are over token lists; text <-> tokens is tied by correspondence",
                       "GMP rational arithmetic is exact; value arithmetic is C03's subject (INTEGER / AMOUNT is its known finding)",
                       "C++ does not fix the evaluation order of a binary operator's operands: which of two errors is reported is not compared",
                       "evaluation in the model is fuelled (2000 nested definition/lambda unfoldings); the parser's fuel is proved sufficient"]
    if not ctx.prepare():
        return ctx.finish()
    rng = ctx.rng
    # a proof obligation, an extractor or the pinned source text broke: search mode, every stream is widened
    search = bool(ctx.ties_broken)
    widen = 6 if (search and ctx.tier == "quick") else 1
    if search:
        ctx.feature("search-mode")
    # 1. fixed witnesses, corpus, boundary and tokeniser-edge streams
    run_witnesses(ctx)
    run_token_edges(ctx)
    run_batch(ctx, boundary_cases(), "boundary")
    # 2. bounded-exhaustive skeletons
    sk = skeletons(2)
    cases = [fill(s, rng) for s in sk if s is not None]
    ctx.exhaustive = {"operator_skeletons_depth_le_2": len(cases)}
    if ctx.tier == "thorough":
        ch = chains3()
        cases += [fill(s, rng) for s in ch]
        ctx.exhaustive["nesting_chains_depth_3"] = len(ch)
        for rep in range(3):
            cases += [fill(s, rng) for s in sk if s is not None]
    for rep_i in range(widen - 1):
        cases += [fill(s, rng) for s in sk if s is not None]
    run_batch(ctx, cases, "skeleton")
    # 3. alternative spellings
    sp_cases = [c for c in cases if has_any(c, ["and", "or", "not", "/", "cond"])]
    rng.shuffle(sp_cases)
    run_spellings(ctx, sp_cases[:(150 if ctx.tier == "quick" else 2500)])
    # 4. random operator trees to depth 7 and random programs
    n_tree = (600 if ctx.tier == "quick" else 20000) * widen
    n_prog = (900 if ctx.tier == "quick" else 30000) * widen
    rcases = []
    for i in range(n_tree):
        fresh = name_gen(i)
        rcases.append(rand_expr(rng, rng.randint(3, 7), {"vars": [], "fns": [], "params": []}, fresh, allow_let=False))
    base = 100000 * (ctx.seed % 1000)
    for i in range(n_prog):
        if i % 15 == 0:
            rcases.append(rec_prog(rng, base + i))
        elif i % 3 == 1:
            rcases.append(shadow_prog(rng, base + i, 6))
        else:
            rcases.append(rand_prog(rng, base + i, 7))
    run_batch(ctx, rcases, "random")
    # 5. malformed stream
    run_malformed(ctx, rng, 150 if ctx.tier == "quick" else 3000)
    report_failures(ctx)
    ctx.extra_cov["oracle_failures"] = len(ctx.failing)
    if ctx.mism:
        ctx.extra_cov["mismatches"] = ctx.mism[:12]
    return ctx.finish()


def replay(obj):
    r = obj.get("replay", {})
    vflib.ensure_ledger()
    expr = r.get("expr")
    if not expr:
        print(obj)
        return 1
    p = oneshot_parse(expr)
    v = oneshot_eval(expr)
    print("expr:           ", expr)
    print("text as parsed: ", p["text"])
    print("tree:           ", p["tree"])
    print("value:          ", v)
    if r.get("kind") == "reparse" or obj.get("fingerprint", "").endswith("print:O_COLON"):
        v1 = oneshot_eval(p["text"]) if p["text"] else "err\tno-text"
        print("value of text as parsed:", v1)
        return 0 if v1 == v else 1
    if r.get("kind") == "tree":
        print("expected tree:  ", r.get("expected_tree"))
        return 0 if p["tree"] == r.get("expected_tree") else 1
    if "exact" in r:
        want = {k: (F(x) if k != "bool" else x == "True") for k, x in r["exact"].items()}
        got = den_of_answer(v[3:]) if v.startswith("ok\t") else None
        print("exact:          ", r["exact"])
        return 0 if got == want else 1
    if "session" in r:
        outs = [eval_answer(o) for o in repl(list(r["session"]))]
        print("one session:    ", outs)
        return 0 if same_value(outs[0], outs[1]) else 1
    if "full" in r:
        v2 = oneshot_eval(r["full"])
        print("fully parenthesised:", r["full"], "->", v2)
        return 0 if v2 == v else 1
    return 1
