"""C16 — automated transactions add exactly the declared postings to each match.

Theorems: lean/LedgerModel/Props/C16.lean over Model/AutoXact.lean (mirror of
auto_xact_t::extend_xact, journal_t::add_xact/extend_xact, the reached part of
xact_base_t::finalize/verify).  Tie: (a) tools/extract_autoxact.py pins the shape
of extend_xact/post_pred/journal_t::extend_xact/add_xact into Gen/AutoXact.lean
(`C16.shape_pinned`), (b) this check runs the model (driver op autoxact.load) and
the rebuilt binary on the same journals interleaving rules and transactions and
diffs canonical rows / error lists.  Oracle on the implementation (plain Python,
Fractions, independent of the Lean model): a paired run of the same file with the
rules commented out gives every transaction's postings as ledger itself reads
them; the run with the rules must show, per transaction, exactly those rows
followed by one row per (rule before the transaction in file order, original
matching posting, rule line) with amount multiplier x matched (or as written), the
rule line's account/kind, flagged generated; and it must be an error exactly when
a rule leaves a must-balance residual.
"""
import os, re, sys, json, copy, tempfile, shutil
from fractions import Fraction
import vflib, jgen
from vflib import Check

MANIFEST = dict(
    text="Machine-checked proof (Lean 4) over a model of auto_xact_t::extend_xact / journal_t::add_xact that, for every transaction, "
         "rule list and matching state: the extended transaction is the original postings followed, for each original non-generated "
         "matching posting in order, by one posting per rule line with amount = multiplier x matched amount exactly (or the fixed "
         "amount as written), the rule line's account ($account substituted) and kind, flagged generated; originals are an unchanged "
         "prefix; generated postings are never matched again (same rule, later rules, or a second pass); rules only affect "
         "transactions added after them; the memoised quick account-only matcher equals the general evaluator; an extension whose "
         "added must-balance postings leave a residual is an error and the transaction is dropped (no size bounds). The shape of "
         "extend_xact/post_pred/add_xact is re-extracted from xact.cc/journal.cc on every run and compared with a pinned copy; the "
         "model is run against the rebuilt binary on journals interleaving 0-4 rules with 1-30 transactions, and an independent "
         "Fraction oracle (paired run without the rules) supplies the failing input when anything breaks.",
    note="Modelled, not verified: boost::regex (matcher is a parameter; compared for metacharacter-free patterns), the query/expr "
         "parsers (covered only through the runs), GMP. Outside the model: costs/lots on postings, amount expressions and %(...) "
         "accounts in rule lines, rule notes/check/assert lines, any()/all(). Postings that finalize itself creates for the 2nd+ "
         "commodity of an elided amount carry ITEM_GENERATED and are, as coded, not matched by rules. 'No longer balances' is "
         "ledger's display-precision zero test (a residual that rounds to zero is accepted).",
    technique="Lean 4 proof (refinement of the memoised loop to a stateless list specification) + pinned source shape + differential model/binary check",
    ref="DESIGN.md §5 C16")

COMMS = jgen.STD_COMMS[:3]          # $ (2), EUR (2), AAA (0)
CM = {c.name: c for c in COMMS}
FMT = "%(xact.beg_line)|%(beg_line)|%(account)|%(display_account)|%(verif_rational(amount))|%(virtual)|%(actual)|%(calculated)\\n"

ACCT_PATS = ["Food", "food", "Bank", "Expenses", "Assets", "Cash", "Out", "Rent", "Income", "Card", "Equity",
             "Assets:Bank", "Food:Out", "s:c", "e", "Savings", "Auto", "Budget", "Zzz"]
PAYEE_PATS_Q = ["1", "2", "ee", "7", "10"]
PAYEE_PATS_E = ["payee 1", "payee 2", "ee 3", "payee", "5", "payee 12"]
RULE_ACCTS = ["Budget:Food", "Tax:$account", "$account:Auto", "Reserve", "Assets:Bank:Savings", "Expenses:Food:Auto",
              "Liabilities:Tax", "$account"]
MULTS = ["1", "-1", "0.1", "0.5", "-0.5", "0.25", "2", "0.015", "0.3333", "-0.1", "1.5", "0.0001", "0", "10", "-0.07", "0.125",
         "0.123456789", "1.000000", "-0.000001", "0.00", "-0", "100", "0.999999999999"]


# ---------------------------------------------------------------- predicates


def pred_eval(p, account, payee, q):
    t = p["t"]
    if t == "const":
        return p["b"]
    if t == "acct":
        return p["pat"].lower() in account.lower()
    if t == "payee":
        return p["pat"].lower() in payee.lower()
    if t == "gt":
        return q > p["n"]
    if t == "lt":
        return q < p["n"]
    if t == "ge":
        return q >= p["n"]
    if t == "le":
        return q <= p["n"]
    if t == "not":
        return not pred_eval(p["a"], account, payee, q)
    if t == "and":
        return pred_eval(p["a"], account, payee, q) and pred_eval(p["b"], account, payee, q)
    if t == "or":
        return pred_eval(p["a"], account, payee, q) or pred_eval(p["b"], account, payee, q)
    if t == "ite":
        return pred_eval(p["a"] if pred_eval(p["c"], account, payee, q) else p["b"], account, payee, q)
    raise ValueError(t)


def leaf_expr(p):
    t = p["t"]
    if t == "const":
        return "true" if p["b"] else "false"
    if t == "acct":
        return "account =~ /%s/" % p["pat"]
    if t == "payee":
        return "payee =~ /%s/" % p["pat"]
    if t in ("gt", "lt", "ge", "le"):
        return "amount %s %d" % ({"gt": ">", "lt": "<", "ge": ">=", "le": "<="}[t], p["n"])
    raise ValueError(t)


def pred_expr(p):
    """`expr` syntax.  The text after `= expr` is first cut up by the QUERY lexer (query.cc): parentheses, & | ! are
    query-level tokens, every innermost parenthesis-free group is handed to the expression parser.  So every node is
    wrapped in exactly one pair of parentheses and `?:` (not a query-level operator) only takes leaves, unparenthesised."""
    t = p["t"]
    if t == "not":
        return "(!%s)" % pred_expr(p["a"])
    if t == "and":
        return "(%s & %s)" % (pred_expr(p["a"]), pred_expr(p["b"]))
    if t == "or":
        return "(%s | %s)" % (pred_expr(p["a"]), pred_expr(p["b"]))
    if t == "ite":
        return "(%s ? %s : %s)" % (leaf_expr(p["c"]), leaf_expr(p["a"]), leaf_expr(p["b"]))
    return "(%s)" % leaf_expr(p)


def pred_query(p, top=True):
    """query syntax (what most users write after '='); only acct/payee/not/and/or."""
    t = p["t"]
    if t == "acct":
        return p["pat"] if top else "(%s)" % p["pat"]
    if t == "payee":
        return "payee %s" % p["pat"] if top else "(payee %s)" % p["pat"]
    if t == "not":
        s = "not %s" % pred_query(p["a"], False)
        return s if top else "(" + s + ")"
    if t == "and":
        s = "%s and %s" % (pred_query(p["a"], False), pred_query(p["b"], False))
        return s if top else "(" + s + ")"
    if t == "or":
        s = "%s or %s" % (pred_query(p["a"], False), pred_query(p["b"], False))
        return s if top else "(" + s + ")"
    raise ValueError(t)


def pred_kinds(p, out=None):
    out = set() if out is None else out
    out.add(p["t"])
    for k in ("a", "b", "c"):
        if isinstance(p.get(k), dict):
            pred_kinds(p[k], out)
    return out


def quick_only(p):
    return not (pred_kinds(p) & {"payee", "gt", "lt", "ge", "le"})


def gen_pred(rng, depth, syntax):
    leaf_q = ["acct"] * 6 + ["payee"]
    leaf_e = ["acct"] * 5 + ["payee", "gt", "lt", "ge", "le", "const"]
    if depth == 0 or rng.random() < 0.45:
        t = rng.choice(leaf_q if syntax == "query" else leaf_e)
        if t == "acct":
            return {"t": "acct", "pat": rng.choice(ACCT_PATS)}
        if t == "payee":
            return {"t": "payee", "pat": rng.choice(PAYEE_PATS_Q if syntax == "query" else PAYEE_PATS_E)}
        if t == "const":
            return {"t": "const", "b": rng.random() < 0.5}
        return {"t": t, "n": rng.choice([0, 0, 5, 10, -10, 100, -100, 50, 1000, -1])}
    ops = ["not", "and", "or", "and", "or"] + ([] if syntax == "query" else ["ite"])
    t = rng.choice(ops)
    if t == "not":
        return {"t": "not", "a": gen_pred(rng, depth - 1, syntax)}
    if t == "ite":
        return {"t": "ite", "c": gen_pred(rng, 0, syntax), "a": gen_pred(rng, 0, syntax), "b": gen_pred(rng, 0, syntax)}
    return {"t": t, "a": gen_pred(rng, depth - 1, syntax), "b": gen_pred(rng, depth - 1, syntax)}


# ---------------------------------------------------------------- rules / journals


def mult_amount(s):
    q = Fraction(s)
    dec = len(s.split(".")[1]) if "." in s else 0
    return {"q": "%d/%d" % (q.numerator, q.denominator), "prec": dec, "comm": ""}


def gen_rule(rng, unbalanced=False):
    syntax = rng.choice(["query", "query", "expr", "expr", "expr"])
    pred = gen_pred(rng, rng.choice([0, 0, 1, 1, 2]), syntax)
    lines = []
    n = rng.randint(0, 4) if rng.random() < 0.1 else rng.randint(1, 4)
    while len(lines) < n:
        acct = rng.choice(RULE_ACCTS)
        r = rng.random()
        if r < 0.35:
            # a single virtual posting: never needs to balance
            lines.append({"account": acct, "kind": "virtual", "amount": rand_amount(rng)})
        elif len(lines) + 2 <= n or r < 0.5:
            # a balanced pair of must-balance postings
            kind = rng.choice(["real", "bvirtual", "bvirtual"])
            a = rand_amount(rng)
            b = dict(a)
            q = -jgen.amt_q(a)
            b["q"] = "%d/%d" % (q.numerator, q.denominator)
            lines.append({"account": acct, "kind": kind, "amount": a})
            lines.append({"account": rng.choice(RULE_ACCTS), "kind": rng.choice([kind, "real", "bvirtual"]), "amount": b})
        else:
            lines.append({"account": acct, "kind": "virtual", "amount": rand_amount(rng)})
    lines = lines[:4]
    if unbalanced and lines:
        k = rng.randrange(len(lines))
        lines[k] = {"account": lines[k]["account"], "kind": rng.choice(["real", "bvirtual"]),
                    "amount": mult_amount(rng.choice(["0.5", "1", "0.0001", "-0.25", "0.001"])) if rng.random() < 0.8
                    else jgen.amt(Fraction(rng.randint(1, 500), 100), CM["$"])}
    return {"pred": pred, "syntax": syntax, "lines": lines}


def rand_amount(rng):
    if rng.random() < 0.72:
        return mult_amount(rng.choice(MULTS))
    c = rng.choice(COMMS)
    dec = c.dec if rng.random() < 0.8 else c.dec + rng.choice([1, 2])
    q = Fraction(rng.randint(-5000, 5000), 10 ** dec)
    return jgen.amt(q, c, dec)


def rule_header(r):
    if r["syntax"] == "query":
        return "= " + pred_query(r["pred"])
    return "= expr " + pred_expr(r["pred"])


def render_rule_line(l):
    acct = l["account"]
    if l["kind"] == "virtual":
        acct = "(" + acct + ")"
    elif l["kind"] == "bvirtual":
        acct = "[" + acct + "]"
    a = l["amount"]
    if a["comm"] == "":
        q = jgen.amt_q(a)
        ip, fp = jgen.dec_digits(q, a["prec"])
        txt = ("-" if q < 0 else "") + ip + ("." + fp if a["prec"] else "")
    else:
        txt = jgen.render_amount(a, COMMS)
    return "    " + acct + "  " + txt


def render(j, with_rules=True):
    """journal text in `items` order; fills line numbers.  with_rules=False
    turns every rule line into a comment line (same line numbers)."""
    out = []
    for it in j["items"]:
        if it["k"] == "x":
            x = j["xacts"][it["i"]]
            lines = jgen.render_xact(x, COMMS)
            x["line"] = len(out) + 1
            for k, p in enumerate(x["posts"]):
                p["line"] = len(out) + 2 + k
            out += lines
            x["end_line"] = len(out)
        else:
            r = j["rules"][it["i"]]
            r["line"] = len(out) + 1
            lines = [r.get("raw_header") or rule_header(r)]
            for k, l in enumerate(r["lines"]):
                l["line"] = len(out) + 2 + k
                lines.append(render_rule_line(l))
            r["end_line"] = len(out) + len(lines)
            if not with_rules:
                lines = ["; " + s.strip() for s in lines]
            out += lines
        out.append("")
    return "\n".join(out) + "\n"


def gen_journal(rng, nx=None, nr=None, p_bad_rule=0.10, p_bad_xact=0.004, big=False):
    g = jgen.Gen(rng, comms=COMMS, p_cost=0.0, magnitudes=[10, 10, 1000, 10 ** 6] if big else [10, 100, 1000])
    nx = nx if nx is not None else rng.choice([1, 2, 3, 4, 5, 6, 8, 12, 20, 30])
    nr = nr if nr is not None else rng.choice([0, 1, 1, 2, 2, 3, 4])
    xs = []
    for _ in range(nx):
        if rng.random() < p_bad_xact:
            xs.append(g.xact(balanced=False))
        else:
            xs.append(g.xact())
    bad = rng.random() < p_bad_rule
    rules = [gen_rule(rng, unbalanced=(bad and k == 0)) for k in range(nr)]
    rng.shuffle(rules)
    # positions: rules before / between / after the transactions
    slots = sorted(rng.choice([0, 0, nx, rng.randint(0, nx), rng.randint(0, nx)]) for _ in range(nr))
    items = []
    ri = 0
    for k in range(nx + 1):
        while ri < nr and slots[ri] == k:
            items.append({"k": "r", "i": ri})
            ri += 1
        if k < nx:
            items.append({"k": "x", "i": k})
    return {"xacts": xs, "rules": rules, "items": items}


def ast_for_model(j):
    """the JSON handed to the driver (rules without the generator's bookkeeping keys)."""
    return {"xacts": j["xacts"],
            "rules": [{"pred": r["pred"], "line": r["line"],
                       "lines": [{"account": l["account"], "kind": l["kind"], "amount": l["amount"], "line": l["line"]}
                                 for l in r["lines"]]} for r in j["rules"]],
            "items": j["items"]}


# ---------------------------------------------------------------- running ledger


def run_ledger(text):
    d = tempfile.mkdtemp(prefix="c16-")
    try:
        p = os.path.join(d, "j.dat")
        with open(p, "w", encoding="utf-8") as f:
            f.write(text)
        rc, out, err = vflib.ledger_run(["-f", p, "reg", "--empty", "--format", FMT], cwd=d)
        return rc, out, err.replace(d + "/", "")
    finally:
        shutil.rmtree(d, ignore_errors=True)


def parse_rows(out):
    """reg output -> list of dict rows (file/transaction order as printed)."""
    rows = []
    for ln in out.split("\n"):
        if not ln:
            continue
        f = ln.split("|")
        if len(f) != 8:
            return None
        xl, pl, acct, dacct, amt, virt, actual, calc = f
        if dacct.startswith("(") and dacct.endswith(")"):
            kind = "virtual"
        elif dacct.startswith("[") and dacct.endswith("]"):
            kind = "bvirtual"
        else:
            kind = "real"
        if (kind != "real") != (virt == "true"):
            return None
        m = re.fullmatch(r"A:(-?\d+)/(\d+):(\d+):([01]):(.*)", amt)
        if not m:
            return None
        rows.append({"xl": int(xl), "pl": int(pl), "account": acct, "kind": kind,
                     "q": Fraction(int(m.group(1)), int(m.group(2))), "prec": int(m.group(3)), "keep": m.group(4),
                     "comm": m.group(5), "gen": actual != "true", "calc": calc == "true"})
    return rows


def canon_rows(rows):
    return ";".join("%d|%d|%s|%s|%d/%d:%d:%s:%s|%d|%d" % (r["xl"], r["pl"], r["account"], r["kind"], r["q"].numerator,
                                                        r["q"].denominator, r["prec"], r["keep"], r["comm"],
                                                        1 if r["gen"] else 0, 1 if r["calc"] else 0) for r in rows)


def parse_errors(err, j):
    """stderr -> sorted list of (xact line, rule line or 0, kind)."""
    res = []
    blocks = re.split(r"(?m)^(?=While parsing file )", err)
    for b in blocks:
        if not b.startswith("While parsing file"):
            continue
        kind = vflib.err_kind(b) or "none"
        m = re.match(r'While parsing file "[^"]*", line (\d+):', b)
        ln = int(m.group(1)) if m else 0
        xl = 0
        for it in j["items"]:
            if it["k"] == "x":
                x = j["xacts"][it["i"]]
                if x["line"] <= ln <= x["end_line"]:
                    xl = x["line"]
        m = re.search(r'While extending transaction from "[^"]*", lines? (\d+)', b)
        if m:
            xl = int(m.group(1))
        m = re.search(r'While applying automated transaction from "[^"]*", lines? (\d+)', b)
        rl = int(m.group(1)) if m else 0
        res.append((xl, rl, kind))
    return res


# ---------------------------------------------------------------- the oracle (independent of the Lean model)


def subst_account(tmpl, matched):
    return tmpl.replace("$account", matched)


def prec_so_far(j, upto_line):
    """decimals written so far per commodity (amounts on lines <= upto_line)."""
    p = {}
    for it in j["items"]:
        if it["k"] == "x":
            x = j["xacts"][it["i"]]
            for po in x["posts"]:
                if po["amount"] is not None and po["line"] <= upto_line:
                    c = po["amount"]["comm"]
                    p[c] = max(p.get(c, 0), po["amount"]["prec"])
        else:
            r = j["rules"][it["i"]]
            for l in r["lines"]:
                if l["amount"]["comm"] and l["line"] <= upto_line:
                    c = l["amount"]["comm"]
                    p[c] = max(p.get(c, 0), l["amount"]["prec"])
    return p


def expected_extension(j, x, base_rows):
    """(rows expected after the base rows, verdict about balance)
    verdict: 'ok' (every rule leaves an exactly zero must-balance residual),
             ('err', rule line) (some rule leaves a residual of at least one display unit),
             'undetermined'."""
    exp = []
    verdict = "ok"
    resid = {}
    prec = prec_so_far(j, x["end_line"])
    for it in j["items"]:
        if it["k"] != "r":
            continue
        r = j["rules"][it["i"]]
        if r["line"] > x["line"]:
            continue
        added_mb = False
        for b in base_rows:
            if b["gen"]:
                continue
            if not pred_eval(r["pred"], b["account"], x["payee"], b["q"]):
                continue
            for l in r["lines"]:
                a = l["amount"]
                if a["comm"] == "":
                    q, comm = b["q"] * jgen.amt_q(a), b["comm"]
                else:
                    q, comm = jgen.amt_q(a), a["comm"]
                exp.append({"xl": x["line"], "pl": l["line"], "account": subst_account(l["account"], b["account"]),
                            "kind": l["kind"], "q": q, "comm": comm, "gen": True, "calc": False,
                            "from": b["pl"], "rule": r["line"]})
                if l["kind"] != "virtual":
                    added_mb = True
                    resid[comm] = resid.get(comm, 0) + q
        if added_mb and verdict == "ok":
            for c, q in resid.items():
                if q == 0:
                    continue
                unit = Fraction(1, 10 ** prec.get(c, 0)) if c else Fraction(0)
                if abs(q) >= unit:
                    verdict = ("err", r["line"])
                    break
                verdict = "undetermined"
    return exp, verdict


def row_key(r):
    return (r["pl"], r["account"], r["kind"], r["q"], r["comm"], r["gen"])


def oracle(j, with_res, base_res):
    """Returns None when the property holds on ledger's own outputs for this
    journal, else (fingerprint, what)."""
    rc, out, err = with_res
    brc, bout, berr = base_res
    if brc != 0:
        # the transactions alone do not load (malformed stream): with rules it must fail too
        if rc == 0:
            return ("C16:base-error-vanishes", "the file without rules is rejected (%s) but accepted with rules" % (vflib.err_kind(berr),))
        return None
    base = parse_rows(bout)
    if base is None:
        return ("C16:observe", "cannot parse base rows")
    by_x = {}
    for r in base:
        by_x.setdefault(r["xl"], []).append(r)
    xs = [j["xacts"][it["i"]] for it in j["items"] if it["k"] == "x"]
    want_err = []
    undetermined = False
    exp_all = []
    for x in xs:
        b = by_x.get(x["line"], [])
        exp, verdict = expected_extension(j, x, b)
        if verdict == "undetermined":
            undetermined = True
        elif verdict != "ok":
            want_err.append((x["line"], verdict[1]))
        exp_all.append((x, b, exp, verdict))
    if rc != 0:
        got = parse_errors(err, j)
        if any(k != "unbalanced" for _, _, k in got):
            return ("C16:other-error", "ledger reports %s for a journal of the fragment" % (got,))
        got_set = sorted((a, b) for a, b, _ in got)
        if not undetermined and got_set != sorted(want_err):
            miss = [e for e in want_err if e not in got_set]
            extra = [e for e in got_set if e not in want_err]
            if extra:
                return ("C16:spurious-unbalanced-error", "ledger rejects (xact line, rule line) %s although the rule's must-balance postings cancel exactly" % (extra,))
            return ("C16:missing-unbalanced-error", "ledger does not reject (xact line, rule line) %s" % (miss,))
        for e in want_err:
            if e not in got_set:
                return ("C16:missing-unbalanced-error", "ledger does not reject (xact line, rule line) %s" % (e,))
        return None
    if want_err:
        return ("C16:unbalanced-extension-accepted",
                "transaction(s) at line(s) %s are extended by a rule whose must-balance postings leave a residual of at least one display unit, yet ledger reports no error"
                % ([e[0] for e in want_err],))
    rows = parse_rows(out)
    if rows is None:
        return ("C16:observe", "cannot parse rows")
    got_x = {}
    for r in rows:
        got_x.setdefault(r["xl"], []).append(r)
    known = {x["line"] for x in xs}
    for xl in got_x:
        if xl not in known:
            return ("C16:observe", "row for unknown transaction line %d" % xl)
    for x, b, exp, verdict in exp_all:
        got = got_x.get(x["line"], [])
        first_rule = min([j["rules"][it["i"]]["line"] for it in j["items"] if it["k"] == "r"] or [10 ** 9])
        # 1. the original postings are an unchanged prefix
        pre = got[:len(b)]
        if [row_key(r) + (r["calc"],) for r in pre] != [row_key(r) + (r["calc"],) for r in b]:
            if x["line"] < first_rule:
                return ("C16:earlier-transaction-touched", "transaction at line %d precedes every rule but differs from the run without rules" % x["line"])
            return ("C16:original-posting-changed", "transaction at line %d: original postings are not an unchanged prefix" % x["line"])
        ext = got[len(b):]
        if x["line"] < first_rule and ext:
            return ("C16:earlier-transaction-touched", "transaction at line %d precedes every rule but gained %d postings" % (x["line"], len(ext)))
        ek = [row_key(r) for r in exp]
        gk = [row_key(r) for r in ext]
        if ek == gk:
            continue
        # localise
        later = [r for r in ext if any(ru["line"] > x["line"] and ru["line"] <= r["pl"] <= ru["end_line"] for ru in j["rules"])]
        if later:
            return ("C16:later-rule-applied", "transaction at line %d received postings of a rule that appears after it" % x["line"])
        if any(not r["gen"] for r in ext):
            return ("C16:generated-flag", "transaction at line %d: an added posting is not flagged generated" % x["line"])
        if len(gk) > len(ek):
            # did a rule fire on a generated posting?
            return ("C16:extra-generated-posting", "transaction at line %d: %d postings added, %d expected (a rule fired on a generated or non-matching posting?)"
                    % (x["line"], len(gk), len(ek)))
        if len(gk) < len(ek):
            return ("C16:missing-generated-posting", "transaction at line %d: %d postings added, %d expected" % (x["line"], len(gk), len(ek)))
        for e, g in zip(exp, ext):
            if row_key(e) == row_key(g):
                continue
            if e["pl"] != g["pl"]:
                return ("C16:order", "transaction at line %d: generated postings out of order (rule line %d expected, %d found)" % (x["line"], e["pl"], g["pl"]))
            if e["account"] != g["account"]:
                return ("C16:account", "transaction at line %d, rule line %d: account %r, expected %r" % (x["line"], e["pl"], g["account"], e["account"]))
            if e["kind"] != g["kind"]:
                return ("C16:kind", "transaction at line %d, rule line %d: kind %s, expected %s" % (x["line"], e["pl"], g["kind"], e["kind"]))
            if e["comm"] != g["comm"]:
                return ("C16:commodity", "transaction at line %d, rule line %d: commodity %r, expected %r" % (x["line"], e["pl"], g["comm"], e["comm"]))
            a = [l for r in j["rules"] for l in r["lines"] if l["line"] == e["pl"]][0]["amount"]
            return ("C16:amount:" + ("multiplier" if a["comm"] == "" else "fixed"),
                    "transaction at line %d, rule line %d applied to posting line %d: amount %s, expected %s" % (x["line"], e["pl"], e["from"], g["q"], e["q"]))
    return None


# ---------------------------------------------------------------- one case


def eval_case(j):
    text = render(j, True)
    base_text = render(j, False)
    w = run_ledger(text)
    b = run_ledger(base_text)
    return text, w, b


def impl_canon(j, w):
    rc, out, err = w
    if rc is None or rc < 0:
        return "died"
    if rc != 0:
        errs = parse_errors(err, j)
        if not errs:
            return "err\tnone"
        return "err\t" + ";".join("%d:%d:%s" % e for e in errs)
    rows = parse_rows(out)
    if rows is None:
        return "unparsed"
    return "ok\t" + canon_rows(rows)


def shrink(j, fp):
    """greedy delta-debugging over items, rule lines and postings of rules; keeps the fingerprint."""
    def failing(c):
        try:
            text, w, b = eval_case(c)
            r = oracle(c, w, b)
        except Exception:
            return False
        return r is not None and r[0] == fp
    cur = copy.deepcopy(j)
    changed = True
    budget = 150
    while changed and budget > 0:
        changed = False
        for k in range(len(cur["items"]) - 1, -1, -1):
            c = copy.deepcopy(cur)
            del c["items"][k]
            budget -= 1
            if budget <= 0:
                break
            if any(it["k"] == "x" for it in c["items"]) and failing(c):
                cur = c
                changed = True
        for ri, r in enumerate(cur["rules"]):
            for k in range(len(r["lines"]) - 1, -1, -1):
                c = copy.deepcopy(cur)
                del c["rules"][ri]["lines"][k]
                budget -= 1
                if budget <= 0:
                    break
                if failing(c):
                    cur = c
                    changed = True
    return cur


def features_of(ctx, j, w):
    rc = w[0]
    nr = sum(1 for it in j["items"] if it["k"] == "r")
    nx = sum(1 for it in j["items"] if it["k"] == "x")
    ctx.feature("rules:%d" % nr)
    ctx.feature("xacts:%s" % ("1" if nx == 1 else "2-5" if nx <= 5 else "6-12" if nx <= 12 else "13-30"))
    pos = [k for k, it in enumerate(j["items"]) if it["k"] == "r"]
    xpos = [k for k, it in enumerate(j["items"]) if it["k"] == "x"]
    for p in pos:
        if p < min(xpos):
            ctx.feature("rule-before-all")
        elif p > max(xpos):
            ctx.feature("rule-after-all")
        else:
            ctx.feature("rule-between")
    for it in j["items"]:
        if it["k"] == "r":
            r = j["rules"][it["i"]]
            ctx.feature("syntax:" + r.get("syntax", "raw"))
            for k in pred_kinds(r["pred"]):
                ctx.feature("pred:" + k)
            ctx.feature("pred-quick-only" if quick_only(r["pred"]) else "pred-falls-back-to-general")
            ctx.feature("lines:%d" % len(r["lines"]))
            for l in r["lines"]:
                ctx.feature("line:" + l["kind"])
                ctx.feature("line:multiplier" if l["amount"]["comm"] == "" else "line:fixed")
                if "$account" in l["account"]:
                    ctx.feature("line:$account")
    ctx.feature("impl:ok" if rc == 0 else "impl:error")


def process(ctx, cases, label):
    """cases: list of journals. Both sides + oracle."""
    res = vflib.pmap(eval_case, cases)
    model = vflib.driver_run(["autoxact.load\t" + json.dumps(ast_for_model(j)) for j in cases])
    for j, (text, w, b), m in zip(cases, res, model):
        ctx.count()
        features_of(ctx, j, w)
        impl = impl_canon(j, w)
        gen_rows = 0
        if w[0] == 0:
            rows = parse_rows(w[1]) or []
            gen_rows = sum(1 for r in rows if r["gen"] and not r["calc"])
            ctx.feature("generated-rows", gen_rows)
            if any(r["gen"] and r["calc"] for r in rows):
                ctx.feature("finalize-generated-balancing-post")
        if m == "err\tunsupported":
            ctx.feature("model:unsupported")
        elif impl != m:
            ctx.tie_broken("corr:autoxact.load", "model and ledger disagree (%s)\n%s\nmodel : %s\nledger: %s" % (label, text, m[:1500], impl[:1500]))
            ctx.mism.append({"journal": text, "model": m, "ledger": impl})
        else:
            ctx.traces_validated += 1
        o = oracle(j, w, b)
        if o is not None:
            fp, what = o
            ctx.feature("oracle-fail:" + fp)
            if fp not in ctx.reported:
                ctx.reported.add(fp)
                small = shrink(j, fp)
                stext, sw, sb = eval_case(small)
                so = oracle(small, sw, sb) or o
                ctx.violation(fp, so[1], {"journal": stext, "ast": small, "cmd": "ledger -f j.dat reg --empty --format '%s'" % FMT,
                                          "ledger_stdout": sw[1][:4000], "ledger_stderr": sw[2][:2000],
                                          "without_rules_stdout": sb[1][:4000], "found_in": text[:6000]})
        nr = sum(1 for it in j["items"] if it["k"] == "r")
        if nr >= 1 and (gen_rows >= 1 or w[0] != 0):
            ctx.nontrivial(text)
        if gen_rows >= 2:
            ctx.sample({"journal": text[:1200], "model_eq_ledger": impl == m, "generated_rows": gen_rows}, cap=4)


# ---------------------------------------------------------------- fixed / bounded-exhaustive cases


def mk_xact(day, payee, posts, state=0):
    return {"date": jgen.day_of(2020, 1, 1) + day, "aux": None, "state": state, "code": "", "payee": payee, "note": "",
            "posts": [{"account": a, "kind": k, "state": 0, "amount": (None if q is None else jgen.amt(Fraction(q), CM[c])),
                       "cost": None, "assert": None, "note": ""} for (a, k, q, c) in posts]}


def exhaustive_cases():
    """every rule position x kind x amount type x predicate family over a 2-transaction journal."""
    cases = []
    preds = [("query", {"t": "acct", "pat": "Food"}),
             ("query", {"t": "and", "a": {"t": "acct", "pat": "expenses"}, "b": {"t": "not", "a": {"t": "acct", "pat": "Out"}}}),
             ("query", {"t": "payee", "pat": "1"}),
             ("expr", {"t": "gt", "n": 5}),
             ("expr", {"t": "and", "a": {"t": "acct", "pat": "Food"}, "b": {"t": "gt", "n": 5}}),
             ("expr", {"t": "or", "a": {"t": "acct", "pat": "Cash"}, "b": {"t": "lt", "n": -100}}),
             ("expr", {"t": "ite", "c": {"t": "acct", "pat": "Food"}, "a": {"t": "acct", "pat": "Out"}, "b": {"t": "acct", "pat": "Cash"}}),
             ("expr", {"t": "const", "b": True}),
             ("query", {"t": "acct", "pat": "Budget"})]   # matches only what rules generate
    amts = [mult_amount("0.1"), mult_amount("-1"), jgen.amt(Fraction(5), CM["AAA"]), jgen.amt(Fraction("2.50"), CM["$"])]
    for pos in (0, 1, 2):
        for kind in ("real", "virtual", "bvirtual"):
            for a in amts:
                for syn, pr in preds:
                    xs = [mk_xact(1, "payee 1", [("Expenses:Food", "real", "10.00", "$"), ("Expenses:Food:Out", "real", "3.33", "$"),
                                                 ("Assets:Cash", "real", None, "$")]),
                          mk_xact(2, "payee 2", [("Expenses:Food", "real", "7.00", "$"), ("Expenses:Rent", "real", "20", "AAA"),
                                                 ("Budget:Virt", "virtual", "1.00", "$"),
                                                 ("Assets:Cash", "real", None, "$")])]
                    lines = [{"account": "Budget:$account", "kind": kind, "amount": a}]
                    if kind != "virtual":
                        b = dict(a)
                        q = -jgen.amt_q(a)
                        b["q"] = "%d/%d" % (q.numerator, q.denominator)
                        lines.append({"account": "Budget:Offset", "kind": kind, "amount": b})
                    rule = {"pred": pr, "syntax": syn, "lines": lines}
                    items = [{"k": "x", "i": 0}, {"k": "x", "i": 1}]
                    items.insert(pos, {"k": "r", "i": 0})
                    cases.append({"xacts": xs, "rules": [rule], "items": items})
    return [copy.deepcopy(c) for c in cases]


def fixed_cases():
    """hand-picked configurations: two rules where the second could match what the first generates; a rule
    matching its own output account; precision-0 multiplier; display-zero residual; unbalanced extension;
    quick matcher falling back mid-journal."""
    F = Fraction
    cs = []
    x1 = lambda d, p: mk_xact(d, p, [("Expenses:Food", "real", "10.00", "$"), ("Assets:Cash", "real", "-10.00", "$")])
    r_food = {"pred": {"t": "acct", "pat": "Food"}, "syntax": "query",
              "lines": [{"account": "Expenses:Food:Auto", "kind": "virtual", "amount": mult_amount("0.1")}]}     # output matches itself
    r_auto = {"pred": {"t": "acct", "pat": "Auto"}, "syntax": "query",
              "lines": [{"account": "Seen:Auto", "kind": "virtual", "amount": mult_amount("1")}]}               # would match rule 1's output
    cs.append({"xacts": [x1(1, "payee 1"), x1(2, "payee 2")], "rules": [r_food, r_auto],
               "items": [{"k": "r", "i": 0}, {"k": "r", "i": 1}, {"k": "x", "i": 0}, {"k": "x", "i": 1}]})
    cs.append({"xacts": [x1(1, "payee 1"), x1(2, "payee 2")], "rules": [r_food, r_auto],
               "items": [{"k": "x", "i": 0}, {"k": "r", "i": 0}, {"k": "x", "i": 1}, {"k": "r", "i": 1}]})
    # precision 0 commodity times 0.1
    xa = mk_xact(1, "payee 1", [("Expenses:Rent", "real", "1", "AAA"), ("Assets:Cash", "real", "-1", "AAA")])
    cs.append({"xacts": [xa], "rules": [{"pred": {"t": "acct", "pat": "Rent"}, "syntax": "query",
                                          "lines": [{"account": "Tiny", "kind": "virtual", "amount": mult_amount("0.1")}]}],
               "items": [{"k": "r", "i": 0}, {"k": "x", "i": 0}]})
    # display-zero residual is accepted, one display unit is not
    for mult in ("0.0001", "0.001", "0.0005", "0.0004"):
        cs.append({"xacts": [x1(1, "payee 1")], "rules": [{"pred": {"t": "acct", "pat": "Food"}, "syntax": "query",
                                                            "lines": [{"account": "Extra", "kind": "real", "amount": mult_amount(mult)}]}],
                   "items": [{"k": "r", "i": 0}, {"k": "x", "i": 0}]})
    # unbalanced extension by the second of two rules; first rule virtual only
    r_bad = {"pred": {"t": "gt", "n": 0}, "syntax": "expr", "lines": [{"account": "Tax", "kind": "bvirtual", "amount": mult_amount("0.5")}]}
    cs.append({"xacts": [x1(1, "payee 1"), x1(2, "payee 2"), x1(3, "payee 3")], "rules": [r_food, r_bad],
               "items": [{"k": "r", "i": 0}, {"k": "x", "i": 0}, {"k": "r", "i": 1}, {"k": "x", "i": 1}, {"k": "x", "i": 2}]})
    # quick matcher: false (memoised) for Cash, then throws on Food and falls back
    r_mix = {"pred": {"t": "and", "a": {"t": "acct", "pat": "Food"}, "b": {"t": "gt", "n": 5}}, "syntax": "expr",
             "lines": [{"account": "Mixed", "kind": "virtual", "amount": mult_amount("1")}]}
    xm = [mk_xact(1, "payee 1", [("Assets:Cash", "real", "-3.00", "$"), ("Expenses:Rent", "real", "3.00", "$")]),
          mk_xact(2, "payee 2", [("Assets:Cash", "real", "-9.00", "$"), ("Expenses:Food", "real", "9.00", "$")]),
          mk_xact(3, "payee 3", [("Expenses:Food", "real", "4.00", "$"), ("Assets:Cash", "real", "-4.00", "$")])]
    cs.append({"xacts": xm, "rules": [r_mix], "items": [{"k": "r", "i": 0}] + [{"k": "x", "i": k} for k in range(3)]})
    # multi-commodity elided amount: the 2nd balancing posting is ITEM_GENERATED and not matched
    xe = mk_xact(1, "payee 1", [("Expenses:Food", "real", "7.00", "$"), ("Expenses:Rent", "real", "20", "AAA"), ("Assets:Cash", "real", None, "$")])
    cs.append({"xacts": [xe], "rules": [{"pred": {"t": "acct", "pat": "Cash"}, "syntax": "query",
                                          "lines": [{"account": "Seen", "kind": "virtual", "amount": mult_amount("1")}]}],
               "items": [{"k": "r", "i": 0}, {"k": "x", "i": 0}]})
    # fixed amount with more decimals than seen so far raises the display precision
    cs.append({"xacts": [x1(1, "payee 1")], "rules": [{"pred": {"t": "acct", "pat": "Food"}, "syntax": "query",
                                                        "lines": [{"account": "A", "kind": "bvirtual", "amount": jgen.amt(F("1.2345"), CM["$"], 4)},
                                                                  {"account": "B", "kind": "bvirtual", "amount": jgen.amt(F("-1.2345"), CM["$"], 4)},
                                                                  {"account": "C", "kind": "real", "amount": mult_amount("0.0004")}]}],
               "items": [{"k": "r", "i": 0}, {"k": "x", "i": 0}]})
    # a rule with no posting lines, a rule after everything
    cs.append({"xacts": [x1(1, "payee 1")], "rules": [{"pred": {"t": "acct", "pat": "Food"}, "syntax": "query", "lines": []}, r_food],
               "items": [{"k": "r", "i": 0}, {"k": "x", "i": 0}, {"k": "r", "i": 1}]})
    return [copy.deepcopy(c) for c in cs]


def boundary_cases():
    """the edges of every branch of the modelled code: comparison operands equal / one unit off; rule exactly before /
    after the transaction; the same account twice in one transaction (memo hit) with different amounts; first / last /
    only posting matching; single-posting transactions; multipliers 0, 1, -1, many decimals (precision clamp);
    0 and 4 rule lines; 4 rules; a rule matching only its own / another rule's output; residual exactly at, just
    below and just above the display unit."""
    cs = []
    V = lambda acct, mult, kind="virtual": {"account": acct, "kind": kind, "amount": mult_amount(mult)}
    seen = [V("Seen:$account", "1")]
    # comparisons at the boundary
    for op in ("gt", "lt", "ge", "le"):
        for n in (10, 0, -10):
            posts = []
            for d in ("-0.01", "0", "0.01"):
                q = Fraction(n) + Fraction(d)
                posts.append(("Expenses:Food", "real", str(q) if q.denominator == 1 else "%.2f" % float(q), "$"))
            posts.append(("Assets:Cash", "real", None, "$"))
            cs.append({"xacts": [mk_xact(1, "payee 1", posts)], "rules": [{"pred": {"t": op, "n": n}, "syntax": "expr", "lines": seen}],
                       "items": [{"k": "r", "i": 0}, {"k": "x", "i": 0}]})
    # same account twice (memo hit), different amounts, quick-only and falling-back predicates
    twice = mk_xact(1, "payee 1", [("Expenses:Food", "real", "10.00", "$"), ("Assets:Cash", "real", "-4.00", "$"),
                                   ("Expenses:Food", "real", "3.00", "$"), ("Assets:Cash", "real", "-9.00", "$")])
    for syn, pr in [("query", {"t": "acct", "pat": "Food"}), ("query", {"t": "not", "a": {"t": "acct", "pat": "Food"}}),
                    ("expr", {"t": "and", "a": {"t": "acct", "pat": "Food"}, "b": {"t": "gt", "n": 5}}),
                    ("expr", {"t": "or", "a": {"t": "acct", "pat": "Cash"}, "b": {"t": "gt", "n": 5}}),
                    ("expr", {"t": "ite", "c": {"t": "acct", "pat": "Food"}, "a": {"t": "gt", "n": 5}, "b": {"t": "lt", "n": -5}}),
                    ("expr", {"t": "and", "a": {"t": "gt", "n": 5}, "b": {"t": "acct", "pat": "Food"}})]:
        for reps in (1, 2):
            xs = [copy.deepcopy(twice) for _ in range(reps)]
            cs.append({"xacts": xs, "rules": [{"pred": pr, "syntax": syn, "lines": seen}],
                       "items": [{"k": "r", "i": 0}] + [{"k": "x", "i": k} for k in range(reps)]})
    # quick-only connectives where exactly one operand holds (post_pred's && || ! ?: cells)
    A = lambda pat: {"t": "acct", "pat": pat}
    four = mk_xact(1, "payee 1", [("Expenses:Food", "real", "10.00", "$"), ("Expenses:Food:Out", "real", "2.00", "$"),
                                  ("Expenses:Rent", "real", "3.00", "$"), ("Assets:Cash", "real", "-15.00", "$")])
    for syn, pr in [("query", {"t": "and", "a": A("Food"), "b": A("Out")}), ("query", {"t": "or", "a": A("Out"), "b": A("Rent")}),
                    ("query", {"t": "and", "a": A("Expenses"), "b": {"t": "not", "a": A("Food")}}),
                    ("query", {"t": "not", "a": {"t": "or", "a": A("Food"), "b": A("Cash")}}),
                    ("expr", {"t": "ite", "c": A("Food"), "a": A("Out"), "b": A("Rent")}),
                    ("expr", {"t": "and", "a": {"t": "const", "b": True}, "b": A("Rent")}),
                    ("expr", {"t": "or", "a": {"t": "const", "b": False}, "b": A("Rent")})]:
        cs.append({"xacts": [copy.deepcopy(four), copy.deepcopy(four)], "rules": [{"pred": pr, "syntax": syn, "lines": seen}],
                   "items": [{"k": "r", "i": 0}, {"k": "x", "i": 0}, {"k": "x", "i": 1}]})
    # first / last / only posting; single-posting transactions
    three = [("Expenses:Food", "real", "10.00", "$"), ("Expenses:Rent", "real", "5.00", "$"), ("Assets:Cash", "real", "-15.00", "$")]
    for pat in ("Food", "Rent", "Cash", "e", "Zzz"):
        cs.append({"xacts": [mk_xact(1, "payee 1", three)], "rules": [{"pred": {"t": "acct", "pat": pat}, "syntax": "query", "lines": seen}],
                   "items": [{"k": "r", "i": 0}, {"k": "x", "i": 0}]})
    for posts in ([("Expenses:Food", "virtual", "5.00", "$")], [("Expenses:Food", "real", "0.00", "$")],
                  [("Expenses:Food", "bvirtual", "0", "AAA")]):
        for lines in (seen, [V("A", "1", "real"), V("B", "-1", "real")], [V("A", "2", "bvirtual")]):
            cs.append({"xacts": [mk_xact(1, "payee 1", posts)], "rules": [{"pred": {"t": "acct", "pat": "Food"}, "syntax": "query", "lines": lines}],
                       "items": [{"k": "r", "i": 0}, {"k": "x", "i": 0}]})
    # multipliers and the precision clamp (commodity precision + 6)
    for mult in ("0", "1", "-1", "0.123456789", "0.000001", "0.0000001", "1.000000", "-0.5", "123456789.123456789"):
        for c, qs in (("$", "10.00"), ("AAA", "7"), ("EUR", "0.01")):
            cs.append({"xacts": [mk_xact(1, "payee 1", [("Expenses:Food", "real", qs, c), ("Assets:Cash", "real", None, c)])],
                       "rules": [{"pred": {"t": "acct", "pat": "Food"}, "syntax": "query", "lines": [V("M", mult), V("M2:$account", mult, "bvirtual"),
                                                                                                    V("M3", "-" + mult if not mult.startswith("-") else mult[1:], "bvirtual")]}],
                       "items": [{"k": "r", "i": 0}, {"k": "x", "i": 0}]})
    # 4 rules x 4 lines, rules exactly before / after each transaction
    r4 = [{"pred": {"t": "acct", "pat": pat}, "syntax": "query",
           "lines": [V("L1:$account", "1"), V("L2", "0.5", "bvirtual"), V("L3", "-0.5", "bvirtual"), V("L4", "-1")]}
          for pat in ("Food", "Cash", "L1", "L2")]
    xs = [mk_xact(k, "payee %d" % k, [("Expenses:Food", "real", "10.00", "$"), ("Assets:Cash", "real", "-10.00", "$")]) for k in range(1, 5)]
    items = []
    for k in range(4):
        items += [{"k": "x", "i": k}, {"k": "r", "i": k}]
    cs.append({"xacts": xs, "rules": r4, "items": items})
    cs.append({"xacts": xs, "rules": r4, "items": list(reversed(items))})
    cs.append({"xacts": xs, "rules": r4, "items": [{"k": "r", "i": k} for k in range(4)] + [{"k": "x", "i": k} for k in range(4)]})
    cs.append({"xacts": xs, "rules": r4, "items": [{"k": "x", "i": k} for k in range(4)] + [{"k": "r", "i": k} for k in range(4)]})
    # residual exactly at / around one display unit and the rounding point
    for mult in ("0.001", "0.0009", "0.0011", "0.0005", "0.00051", "0.00049", "0.00001", "-0.001", "-0.0005"):
        for kind in ("real", "bvirtual"):
            cs.append({"xacts": [mk_xact(1, "payee 1", [("Expenses:Food", "real", "10.00", "$"), ("Assets:Cash", "real", "-10.00", "$")]),
                                 mk_xact(2, "payee 2", [("Expenses:Rent", "real", "10.00", "$"), ("Assets:Cash", "real", "-10.00", "$")])],
                       "rules": [{"pred": {"t": "acct", "pat": "Food"}, "syntax": "query", "lines": [V("Extra", mult, kind)]}],
                       "items": [{"k": "r", "i": 0}, {"k": "x", "i": 0}, {"k": "x", "i": 1}]})
    return [copy.deepcopy(c) for c in cs]


def cost_cases(rng, n):
    """oracle-only stream (outside the Lean model): matched postings carrying costs."""
    cs = []
    for _ in range(n):
        g = jgen.Gen(rng, comms=COMMS, p_cost=0.5, p_elide=0.3, magnitudes=[10, 100])
        xs = [g.xact() for _ in range(rng.randint(1, 4))]
        rule = {"pred": {"t": "acct", "pat": rng.choice(["Expenses", "Assets", "e", "Food"])}, "syntax": "query",
                "lines": [{"account": "Seen:$account", "kind": "virtual", "amount": mult_amount(rng.choice(["1", "0.5", "-0.25"]))}]}
        cs.append({"xacts": xs, "rules": [rule], "items": [{"k": "r", "i": 0}] + [{"k": "x", "i": k} for k in range(len(xs))]})
    return cs


def malformed_stream(ctx):
    """garbage to the driver; malformed rules to ledger (must be an error, never a partial report)."""
    lines = ["autoxact.load", "autoxact.load\t{", "autoxact.load\t{\"xacts\":[]}", "autoxact.load\t{\"xacts\":[],\"rules\":[],\"items\":[{\"k\":\"r\",\"i\":3}]}",
             "autoxact.load\t{\"xacts\":[],\"rules\":[{\"pred\":{\"t\":\"nope\"},\"lines\":[],\"line\":1}],\"items\":[]}", "autoxact.nope\tx"]
    want = ["err\tbad-op", "err\tbad-json", "err\tbad-json", "err\tbad-json", "err\tbad-json", "err\tbad-op"]
    got = vflib.driver_run(lines)
    for l, g, w in zip(lines, got, want):
        ctx.count()
        if g != w:
            ctx.tie_broken("corr:malformed-driver", "driver answered %r to %r, expected %r" % (g, l, w))
    bad_headers = ["=", "= expr (", "= expr (amount >", "= /unterminated", "= payee"]
    for h in bad_headers:
        x = mk_xact(1, "payee 1", [("Expenses:Food", "real", "10.00", "$"), ("Assets:Cash", "real", "-10.00", "$")])
        j = {"xacts": [x], "rules": [{"pred": {"t": "const", "b": True}, "syntax": "raw", "raw_header": h,
                                      "lines": [{"account": "X", "kind": "virtual", "amount": mult_amount("1")}]}],
             "items": [{"k": "r", "i": 0}, {"k": "x", "i": 0}]}
        text = render(j, True)
        rc, out, err = run_ledger(text)
        ctx.count()
        ctx.feature("malformed-rule-header")
        if rc == 0 or out.strip():
            ctx.violation("C16:malformed-rule-accepted", "rule header %r is accepted or yields a partial report" % h,
                          {"journal": text, "ledger_stdout": out[:2000], "ledger_stderr": err[:2000]})


def run(tier, seed):
    ctx = Check("C16", tier, seed)
    ctx.mism = []
    ctx.reported = set()
    ctx.rule = ("journals interleaving 0-4 rules (account terms, payee terms, expr over amount<cmp>N, combined with not/and/or/?:, in "
                "query or expr syntax; 0-4 lines, multipliers or fixed amounts, real/(virtual)/[balanced], $account) with 1-30 "
                "balanced-by-construction transactions (elided amounts, several commodities, virtual postings), rules before / between / "
                "after; ~10% of journals carry a rule that unbalances, ~0.4% of transactions are unbalanced themselves; plus "
                "bounded-exhaustive position x kind x amount type x predicate family; non-trivial = >=1 rule and (>=1 generated row or "
                "an error); distinct by journal text")
    ctx.assumptions = ["boost::regex icase search = case-insensitive substring for metacharacter-free patterns",
                       "GMP rational arithmetic is exact",
                       "reg prints postings in transaction order, postings in xact.posts order (no sort option given)"]
    if not ctx.prepare():
        return ctx.finish()
    rng = ctx.rng
    exh = exhaustive_cases()
    ctx.extra_cov["exhaustive_cases"] = len(exh)
    process(ctx, fixed_cases(), "fixed")
    bnd = boundary_cases()
    ctx.extra_cov["boundary_cases"] = len(bnd)
    process(ctx, bnd, "boundary")
    process(ctx, exh, "exhaustive")
    n = 450 if ctx.tier == "quick" else 12000
    if ctx.ties_broken:
        # a proof obligation or an extractor broke: search mode, widen the random stream
        ctx.extra_cov["search_mode"] = [t[0] for t in ctx.ties_broken]
        n *= 6
    CH = 300
    for s in range(0, n, CH):
        cases = []
        for k in range(min(CH, n - s)):
            cases.append(gen_journal(rng, big=(k % 7 == 0)))
        process(ctx, cases, "random")
    # oracle-only stream with costs (the model answers unsupported)
    process(ctx, cost_cases(rng, 40 if ctx.tier == "quick" else 600), "cost")
    malformed_stream(ctx)
    if ctx.mism:
        ctx.extra_cov["mismatches"] = ctx.mism[:5]
    return ctx.finish()


def replay(obj):
    r = obj.get("replay", {})
    if "ast" not in r:
        print(json.dumps(obj, indent=1)[:3000])
        return 1
    vflib.ensure_ledger()
    j = r["ast"]
    text, w, b = eval_case(j)
    print(text)
    print("ledger now: rc=%s\n%s%s" % (w[0], w[1], w[2]))
    o = oracle(j, w, b)
    print("oracle:", o)
    return 0 if o is None else 1
