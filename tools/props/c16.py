"""C16 — automated transactions add exactly the declared postings to each match.

Theorems: lean/LedgerModel/Props/C16.lean over Model/AutoXact.lean (mirror of
auto_xact_t::extend_xact incl. deferred notes, check/assert lines, amount
expressions, rule-line costs, posting state; journal_t::add_xact/extend_xact; the
reached part of xact_base_t::finalize/verify incl. costs and lots).  Tie: (a)
tools/extract_autoxact.py pins the text of extend_xact / post_pred / verify /
add_balancing_post / journal_t::extend_xact / add_xact into Gen/AutoXact.lean
(`C16.fns_pinned`), (b) this check runs the model (driver op autoxact.load) and the
rebuilt binary on the same journals interleaving rules and transactions and diffs
canonical rows / warnings / error lists.  Oracle on the implementation (plain
Python, Fractions, independent of the Lean model): a paired run of the same file
with the rules commented out gives every transaction's postings as ledger itself
reads them (amounts with their lots, costs, states, notes); `simulate` restates
the property on those rows — per transaction, per rule before it in file order, per
original (not generated) posting in order: match?, rule-level notes, checks /
asserts, one row per rule line with the declared amount / account / kind / state /
cost / note — and the run with the rules must show exactly that, or be an error
exactly when the restated property says so.
"""
import os, re, sys, json, copy, tempfile, shutil, datetime
from fractions import Fraction
import vflib, jgen
from vflib import Check

MANIFEST = dict(
    text="Machine-checked proof (Lean 4) over a model of auto_xact_t::extend_xact / journal_t::add_xact that, for every transaction, "
         "rule list and matching state: the memoised code loop equals a stateless specification; for predicates without any()/all() "
         "the extended transaction is the original postings (matched ones gain only the rule-level notes) followed, for each original "
         "non-generated matching posting in order, by one posting per rule line with amount = multiplier x matched amount exactly (the "
         "matched amount keeps its lot; its cost plays no role), or the fixed amount as written, or the value of the line's amount "
         "expression; the rule line's account ($account / %(account) / %(payee) substituted), kind, total cost, state (cleared when "
         "the transaction is cleared) and notes; flagged generated; generated postings are never matched again; rules only affect "
         "later transactions; the quick account-only matcher with its memo equals the general evaluator; a failing assert is an error, "
         "a failing check never rejects; an extension that adds must-balance postings and leaves a residual (or a cost in the amount's "
         "own commodity) is an error and the transaction is dropped (no size bounds). The text of the mirrored functions is "
         "re-extracted from xact.cc/journal.cc on every run and compared with a pinned copy; the model is run against the rebuilt "
         "binary on journals interleaving 0-4 rules with 1-30 transactions, and an independent Fraction oracle (paired run without the "
         "rules) supplies the failing input when anything breaks.",
    note="Modelled, not verified: boost::regex (matcher is a parameter; compared for metacharacter-free patterns), the query/expr "
         "parsers (covered only through the runs; check/amount expressions go through C15's expression model), GMP. any()/all() walk "
         "the LIVE posting list, so postings a rule has just generated can make later postings of the same transaction match (modelled "
         "and compared; the closed-form theorems assume any/all-free predicates). Postings that finalize itself creates for the 2nd+ "
         "commodity of an elided amount carry ITEM_GENERATED and are, as coded, not matched by rules. 'No longer balances' is ledger's "
         "display-precision zero test. Outside the model: balance assertions, a cost on a posting that already has a lot price, "
         "tags/metadata parsed from notes, any(e, false).",
    technique="Lean 4 proof (refinement of the memoised loop to a stateless specification) + pinned source text + differential model/binary check",
    ref="DESIGN.md §5 C16")

COMMS = jgen.STD_COMMS[:3]          # $ (2), EUR (2), AAA (0)
CM = {c.name: c for c in COMMS}
FMT = ("%(xact.beg_line)|%(beg_line)|%(account)|%(display_account)|%(verif_rational(amount))|%(verif_rational(lot_price(amount)))|"
       "%(lot_date(amount))|%(has_cost)|%(verif_rational(cost))|%(cleared)|%(pending)|%(virtual)|%(actual)|%(calculated)|%(join(note))|\\n")

ACCT_PATS = ["Food", "food", "Bank", "Expenses", "Assets", "Cash", "Out", "Rent", "Income", "Card", "Equity",
             "Assets:Bank", "Food:Out", "s:c", "e", "Savings", "Auto", "Budget", "Zzz"]
PAYEE_PATS_Q = ["1", "2", "ee", "7", "10"]
PAYEE_PATS_E = ["payee 1", "payee 2", "ee 3", "payee", "5", "payee 12"]
RULE_ACCTS = ["Budget:Food", "Tax:$account", "$account:Auto", "Reserve", "Assets:Bank:Savings", "Expenses:Food:Auto",
              "Liabilities:Tax", "$account", "Fmt:%(account)", "By:%(payee)", "%(account):Sub"]
MULTS = ["1", "-1", "0.1", "0.5", "-0.5", "0.25", "2", "0.015", "0.3333", "-0.1", "1.5", "0.0001", "0", "10", "-0.07", "0.125",
         "0.123456789", "1.000000", "-0.000001", "0.00", "-0", "100", "0.999999999999"]
NOTE_WORDS = ["alpha", "beta gamma", "n1", "auto gen", "x y z"]
EPOCH = datetime.date(1970, 1, 1)


def fq(a):
    return jgen.amt_q(a)


def qstr(q):
    q = Fraction(q)
    return "%d/%d" % (q.numerator, q.denominator)


# ---------------------------------------------------------------- rules: normal form


def norm_rule(r):
    """rule = {"pred","syntax","body":[entry...]}; older builders give "lines": [{"account","kind","amount"}]."""
    if "body" not in r:
        r["body"] = [dict(l, t="post") for l in r.get("lines", [])]
    for e in r["body"]:
        if e["t"] == "post":
            e.setdefault("state", 0)
            e.setdefault("cost", None)
            e.setdefault("note", "")
            e.setdefault("expr", None)
            e.setdefault("amount", None)
    r["lines"] = [e for e in r["body"] if e["t"] == "post"]
    return r


def norm_journal(j):
    for r in j["rules"]:
        norm_rule(r)
    return j


def posts_of(r):
    return [e for e in r["body"] if e["t"] == "post"]


def notes_for(r, i):
    """deferred notes reaching the posting generated for rule line i (None = the matched posting)."""
    out = []
    k = -1
    for e in r["body"]:
        if e["t"] == "post":
            k += 1
        elif e["t"] == "note":
            if k == -1 or (i is not None and k == i):
                out.append(" " + e["text"])
    return out


# ---------------------------------------------------------------- predicates


def pred_eval(p, row, payee, live):
    t = p["t"]
    if t == "const":
        return p["b"]
    if t == "acct":
        return p["pat"].lower() in row["account"].lower()
    if t == "payee":
        return p["pat"].lower() in payee.lower()
    if t == "gt":
        return row["q"] > p["n"]
    if t == "lt":
        return row["q"] < p["n"]
    if t == "ge":
        return row["q"] >= p["n"]
    if t == "le":
        return row["q"] <= p["n"]
    if t == "not":
        return not pred_eval(p["a"], row, payee, live)
    if t == "and":
        return pred_eval(p["a"], row, payee, live) and pred_eval(p["b"], row, payee, live)
    if t == "or":
        return pred_eval(p["a"], row, payee, live) or pred_eval(p["b"], row, payee, live)
    if t == "ite":
        return pred_eval(p["a"] if pred_eval(p["c"], row, payee, live) else p["b"], row, payee, live)
    if t == "any":
        return any(pred_eval(p["a"], r, payee, live) for r in live)
    if t == "all":
        return all(pred_eval(p["a"], r, payee, live) for r in live)
    raise ValueError(t)


def leaf_expr(p):
    t = p["t"]
    if t == "const":
        return "true" if p["b"] else "false"
    if t == "acct":
        return "account =~ /%s/" % p["pat"]
    if t == "payee":
        return "payee =~ /%s/" % p["pat"]
    if t in ("gt", "lt", "ge", "le"):
        return "amount %s %d" % ({"gt": ">", "lt": "<", "ge": ">=", "le": "<="}[t], p["n"])
    raise ValueError(t)


def pred_expr(p):
    """`expr` syntax.  The text after `= expr` is first cut up by the QUERY lexer (query.cc): parentheses, & | ! are
    query-level tokens, every innermost parenthesis-free group is handed to the expression parser.  So every node is
    wrapped in exactly one pair of parentheses and `?:` (not a query-level operator) only takes leaves, unparenthesised."""
    t = p["t"]
    if t == "not":
        return "(!%s)" % pred_expr(p["a"])
    if t == "and":
        return "(%s & %s)" % (pred_expr(p["a"]), pred_expr(p["b"]))
    if t == "or":
        return "(%s | %s)" % (pred_expr(p["a"]), pred_expr(p["b"]))
    if t == "ite":
        return "(%s ? %s : %s)" % (leaf_expr(p["c"]), leaf_expr(p["a"]), leaf_expr(p["b"]))
    return "(%s)" % leaf_expr(p)


def flat_atom(p):
    if p["t"] in ("any", "all"):
        a = p["a"]
        inner = "%s & %s" % (leaf_expr(a["a"]), leaf_expr(a["b"])) if a["t"] == "and" else leaf_expr(a)
        return "%s(%s)" % (p["t"], inner)
    return leaf_expr(p)


def pred_flat(p):
    """`= expr` followed by ONE parenthesis-free expression (the only spelling the query lexer hands over whole when
    it contains a call): atoms are leaves or any(...)/all(...); shapes A, A & B, A | B, (A & B) | C, A ? B : C."""
    t = p["t"]
    if t == "and":
        return "%s & %s" % (flat_atom(p["a"]), flat_atom(p["b"]))
    if t == "or":
        l = p["a"]
        ls = "%s & %s" % (flat_atom(l["a"]), flat_atom(l["b"])) if l["t"] == "and" else flat_atom(l)
        return "%s | %s" % (ls, flat_atom(p["b"]))
    if t == "ite":
        return "%s ? %s : %s" % (flat_atom(p["c"]), flat_atom(p["a"]), flat_atom(p["b"]))
    return flat_atom(p)


def pred_query(p, top=True):
    """query syntax (what most users write after '='); only acct/payee/not/and/or."""
    t = p["t"]
    if t == "acct":
        return p["pat"] if top else "(%s)" % p["pat"]
    if t == "payee":
        return "payee %s" % p["pat"] if top else "(payee %s)" % p["pat"]
    if t == "not":
        s = "not %s" % pred_query(p["a"], False)
        return s if top else "(" + s + ")"
    if t == "and":
        s = "%s and %s" % (pred_query(p["a"], False), pred_query(p["b"], False))
        return s if top else "(" + s + ")"
    if t == "or":
        s = "%s or %s" % (pred_query(p["a"], False), pred_query(p["b"], False))
        return s if top else "(" + s + ")"
    raise ValueError(t)


def pred_kinds(p, out=None):
    out = set() if out is None else out
    out.add(p["t"])
    for k in ("a", "b", "c"):
        if isinstance(p.get(k), dict):
            pred_kinds(p[k], out)
    return out


def quick_only(p):
    return not (pred_kinds(p) & {"payee", "gt", "lt", "ge", "le", "any", "all"})


def gen_leaf(rng, syntax):
    leaf_q = ["acct"] * 6 + ["payee"]
    leaf_e = ["acct"] * 5 + ["payee", "gt", "lt", "ge", "le", "const"]
    t = rng.choice(leaf_q if syntax == "query" else leaf_e)
    if t == "acct":
        return {"t": "acct", "pat": rng.choice(ACCT_PATS)}
    if t == "payee":
        return {"t": "payee", "pat": rng.choice(PAYEE_PATS_Q if syntax == "query" else PAYEE_PATS_E)}
    if t == "const":
        return {"t": "const", "b": rng.random() < 0.5}
    return {"t": t, "n": rng.choice([0, 0, 5, 10, -10, 100, -100, 50, 1000, -1])}


def gen_pred(rng, depth, syntax):
    if depth == 0 or rng.random() < 0.45:
        return gen_leaf(rng, syntax)
    ops = ["not", "and", "or", "and", "or"] + ([] if syntax == "query" else ["ite"])
    t = rng.choice(ops)
    if t == "not":
        return {"t": "not", "a": gen_pred(rng, depth - 1, syntax)}
    if t == "ite":
        return {"t": "ite", "c": gen_pred(rng, 0, syntax), "a": gen_pred(rng, 0, syntax), "b": gen_pred(rng, 0, syntax)}
    return {"t": t, "a": gen_pred(rng, depth - 1, syntax), "b": gen_pred(rng, depth - 1, syntax)}


def gen_flat_pred(rng):
    """a predicate with any()/all(), in the flat spelling."""
    def atom():
        r = rng.random()
        if r < 0.55:
            inner = gen_leaf(rng, "expr")
            if rng.random() < 0.25:
                inner = {"t": "and", "a": inner, "b": gen_leaf(rng, "expr")}
            return {"t": rng.choice(["any", "any", "all"]), "a": inner}
        return gen_leaf(rng, "expr")
    shape = rng.choice(["A", "A", "and", "or", "andor", "ite"])
    first = {"t": rng.choice(["any", "any", "all"]), "a": gen_leaf(rng, "expr")}
    if shape == "A":
        return first
    if shape == "and":
        return rng.choice([{"t": "and", "a": first, "b": atom()}, {"t": "and", "a": gen_leaf(rng, "expr"), "b": first}])
    if shape == "or":
        return rng.choice([{"t": "or", "a": first, "b": atom()}, {"t": "or", "a": gen_leaf(rng, "expr"), "b": first}])
    if shape == "andor":
        return {"t": "or", "a": {"t": "and", "a": atom(), "b": first}, "b": atom()}
    return {"t": "ite", "c": first, "a": atom(), "b": atom()}


# ---------------------------------------------------------------- rule bodies


def mult_amount(s):
    q = Fraction(s)
    dec = len(s.split(".")[1]) if "." in s else 0
    return {"q": "%d/%d" % (q.numerator, q.denominator), "prec": dec, "comm": ""}


def rand_amount(rng):
    if rng.random() < 0.72:
        return mult_amount(rng.choice(MULTS))
    c = rng.choice(COMMS)
    dec = c.dec if rng.random() < 0.8 else c.dec + rng.choice([1, 2])
    q = Fraction(rng.randint(-5000, 5000), 10 ** dec)
    return jgen.amt(q, c, dec)


def dec_text(q, dec):
    ip, fp = jgen.dec_digits(q, dec)
    return ("-" if q < 0 else "") + ip + ("." + fp if dec else "")


def rand_expr(rng):
    """an amount expression: (text, structured form for the oracle)."""
    k = rng.choice(["mul", "mul", "negmul", "div", "const", "int", "addlit", "fixedlit", "mulsum"])
    m = rng.choice(["0.1", "0.5", "2", "0.25", "1.5", "0.015", "1", "0"])
    if k == "mul":
        return "amount * %s" % m, ["mul", m]
    if k == "negmul":
        return "-amount * %s" % m, ["mul", "-" + m]
    if k == "div":
        n = rng.choice([2, 3, 4, 7, 10])
        return "amount / %d" % n, ["div", n]
    if k == "const":
        return m, ["const", m]
    if k == "int":
        n = rng.choice([1, 2, 3, -1])
        return "%d" % n, ["const", str(n)]
    if k == "mulsum":
        return "amount * %s + amount * %s" % (m, m), ["mul", str(Fraction(m) * 2)]
    c = rng.choice([CM["EUR"], CM["AAA"]])
    dec = c.dec + rng.choice([0, 0, 1])
    q = Fraction(rng.randint(1, 900), 10 ** dec)
    lit = "%s %s" % (dec_text(q, dec), c.name)
    if k == "addlit":
        return "amount + %s" % lit, ["addlit", qstr(q), c.name, dec]
    return lit, ["fixed", qstr(q), c.name, dec]


def rand_check(rng, failing_assert=False):
    if failing_assert:
        return {"t": "check", "kind": "assert", "expr": rng.choice(["amount > 1000000000", "amount < -1000000000", "amount > 5 & amount < 5"]),
                "form": ["never"]}
    kind = rng.choice(["check", "check", "assert", "expr"])
    if kind == "assert":
        # mostly true
        n = rng.choice([-10 ** 9, -10 ** 10])
        return {"t": "check", "kind": "assert", "expr": "amount > %d" % n, "form": ["cmp", "gt", n]}
    op = rng.choice(["gt", "lt", "ge", "le"])
    n = rng.choice([0, 5, 10, -10, 100, 1000])
    return {"t": "check", "kind": kind, "expr": "amount %s %d" % ({"gt": ">", "lt": "<", "ge": ">=", "le": "<="}[op], n), "form": ["cmp", op, n]}


def gen_rule(rng, unbalanced=False, rich=True, flat=False, failing_assert=False):
    syntax = rng.choice(["query", "query", "expr", "expr", "expr"])
    pred = gen_pred(rng, rng.choice([0, 0, 1, 1, 2]), syntax)
    if flat:
        syntax, pred = "flat", gen_flat_pred(rng)
    lines = []
    n = rng.randint(0, 4) if rng.random() < 0.1 else rng.randint(1, 4)
    while len(lines) < n:
        acct = rng.choice(RULE_ACCTS)
        r = rng.random()
        if r < 0.35 or not (len(lines) + 2 <= n or r < 0.5):
            # a single virtual posting: never needs to balance
            l = {"t": "post", "account": acct, "kind": "virtual", "amount": rand_amount(rng)}
            if rich and rng.random() < 0.3:
                l["amount"] = None
                l["expr"], l["form"] = rand_expr(rng)
            elif rich and rng.random() < 0.12 and l["amount"]["comm"]:
                others = [c for c in COMMS if c.name != l["amount"]["comm"]]
                cc = rng.choice(others)
                l["cost"] = dict(jgen.amt(Fraction(rng.randint(1, 500), 10 ** cc.dec), cc), per_unit=rng.random() < 0.6)
            lines.append(l)
        else:
            # a balanced pair of must-balance postings
            kind = rng.choice(["real", "bvirtual", "bvirtual"])
            a = rand_amount(rng)
            b = dict(a)
            b["q"] = qstr(-fq(a))
            l1 = {"t": "post", "account": acct, "kind": kind, "amount": a}
            l2 = {"t": "post", "account": rng.choice(RULE_ACCTS), "kind": rng.choice([kind, "real", "bvirtual"]), "amount": b}
            if rich and a["comm"] == "" and rng.random() < 0.25:
                m = dec_text(fq(a), a["prec"])
                l1["amount"], l1["expr"], l1["form"] = None, "amount * %s" % m, ["mul", m]
            if rich and a["comm"] and rng.random() < 0.15:
                # a must-balance line with a cost, balanced by the total cost
                others = [c for c in COMMS if c.name != a["comm"]]
                cc = rng.choice(others)
                pu = rng.random() < 0.6
                cq = Fraction(rng.randint(1, 500), 10 ** cc.dec)
                l1["cost"] = dict(jgen.amt(cq, cc), per_unit=pu)
                tot = cq * fq(a) if pu else (cq if fq(a) >= 0 else -cq)
                dec = cc.dec + (a["prec"] if pu else 0)
                l2["amount"] = jgen.amt(-tot, cc, dec)
            lines += [l1, l2]
    lines = lines[:4]
    if unbalanced and lines:
        k = rng.randrange(len(lines))
        lines[k] = {"t": "post", "account": lines[k]["account"], "kind": rng.choice(["real", "bvirtual"]),
                    "amount": mult_amount(rng.choice(["0.5", "1", "0.0001", "-0.25", "0.001"])) if rng.random() < 0.8
                    else jgen.amt(Fraction(rng.randint(1, 500), 100), CM["$"])}
    body = []
    if rich and rng.random() < 0.2:
        body.append({"t": "note", "text": rng.choice(NOTE_WORDS)})
    for l in lines:
        if rich:
            if rng.random() < 0.15:
                l["state"] = rng.choice([1, 2])
            if rng.random() < 0.12:
                l["note"] = rng.choice(NOTE_WORDS)
        body.append(l)
        if rich and rng.random() < 0.12:
            body.append({"t": "note", "text": rng.choice(NOTE_WORDS)})
        if rich and rng.random() < 0.1:
            body.append(rand_check(rng))
    if failing_assert:
        body.insert(rng.randint(0, len(body)), rand_check(rng, failing_assert=True))
    return norm_rule({"pred": pred, "syntax": syntax, "body": body})


def rule_header(r):
    if r["syntax"] == "query":
        return "= " + pred_query(r["pred"])
    if r["syntax"] == "flat":
        return "= expr " + pred_flat(r["pred"])
    return "= expr " + pred_expr(r["pred"])


def render_body_entry(l):
    if l["t"] == "note":
        return "    ; " + l["text"]
    if l["t"] == "check":
        return "    %s %s" % (l["kind"], l["expr"])
    acct = l["account"]
    if l["kind"] == "virtual":
        acct = "(" + acct + ")"
    elif l["kind"] == "bvirtual":
        acct = "[" + acct + "]"
    st = {0: "", 1: "* ", 2: "! "}[l.get("state", 0)]
    if l.get("expr") is not None:
        txt = "(" + l["expr"] + ")"
    else:
        a = l["amount"]
        txt = dec_text(fq(a), a["prec"]) if a["comm"] == "" else jgen.render_amount(a, COMMS)
    s = "    " + st + acct + "  " + txt
    if l.get("cost"):
        s += (" @ " if l["cost"]["per_unit"] else " @@ ") + jgen.render_amount(l["cost"], COMMS)
    if l.get("note"):
        s += "  ; " + l["note"]
    return s


def render_xact_lines(x):
    if "raw_posts" in x:
        y = dict(x, posts=[])
        return jgen.render_xact(y, COMMS) + list(x["raw_posts"])
    return jgen.render_xact(x, COMMS)


def render(j, with_rules=True):
    """journal text in `items` order; fills line numbers.  with_rules=False
    turns every rule line into a comment line (same line numbers)."""
    norm_journal(j)
    out = []
    for it in j["items"]:
        if it["k"] == "x":
            x = j["xacts"][it["i"]]
            lines = render_xact_lines(x)
            x["line"] = len(out) + 1
            for k, p in enumerate(x["posts"]):
                p["line"] = len(out) + 2 + k
            out += lines
            x["end_line"] = len(out)
        else:
            r = j["rules"][it["i"]]
            r["line"] = len(out) + 1
            lines = [r.get("raw_header") or rule_header(r)]
            for k, l in enumerate(r["body"]):
                l["line"] = len(out) + 2 + k
                lines.append(render_body_entry(l))
            r["end_line"] = len(out) + len(lines)
            if not with_rules:
                lines = ["; " + s.strip() for s in lines]
            out += lines
        out.append("")
    return "\n".join(out) + "\n"


def lot_xact(rng, day):
    """a transaction whose postings carry an explicit lot price {…} (no cost)."""
    c = rng.choice([CM["AAA"], CM["EUR"]])
    pc = CM["$"]
    price = Fraction(rng.randint(1, 999), 100)
    q = Fraction(rng.randint(1, 50 * 10 ** c.dec), 10 ** c.dec)
    comm = "%s{%s:%s}[]" % (c.name, qstr(price), pc.name)
    lot_txt = " {%s}" % jgen.fmt_amount(price, pc, 2)
    a1, a2 = rng.sample(["Assets:Stock", "Assets:Stock:Old", "Expenses:Food", "Assets:Cash", "Income:Salary"], 2)
    elide = rng.random() < 0.4
    posts = [{"account": a1, "kind": "real", "state": 0, "amount": {"q": qstr(q), "prec": c.dec, "comm": comm}, "cost": None, "assert": None, "note": ""},
             {"account": a2, "kind": "real", "state": 0, "amount": None if elide else {"q": qstr(-q), "prec": c.dec, "comm": comm},
              "cost": None, "assert": None, "note": ""}]
    raw = ["    %s  %s%s" % (a1, jgen.fmt_amount(q, c), lot_txt),
           "    %s" % a2 if elide else "    %s  %s%s" % (a2, jgen.fmt_amount(-q, c), lot_txt)]
    return {"date": day, "aux": None, "state": rng.choice([0, 0, 1, 2]), "code": "", "payee": "payee %d" % rng.randint(1, 12), "note": "",
            "posts": posts, "raw_posts": raw}


def gen_journal(rng, nx=None, nr=None, p_bad_rule=0.10, p_bad_xact=0.004, big=False, p_cost=0.12, rich=True,
                p_flat=0.08, p_failing_assert=0.04, p_lot=0.05):
    g = jgen.Gen(rng, comms=COMMS, p_cost=p_cost, p_note=0.15, magnitudes=[10, 10, 1000, 10 ** 6] if big else [10, 100, 1000])
    nx = nx if nx is not None else rng.choice([1, 2, 3, 4, 5, 6, 8, 12, 20, 30])
    nr = nr if nr is not None else rng.choice([0, 1, 1, 2, 2, 3, 4])
    xs = []
    for _ in range(nx):
        if rng.random() < p_lot:
            xs.append(lot_xact(rng, g.kw["start"] + rng.randint(0, 700)))
        elif rng.random() < p_bad_xact:
            xs.append(g.xact(balanced=False))
        else:
            x = g.xact()
            if rich:
                for p in x["posts"]:
                    if rng.random() < 0.06:
                        p["note"] = rng.choice(NOTE_WORDS)
            xs.append(x)
    bad = rng.random() < p_bad_rule
    rules = [gen_rule(rng, unbalanced=(bad and k == 0), rich=rich, flat=rng.random() < p_flat,
                      failing_assert=rng.random() < p_failing_assert) for k in range(nr)]
    rng.shuffle(rules)
    # positions: rules before / between / after the transactions
    slots = sorted(rng.choice([0, 0, nx, rng.randint(0, nx), rng.randint(0, nx)]) for _ in range(nr))
    items = []
    ri = 0
    for k in range(nx + 1):
        while ri < nr and slots[ri] == k:
            items.append({"k": "r", "i": ri})
            ri += 1
        if k < nx:
            items.append({"k": "x", "i": k})
    return {"xacts": xs, "rules": rules, "items": items}


def ast_for_model(j):
    """the JSON handed to the driver (rules without the generator's bookkeeping keys)."""
    norm_journal(j)
    rules = []
    for r in j["rules"]:
        body = []
        for e in r["body"]:
            if e["t"] == "post":
                body.append({"t": "post", "account": e["account"], "kind": e["kind"], "state": e.get("state", 0), "amount": e.get("amount"),
                             "expr": e.get("expr"), "cost": e.get("cost"), "note": e.get("note", ""), "line": e["line"]})
            elif e["t"] == "note":
                body.append({"t": "note", "text": e["text"]})
            else:
                body.append({"t": "check", "kind": e["kind"], "expr": e["expr"]})
        rules.append({"pred": r["pred"], "line": r["line"], "body": body})
    xs = [{k: v for k, v in x.items() if k != "raw_posts"} for x in j["xacts"]]
    return {"xacts": xs, "rules": rules, "items": j["items"]}


# ---------------------------------------------------------------- running ledger


def run_ledger(text):
    d = tempfile.mkdtemp(prefix="c16-")
    try:
        p = os.path.join(d, "j.dat")
        with open(p, "w", encoding="utf-8") as f:
            f.write(text)
        rc, out, err = vflib.ledger_run(["-f", p, "reg", "--empty", "--format", FMT], cwd=d)
        return rc, out, err.replace(d + "/", "")
    finally:
        shutil.rmtree(d, ignore_errors=True)


AMT_RE = re.compile(r"A:(-?\d+)/(\d+):(\d+):([01]):(.*)", re.S)


def parse_amt(s):
    m = AMT_RE.fullmatch(s)
    if not m:
        return None
    return Fraction(int(m.group(1)), int(m.group(2))), int(m.group(3)), m.group(4), m.group(5)


def canon_comm(comm_text, lot_price, lot_date):
    """ledger prints a lot commodity as `AAA {$2.00} [2020/01/02]`; canonical: AAA{2/1:$}[day]."""
    if " {" not in comm_text and " [" not in comm_text:
        return comm_text
    base = re.split(r" [\{\[\(]", comm_text)[0]
    pa = parse_amt(lot_price)
    if pa is None:
        return None
    day = ""
    if lot_date:
        y, mo, d = [int(t) for t in lot_date.split("/")]
        day = str((datetime.date(y, mo, d) - EPOCH).days)
    return "%s{%s:%s}[%s]" % (base, qstr(pa[0]), pa[3], day)


def parse_rows(out, j=None):
    """reg output -> list of dict rows (file/transaction order as printed)."""
    xnote = {}
    if j is not None:
        for x in j["xacts"]:
            if x.get("note") and "line" in x:
                xnote[x["line"]] = " " + x["note"]
    rows = []
    for rec in out.split("|\n"):
        if not rec:
            continue
        f = rec.split("|", 14)
        if len(f) != 15:
            return None
        xl, pl, acct, dacct, amt, lotp, lotd, hascost, cost, cleared, pending, virt, actual, calc, note = f
        if dacct.startswith("(") and dacct.endswith(")"):
            kind = "virtual"
        elif dacct.startswith("[") and dacct.endswith("]"):
            kind = "bvirtual"
        else:
            kind = "real"
        if (kind != "real") != (virt == "true"):
            return None
        a = parse_amt(amt)
        if a is None:
            return None
        comm = canon_comm(a[3], lotp, lotd)
        if comm is None:
            return None
        c = None
        if hascost == "true":
            ca = parse_amt(cost)
            if ca is None:
                return None
            c = {"q": ca[0], "prec": ca[1], "keep": ca[2], "comm": ca[3]}
        xn = xnote.get(int(xl), "")
        if xn and note.endswith(xn):
            note = note[:-len(xn)]
        rows.append({"xl": int(xl), "pl": int(pl), "account": acct, "kind": kind, "state": 1 if cleared == "true" else 2 if pending == "true" else 0,
                     "q": a[0], "prec": a[1], "keep": a[2], "comm": comm, "cost": c, "note": note,
                     "gen": actual != "true", "calc": calc == "true"})
    return rows


def canon_rows(rows):
    out = []
    for r in rows:
        c = "-" if r["cost"] is None else "%s:%d:%s:%s" % (qstr(r["cost"]["q"]), r["cost"]["prec"], r["cost"]["keep"], r["cost"]["comm"])
        out.append("%d|%d|%s|%s|%d|%s:%d:%s:%s|%s|%s|%d|%d" % (r["xl"], r["pl"], r["account"], r["kind"], r["state"], qstr(r["q"]), r["prec"],
                                                             r["keep"], r["comm"], c, r["note"], 1 if r["gen"] else 0, 1 if r["calc"] else 0))
    return ";".join(out)


def err_kind16(t):
    if "Transaction does not balance" in t:
        return "unbalanced"
    if "Transaction assertion failed" in t:
        return "assert-failed"
    if "cost must be of a different commodity" in t:
        return "same-comm-cost"
    if "Amount expressions must result in a simple amount" in t:
        return "expr-error"
    if "Only one posting with null amount allowed" in t:
        return "two-nulls"
    if "Error:" in t:
        return "other"
    return "none"


def xact_at(j, ln):
    for it in j["items"]:
        if it["k"] == "x":
            x = j["xacts"][it["i"]]
            if x["line"] <= ln <= x["end_line"]:
                return x["line"]
    return 0


def parse_errors(err, j):
    """stderr -> list of (xact line, rule line or 0, kind)."""
    res = []
    blocks = re.split(r"(?m)^(?=While parsing file )", err)
    for b in blocks:
        if not b.startswith("While parsing file"):
            continue
        kind = err_kind16(b)
        m = re.match(r'While parsing file "[^"]*", line (\d+):', b)
        xl = xact_at(j, int(m.group(1))) if m else 0
        m = re.search(r'While extending transaction from "[^"]*", lines? (\d+)', b)
        if m:
            xl = int(m.group(1))
        m = re.search(r'While applying automated transaction from "[^"]*", lines? (\d+)', b)
        rl = int(m.group(1)) if m else 0
        res.append((xl, rl, kind))
    return res


def parse_warnings(err, j):
    """{xact line: number of 'Transaction check failed' warnings}"""
    w = {}
    for m in re.finditer(r'(?m)^Warning: "[^"]*", line (\d+): Transaction check failed', err):
        xl = xact_at(j, int(m.group(1)))
        w[xl] = w.get(xl, 0) + 1
    return w


# ---------------------------------------------------------------- the oracle (independent of the Lean model)


def subst_account(tmpl, matched, payee):
    if "$account" in tmpl:
        return tmpl.replace("$account", matched)
    if "%(" in tmpl:
        return tmpl.replace("%(account)", matched).replace("%(payee)", payee)
    return tmpl


def base_of(comm):
    return comm.split("{")[0]


def prec_so_far(j, upto_line):
    """decimals written so far per commodity (amounts on lines <= upto_line; costs and lot prices do not count)."""
    p = {}

    def bump(c, d):
        c = base_of(c)
        p[c] = max(p.get(c, 0), d)
    for it in j["items"]:
        if it["k"] == "x":
            x = j["xacts"][it["i"]]
            for po in x["posts"]:
                if po["amount"] is not None and po["line"] <= upto_line:
                    bump(po["amount"]["comm"], po["amount"]["prec"])
        else:
            r = j["rules"][it["i"]]
            for l in r["body"]:
                if l["line"] > upto_line:
                    continue
                if l["t"] == "post" and l.get("amount") and l["amount"]["comm"]:
                    bump(l["amount"]["comm"], l["amount"]["prec"])
                if l["t"] == "post" and l.get("form") and l["form"][0] in ("addlit", "fixed"):
                    bump(l["form"][2], l["form"][3])
    return p


class Und(Exception):
    pass


def line_amount(l, b):
    """(q, comm) of the posting rule line l generates for matched row b, or 'expr-error'."""
    if l.get("expr") is None:
        a = l["amount"]
        return (b["q"] * fq(a), b["comm"]) if a["comm"] == "" else (fq(a), a["comm"])
    f = l["form"]
    if f[0] == "mul":
        return b["q"] * Fraction(f[1]), b["comm"]
    if f[0] == "div":
        return b["q"] / f[1], b["comm"]
    if f[0] == "const":
        return b["q"] * Fraction(f[1]), b["comm"]
    if f[0] == "fixed":
        return Fraction(f[1]), f[2]
    if f[0] == "addlit":
        if b["comm"] == f[2]:
            return b["q"] + Fraction(f[1]), b["comm"]
        if b["q"] == 0:
            raise Und()
        return "expr-error"
    raise ValueError(f)


def line_cost(l):
    c = l.get("cost")
    if not c:
        return None
    cq, aq = fq(c), fq(l["amount"])
    tot = cq * aq if c["per_unit"] else (cq if aq >= 0 else -cq)
    return {"q": tot, "comm": c["comm"]}


def check_true(form, b):
    if form[0] == "never":
        return False
    _, op, n = form
    return {"gt": b["q"] > n, "lt": b["q"] < n, "ge": b["q"] >= n, "le": b["q"] <= n}[op]


def simulate(j, x, base_rows):
    """The property restated on ledger's own rows of the run without rules.
    Returns (rows expected, verdict, warnings expected); verdict: 'ok' | ('err', rule line, kind) | 'undetermined'."""
    live = [dict(r) for r in base_rows]
    prec = prec_so_far(j, x["end_line"])
    warns = 0
    undet = False
    for it in j["items"]:
        if it["k"] != "r":
            continue
        r = j["rules"][it["i"]]
        if r["line"] > x["line"]:
            continue
        posts = posts_of(r)
        snapshot = list(live)
        added_mb = False
        for b in snapshot:
            if b["gen"]:
                continue
            if not pred_eval(r["pred"], b, x["payee"], live):
                continue
            for t in notes_for(r, None):
                b["note"] = (b["note"] + "\\n" + t) if b["note"] else t
            for e in r["body"]:
                if e["t"] != "check":
                    continue
                ok = check_true(e["form"], b)
                if e["kind"] == "assert" and not ok:
                    return live, ("err", r["line"], "assert-failed"), warns
                if e["kind"] == "check" and not ok:
                    warns += 1
            for i, l in enumerate(posts):
                try:
                    am = line_amount(l, b)
                except Und:
                    return live, "skip", warns
                if am == "expr-error":
                    return live, ("err", r["line"], "expr-error"), warns
                note = (" " + l["note"]) if l.get("note") else ""
                for t in notes_for(r, i):
                    note = (note + "\\n" + t) if note else t
                row = {"xl": x["line"], "pl": l["line"], "account": subst_account(l["account"], b["account"], x["payee"]),
                       "kind": l["kind"], "state": 1 if x["state"] == 1 else l.get("state", 0), "q": am[0], "comm": am[1],
                       "cost": line_cost(l), "note": note, "gen": True, "calc": False, "from": b["pl"], "rule": r["line"]}
                live.append(row)
                if l["kind"] != "virtual":
                    added_mb = True
        if added_mb:
            # verify(): cost in the amount's own commodity, then the residual over every must-balance posting
            for p in live:
                if p["cost"] is not None and p["cost"]["comm"] == p["comm"]:
                    return live, ("err", r["line"], "same-comm-cost"), warns
            resid = {}
            for p in live:
                if p["kind"] == "virtual":
                    continue
                q, c = (p["cost"]["q"], p["cost"]["comm"]) if p["cost"] is not None else (p["q"], p["comm"])
                resid[c] = resid.get(c, 0) + q
            for c, q in resid.items():
                if q == 0:
                    continue
                unit = Fraction(1, 10 ** prec.get(base_of(c), 0)) if c else Fraction(0)
                if abs(q) >= unit:
                    return live, ("err", r["line"], "unbalanced"), warns
                undet = True      # a residual below one display unit: whether ledger rejects is the tolerance's business (C01)
    return live, ("undetermined" if undet else "ok"), warns


def row_key(r):
    c = None if r["cost"] is None else (r["cost"]["q"], r["cost"]["comm"])
    return (r["pl"], r["account"], r["kind"], r["state"], r["q"], r["comm"], c, r["note"], r["gen"])


FIELD_FP = [("pl", "order"), ("account", "account"), ("kind", "kind"), ("state", "state"), ("comm", "commodity"), ("q", "amount"),
            ("cost", "cost"), ("note", "note"), ("gen", "generated-flag")]


def oracle(j, with_res, base_res):
    """Returns None when the property holds on ledger's own outputs for this
    journal, else (fingerprint, what)."""
    rc, out, err = with_res
    brc, bout, berr = base_res
    if brc != 0:
        # the transactions alone do not load (malformed stream): with rules it must fail too
        if rc == 0:
            return ("C16:base-error-vanishes", "the file without rules is rejected (%s) but accepted with rules" % (err_kind16(berr),))
        return None
    base = parse_rows(bout, j)
    if base is None:
        return ("C16:observe", "cannot parse base rows")
    by_x = {}
    for r in base:
        by_x.setdefault(r["xl"], []).append(r)
    xs = [j["xacts"][it["i"]] for it in j["items"] if it["k"] == "x"]
    want_err = []
    undetermined = False
    exp_all = []
    for x in xs:
        b = by_x.get(x["line"], [])
        exp, verdict, warns = simulate(j, x, b)
        if verdict in ("undetermined", "skip"):
            undetermined = True
        elif verdict != "ok":
            want_err.append((x["line"], verdict[1], verdict[2]))
        exp_all.append((x, b, exp, verdict, warns))
    if rc != 0:
        got = parse_errors(err, j)
        if any(k in ("other", "none", "two-nulls") for _, _, k in got):
            return ("C16:other-error", "ledger reports %s for a journal of the fragment" % (got,))
        got_set = sorted(got)
        if not undetermined and got_set != sorted(want_err):
            miss = [e for e in want_err if e not in got_set]
            extra = [e for e in got_set if e not in want_err]
            if extra:
                return ("C16:spurious-error:" + extra[0][2], "ledger rejects (xact line, rule line, kind) %s although the restated property accepts" % (extra,))
            return ("C16:missing-error:" + miss[0][2], "ledger does not reject (xact line, rule line, kind) %s" % (miss,))
        for e in want_err:
            if e not in got_set:
                return ("C16:missing-error:" + e[2], "ledger does not reject (xact line, rule line, kind) %s" % (e,))
        return None
    if want_err:
        return ("C16:accepted:" + want_err[0][2],
                "transaction(s) at line(s) %s must be rejected (%s) yet ledger reports no error" % ([e[0] for e in want_err], want_err[0][2]))
    rows = parse_rows(out, j)
    if rows is None:
        return ("C16:observe", "cannot parse rows")
    got_x = {}
    for r in rows:
        got_x.setdefault(r["xl"], []).append(r)
    known = {x["line"] for x in xs}
    for xl in got_x:
        if xl not in known:
            return ("C16:observe", "row for unknown transaction line %d" % xl)
    gw = parse_warnings(err, j)
    first_rule = min([j["rules"][it["i"]]["line"] for it in j["items"] if it["k"] == "r"] or [10 ** 9])
    for x, b, exp, verdict, warns in exp_all:
        got = got_x.get(x["line"], [])
        nb = len(b)
        if verdict == "skip":
            continue
        if verdict == "ok" and gw.get(x["line"], 0) != warns:
            return ("C16:check-warnings", "transaction at line %d: %d 'Transaction check failed' warnings, %d expected" % (x["line"], gw.get(x["line"], 0), warns))
        # 1. the original postings stay in place; only a matched posting's note may grow
        pre = got[:nb]
        if [row_key(r) + (r["calc"],) for r in pre] != [row_key(r) + (r["calc"],) for r in exp[:nb]]:
            if x["line"] < first_rule:
                return ("C16:earlier-transaction-touched", "transaction at line %d precedes every rule but differs from the run without rules" % x["line"])
            for e, g in zip(exp[:nb], pre):
                if row_key(e) != row_key(g) and row_key(dict(e, note="")) == row_key(dict(g, note="")):
                    return ("C16:original-note", "transaction at line %d, posting line %d: note %r, expected %r" % (x["line"], e["pl"], g["note"], e["note"]))
            return ("C16:original-posting-changed", "transaction at line %d: original postings are not kept in place unchanged" % x["line"])
        ext = got[nb:]
        exq = exp[nb:]
        if x["line"] < first_rule and ext:
            return ("C16:earlier-transaction-touched", "transaction at line %d precedes every rule but gained %d postings" % (x["line"], len(ext)))
        ek = [row_key(r) for r in exq]
        gk = [row_key(r) for r in ext]
        if ek == gk:
            continue
        # localise
        later = [r for r in ext if any(ru["line"] > x["line"] and ru["line"] <= r["pl"] <= ru["end_line"] for ru in j["rules"])]
        if later:
            return ("C16:later-rule-applied", "transaction at line %d received postings of a rule that appears after it" % x["line"])
        if any(not r["gen"] for r in ext):
            return ("C16:generated-flag", "transaction at line %d: an added posting is not flagged generated" % x["line"])
        if len(gk) > len(ek):
            return ("C16:extra-generated-posting", "transaction at line %d: %d postings added, %d expected (a rule fired on a generated or non-matching posting?)"
                    % (x["line"], len(gk), len(ek)))
        if len(gk) < len(ek):
            return ("C16:missing-generated-posting", "transaction at line %d: %d postings added, %d expected" % (x["line"], len(gk), len(ek)))
        for e, g in zip(exq, ext):
            if row_key(e) == row_key(g):
                continue
            for fld, name in FIELD_FP:
                ev, gv = e[fld], g[fld]
                if fld == "cost":
                    ev = None if ev is None else (ev["q"], ev["comm"])
                    gv = None if gv is None else (gv["q"], gv["comm"])
                if ev != gv:
                    l = [l for r in j["rules"] for l in r["body"] if l["line"] == e["pl"]]
                    sub = ""
                    if name == "amount" and l:
                        sub = ":expr" if l[0].get("expr") is not None else ":multiplier" if l[0]["amount"]["comm"] == "" else ":fixed"
                    return ("C16:" + name + sub, "transaction at line %d, rule line %d applied to posting line %d: %s %s, expected %s"
                            % (x["line"], e["pl"], e["from"], name, gv, ev))
    return None


# ---------------------------------------------------------------- one case


def eval_case(j):
    text = render(j, True)
    base_text = render(j, False)
    w = run_ledger(text)
    b = run_ledger(base_text)
    return text, w, b


def impl_canon(j, w):
    rc, out, err = w
    if rc is None or rc < 0:
        return "died"
    if rc != 0:
        errs = parse_errors(err, j)
        if not errs:
            return "err\tnone"
        return "err\t" + ";".join("%d:%d:%s" % e for e in errs)
    rows = parse_rows(out, j)
    if rows is None:
        return "unparsed"
    gw = parse_warnings(err, j)
    return "ok\t" + canon_rows(rows) + "\t" + ";".join("%d:%d" % (k, gw[k]) for k in sorted(gw))


def shrink(j, fp):
    """greedy delta-debugging over items and rule body entries; keeps the fingerprint."""
    def failing(c):
        try:
            text, w, b = eval_case(c)
            r = oracle(c, w, b)
        except Exception:
            return False
        return r is not None and r[0] == fp
    cur = copy.deepcopy(j)
    changed = True
    budget = 150
    while changed and budget > 0:
        changed = False
        for k in range(len(cur["items"]) - 1, -1, -1):
            c = copy.deepcopy(cur)
            del c["items"][k]
            budget -= 1
            if budget <= 0:
                break
            if any(it["k"] == "x" for it in c["items"]) and failing(c):
                cur = c
                changed = True
        for ri, r in enumerate(cur["rules"]):
            for k in range(len(r["body"]) - 1, -1, -1):
                c = copy.deepcopy(cur)
                del c["rules"][ri]["body"][k]
                norm_rule(c["rules"][ri])
                budget -= 1
                if budget <= 0:
                    break
                if failing(c):
                    cur = c
                    changed = True
    return cur


def features_of(ctx, j, w):
    rc = w[0]
    nr = sum(1 for it in j["items"] if it["k"] == "r")
    nx = sum(1 for it in j["items"] if it["k"] == "x")
    ctx.feature("rules:%d" % nr)
    ctx.feature("xacts:%s" % ("1" if nx == 1 else "2-5" if nx <= 5 else "6-12" if nx <= 12 else "13-30"))
    pos = [k for k, it in enumerate(j["items"]) if it["k"] == "r"]
    xpos = [k for k, it in enumerate(j["items"]) if it["k"] == "x"]
    for p in pos:
        if p < min(xpos):
            ctx.feature("rule-before-all")
        elif p > max(xpos):
            ctx.feature("rule-after-all")
        else:
            ctx.feature("rule-between")
    for it in j["items"]:
        if it["k"] == "r":
            r = j["rules"][it["i"]]
            ctx.feature("syntax:" + r.get("syntax", "raw"))
            for k in pred_kinds(r["pred"]):
                ctx.feature("pred:" + k)
            ctx.feature("pred-quick-only" if quick_only(r["pred"]) else "pred-falls-back-to-general")
            ctx.feature("lines:%d" % len(posts_of(r)))
            for l in r["body"]:
                if l["t"] == "note":
                    ctx.feature("rule:note-line")
                elif l["t"] == "check":
                    ctx.feature("rule:" + l["kind"] + "-line")
                else:
                    ctx.feature("line:" + l["kind"])
                    ctx.feature("line:expr" if l.get("expr") is not None else "line:multiplier" if l["amount"]["comm"] == "" else "line:fixed")
                    if "$account" in l["account"]:
                        ctx.feature("line:$account")
                    if "%(" in l["account"]:
                        ctx.feature("line:%()account")
                    if l.get("cost"):
                        ctx.feature("line:cost")
                    if l.get("state"):
                        ctx.feature("line:state")
                    if l.get("note"):
                        ctx.feature("line:inline-note")
    for x in j["xacts"]:
        if x["state"]:
            ctx.feature("xact:state-%d" % x["state"])
        if "raw_posts" in x:
            ctx.feature("xact:explicit-lot")
        if any(p.get("cost") for p in x["posts"]):
            ctx.feature("xact:cost")
    ctx.feature("impl:ok" if rc == 0 else "impl:error")
    if rc != 0:
        for e in parse_errors(w[2], j):
            ctx.feature("impl-error:" + e[2])


def process(ctx, cases, label):
    """cases: list of journals. Both sides + oracle."""
    res = vflib.pmap(eval_case, cases)
    model = vflib.driver_run(["autoxact.load\t" + json.dumps(ast_for_model(j)) for j in cases])
    for j, (text, w, b), m in zip(cases, res, model):
        ctx.count()
        features_of(ctx, j, w)
        impl = impl_canon(j, w)
        gen_rows = 0
        if w[0] == 0:
            rows = parse_rows(w[1], j) or []
            gen_rows = sum(1 for r in rows if r["gen"] and not r["calc"])
            ctx.feature("generated-rows", gen_rows)
            if any(r["gen"] and r["calc"] for r in rows):
                ctx.feature("finalize-generated-balancing-post")
            if any(r["gen"] and not r["calc"] and "{" in r["comm"] for r in rows):
                ctx.feature("generated-from-lot")
            if parse_warnings(w[2], j):
                ctx.feature("check-warning")
        if m == "err\tunsupported":
            ctx.feature("model:unsupported")
        elif impl != m:
            ctx.tie_broken("corr:autoxact.load", "model and ledger disagree (%s)\n%s\nmodel : %s\nledger: %s" % (label, text, m[:1500], impl[:1500]))
            ctx.mism.append({"journal": text, "model": m, "ledger": impl})
        else:
            ctx.traces_validated += 1
        o = oracle(j, w, b)
        if o is not None:
            fp, what = o
            ctx.feature("oracle-fail:" + fp)
            if fp not in ctx.reported:
                ctx.reported.add(fp)
                small = shrink(j, fp)
                stext, sw, sb = eval_case(small)
                so = oracle(small, sw, sb) or o
                ctx.violation(fp, so[1], {"journal": stext, "ast": small, "cmd": "ledger -f j.dat reg --empty --format '%s'" % FMT,
                                          "ledger_stdout": sw[1][:4000], "ledger_stderr": sw[2][:2000],
                                          "without_rules_stdout": sb[1][:4000], "found_in": text[:6000]})
        nr = sum(1 for it in j["items"] if it["k"] == "r")
        if nr >= 1 and (gen_rows >= 1 or w[0] != 0):
            ctx.nontrivial(text)
        if gen_rows >= 2:
            ctx.sample({"journal": text[:1200], "model_eq_ledger": impl == m, "generated_rows": gen_rows}, cap=4)


# ---------------------------------------------------------------- fixed / bounded-exhaustive cases


def mk_xact(day, payee, posts, state=0):
    return {"date": jgen.day_of(2020, 1, 1) + day, "aux": None, "state": state, "code": "", "payee": payee, "note": "",
            "posts": [{"account": a, "kind": k, "state": 0, "amount": (None if q is None else jgen.amt(Fraction(q), CM[c])),
                       "cost": None, "assert": None, "note": ""} for (a, k, q, c) in posts]}


def exhaustive_cases():
    """every rule position x kind x amount type x predicate family over a 2-transaction journal."""
    cases = []
    preds = [("query", {"t": "acct", "pat": "Food"}),
             ("query", {"t": "and", "a": {"t": "acct", "pat": "expenses"}, "b": {"t": "not", "a": {"t": "acct", "pat": "Out"}}}),
             ("query", {"t": "payee", "pat": "1"}),
             ("expr", {"t": "gt", "n": 5}),
             ("expr", {"t": "and", "a": {"t": "acct", "pat": "Food"}, "b": {"t": "gt", "n": 5}}),
             ("expr", {"t": "or", "a": {"t": "acct", "pat": "Cash"}, "b": {"t": "lt", "n": -100}}),
             ("expr", {"t": "ite", "c": {"t": "acct", "pat": "Food"}, "a": {"t": "acct", "pat": "Out"}, "b": {"t": "acct", "pat": "Cash"}}),
             ("expr", {"t": "const", "b": True}),
             ("query", {"t": "acct", "pat": "Budget"})]   # matches only what rules generate
    amts = [mult_amount("0.1"), mult_amount("-1"), jgen.amt(Fraction(5), CM["AAA"]), jgen.amt(Fraction("2.50"), CM["$"])]
    for pos in (0, 1, 2):
        for kind in ("real", "virtual", "bvirtual"):
            for a in amts:
                for syn, pr in preds:
                    xs = [mk_xact(1, "payee 1", [("Expenses:Food", "real", "10.00", "$"), ("Expenses:Food:Out", "real", "3.33", "$"),
                                                 ("Assets:Cash", "real", None, "$")]),
                          mk_xact(2, "payee 2", [("Expenses:Food", "real", "7.00", "$"), ("Expenses:Rent", "real", "20", "AAA"),
                                                 ("Budget:Virt", "virtual", "1.00", "$"),
                                                 ("Assets:Cash", "real", None, "$")])]
                    lines = [{"account": "Budget:$account", "kind": kind, "amount": a}]
                    if kind != "virtual":
                        b = dict(a)
                        q = -jgen.amt_q(a)
                        b["q"] = "%d/%d" % (q.numerator, q.denominator)
                        lines.append({"account": "Budget:Offset", "kind": kind, "amount": b})
                    rule = {"pred": pr, "syntax": syn, "lines": lines}
                    items = [{"k": "x", "i": 0}, {"k": "x", "i": 1}]
                    items.insert(pos, {"k": "r", "i": 0})
                    cases.append({"xacts": xs, "rules": [rule], "items": items})
    return [copy.deepcopy(c) for c in cases]


def fixed_cases():
    """hand-picked configurations: two rules where the second could match what the first generates; a rule
    matching its own output account; precision-0 multiplier; display-zero residual; unbalanced extension;
    quick matcher falling back mid-journal."""
    F = Fraction
    cs = []
    x1 = lambda d, p: mk_xact(d, p, [("Expenses:Food", "real", "10.00", "$"), ("Assets:Cash", "real", "-10.00", "$")])
    r_food = {"pred": {"t": "acct", "pat": "Food"}, "syntax": "query",
              "lines": [{"account": "Expenses:Food:Auto", "kind": "virtual", "amount": mult_amount("0.1")}]}     # output matches itself
    r_auto = {"pred": {"t": "acct", "pat": "Auto"}, "syntax": "query",
              "lines": [{"account": "Seen:Auto", "kind": "virtual", "amount": mult_amount("1")}]}               # would match rule 1's output
    cs.append({"xacts": [x1(1, "payee 1"), x1(2, "payee 2")], "rules": [r_food, r_auto],
               "items": [{"k": "r", "i": 0}, {"k": "r", "i": 1}, {"k": "x", "i": 0}, {"k": "x", "i": 1}]})
    cs.append({"xacts": [x1(1, "payee 1"), x1(2, "payee 2")], "rules": [r_food, r_auto],
               "items": [{"k": "x", "i": 0}, {"k": "r", "i": 0}, {"k": "x", "i": 1}, {"k": "r", "i": 1}]})
    # precision 0 commodity times 0.1
    xa = mk_xact(1, "payee 1", [("Expenses:Rent", "real", "1", "AAA"), ("Assets:Cash", "real", "-1", "AAA")])
    cs.append({"xacts": [xa], "rules": [{"pred": {"t": "acct", "pat": "Rent"}, "syntax": "query",
                                          "lines": [{"account": "Tiny", "kind": "virtual", "amount": mult_amount("0.1")}]}],
               "items": [{"k": "r", "i": 0}, {"k": "x", "i": 0}]})
    # display-zero residual is accepted, one display unit is not
    for mult in ("0.0001", "0.001", "0.0005", "0.0004"):
        cs.append({"xacts": [x1(1, "payee 1")], "rules": [{"pred": {"t": "acct", "pat": "Food"}, "syntax": "query",
                                                            "lines": [{"account": "Extra", "kind": "real", "amount": mult_amount(mult)}]}],
                   "items": [{"k": "r", "i": 0}, {"k": "x", "i": 0}]})
    # unbalanced extension by the second of two rules; first rule virtual only
    r_bad = {"pred": {"t": "gt", "n": 0}, "syntax": "expr", "lines": [{"account": "Tax", "kind": "bvirtual", "amount": mult_amount("0.5")}]}
    cs.append({"xacts": [x1(1, "payee 1"), x1(2, "payee 2"), x1(3, "payee 3")], "rules": [r_food, r_bad],
               "items": [{"k": "r", "i": 0}, {"k": "x", "i": 0}, {"k": "r", "i": 1}, {"k": "x", "i": 1}, {"k": "x", "i": 2}]})
    # quick matcher: false (memoised) for Cash, then throws on Food and falls back
    r_mix = {"pred": {"t": "and", "a": {"t": "acct", "pat": "Food"}, "b": {"t": "gt", "n": 5}}, "syntax": "expr",
             "lines": [{"account": "Mixed", "kind": "virtual", "amount": mult_amount("1")}]}
    xm = [mk_xact(1, "payee 1", [("Assets:Cash", "real", "-3.00", "$"), ("Expenses:Rent", "real", "3.00", "$")]),
          mk_xact(2, "payee 2", [("Assets:Cash", "real", "-9.00", "$"), ("Expenses:Food", "real", "9.00", "$")]),
          mk_xact(3, "payee 3", [("Expenses:Food", "real", "4.00", "$"), ("Assets:Cash", "real", "-4.00", "$")])]
    cs.append({"xacts": xm, "rules": [r_mix], "items": [{"k": "r", "i": 0}] + [{"k": "x", "i": k} for k in range(3)]})
    # multi-commodity elided amount: the 2nd balancing posting is ITEM_GENERATED and not matched
    xe = mk_xact(1, "payee 1", [("Expenses:Food", "real", "7.00", "$"), ("Expenses:Rent", "real", "20", "AAA"), ("Assets:Cash", "real", None, "$")])
    cs.append({"xacts": [xe], "rules": [{"pred": {"t": "acct", "pat": "Cash"}, "syntax": "query",
                                          "lines": [{"account": "Seen", "kind": "virtual", "amount": mult_amount("1")}]}],
               "items": [{"k": "r", "i": 0}, {"k": "x", "i": 0}]})
    # fixed amount with more decimals than seen so far raises the display precision
    cs.append({"xacts": [x1(1, "payee 1")], "rules": [{"pred": {"t": "acct", "pat": "Food"}, "syntax": "query",
                                                        "lines": [{"account": "A", "kind": "bvirtual", "amount": jgen.amt(F("1.2345"), CM["$"], 4)},
                                                                  {"account": "B", "kind": "bvirtual", "amount": jgen.amt(F("-1.2345"), CM["$"], 4)},
                                                                  {"account": "C", "kind": "real", "amount": mult_amount("0.0004")}]}],
               "items": [{"k": "r", "i": 0}, {"k": "x", "i": 0}]})
    # a rule with no posting lines, a rule after everything
    cs.append({"xacts": [x1(1, "payee 1")], "rules": [{"pred": {"t": "acct", "pat": "Food"}, "syntax": "query", "lines": []}, r_food],
               "items": [{"k": "r", "i": 0}, {"k": "x", "i": 0}, {"k": "r", "i": 1}]})
    return [copy.deepcopy(c) for c in cs]


def boundary_cases():
    """the edges of every branch of the modelled code: comparison operands equal / one unit off; rule exactly before /
    after the transaction; the same account twice in one transaction (memo hit) with different amounts; first / last /
    only posting matching; single-posting transactions; multipliers 0, 1, -1, many decimals (precision clamp);
    0 and 4 rule lines; 4 rules; a rule matching only its own / another rule's output; residual exactly at, just
    below and just above the display unit."""
    cs = []
    V = lambda acct, mult, kind="virtual": {"account": acct, "kind": kind, "amount": mult_amount(mult)}
    seen = [V("Seen:$account", "1")]
    # comparisons at the boundary
    for op in ("gt", "lt", "ge", "le"):
        for n in (10, 0, -10):
            posts = []
            for d in ("-0.01", "0", "0.01"):
                q = Fraction(n) + Fraction(d)
                posts.append(("Expenses:Food", "real", str(q) if q.denominator == 1 else "%.2f" % float(q), "$"))
            posts.append(("Assets:Cash", "real", None, "$"))
            cs.append({"xacts": [mk_xact(1, "payee 1", posts)], "rules": [{"pred": {"t": op, "n": n}, "syntax": "expr", "lines": seen}],
                       "items": [{"k": "r", "i": 0}, {"k": "x", "i": 0}]})
    # same account twice (memo hit), different amounts, quick-only and falling-back predicates
    twice = mk_xact(1, "payee 1", [("Expenses:Food", "real", "10.00", "$"), ("Assets:Cash", "real", "-4.00", "$"),
                                   ("Expenses:Food", "real", "3.00", "$"), ("Assets:Cash", "real", "-9.00", "$")])
    for syn, pr in [("query", {"t": "acct", "pat": "Food"}), ("query", {"t": "not", "a": {"t": "acct", "pat": "Food"}}),
                    ("expr", {"t": "and", "a": {"t": "acct", "pat": "Food"}, "b": {"t": "gt", "n": 5}}),
                    ("expr", {"t": "or", "a": {"t": "acct", "pat": "Cash"}, "b": {"t": "gt", "n": 5}}),
                    ("expr", {"t": "ite", "c": {"t": "acct", "pat": "Food"}, "a": {"t": "gt", "n": 5}, "b": {"t": "lt", "n": -5}}),
                    ("expr", {"t": "and", "a": {"t": "gt", "n": 5}, "b": {"t": "acct", "pat": "Food"}})]:
        for reps in (1, 2):
            xs = [copy.deepcopy(twice) for _ in range(reps)]
            cs.append({"xacts": xs, "rules": [{"pred": pr, "syntax": syn, "lines": seen}],
                       "items": [{"k": "r", "i": 0}] + [{"k": "x", "i": k} for k in range(reps)]})
    # quick-only connectives where exactly one operand holds (post_pred's && || ! ?: cells)
    A = lambda pat: {"t": "acct", "pat": pat}
    four = mk_xact(1, "payee 1", [("Expenses:Food", "real", "10.00", "$"), ("Expenses:Food:Out", "real", "2.00", "$"),
                                  ("Expenses:Rent", "real", "3.00", "$"), ("Assets:Cash", "real", "-15.00", "$")])
    for syn, pr in [("query", {"t": "and", "a": A("Food"), "b": A("Out")}), ("query", {"t": "or", "a": A("Out"), "b": A("Rent")}),
                    ("query", {"t": "and", "a": A("Expenses"), "b": {"t": "not", "a": A("Food")}}),
                    ("query", {"t": "not", "a": {"t": "or", "a": A("Food"), "b": A("Cash")}}),
                    ("expr", {"t": "ite", "c": A("Food"), "a": A("Out"), "b": A("Rent")}),
                    ("expr", {"t": "and", "a": {"t": "const", "b": True}, "b": A("Rent")}),
                    ("expr", {"t": "or", "a": {"t": "const", "b": False}, "b": A("Rent")})]:
        cs.append({"xacts": [copy.deepcopy(four), copy.deepcopy(four)], "rules": [{"pred": pr, "syntax": syn, "lines": seen}],
                   "items": [{"k": "r", "i": 0}, {"k": "x", "i": 0}, {"k": "x", "i": 1}]})
    # first / last / only posting; single-posting transactions
    three = [("Expenses:Food", "real", "10.00", "$"), ("Expenses:Rent", "real", "5.00", "$"), ("Assets:Cash", "real", "-15.00", "$")]
    for pat in ("Food", "Rent", "Cash", "e", "Zzz"):
        cs.append({"xacts": [mk_xact(1, "payee 1", three)], "rules": [{"pred": {"t": "acct", "pat": pat}, "syntax": "query", "lines": seen}],
                   "items": [{"k": "r", "i": 0}, {"k": "x", "i": 0}]})
    for posts in ([("Expenses:Food", "virtual", "5.00", "$")], [("Expenses:Food", "real", "0.00", "$")],
                  [("Expenses:Food", "bvirtual", "0", "AAA")]):
        for lines in (seen, [V("A", "1", "real"), V("B", "-1", "real")], [V("A", "2", "bvirtual")]):
            cs.append({"xacts": [mk_xact(1, "payee 1", posts)], "rules": [{"pred": {"t": "acct", "pat": "Food"}, "syntax": "query", "lines": lines}],
                       "items": [{"k": "r", "i": 0}, {"k": "x", "i": 0}]})
    # multipliers and the precision clamp (commodity precision + 6)
    for mult in ("0", "1", "-1", "0.123456789", "0.000001", "0.0000001", "1.000000", "-0.5", "123456789.123456789"):
        for c, qs in (("$", "10.00"), ("AAA", "7"), ("EUR", "0.01")):
            cs.append({"xacts": [mk_xact(1, "payee 1", [("Expenses:Food", "real", qs, c), ("Assets:Cash", "real", None, c)])],
                       "rules": [{"pred": {"t": "acct", "pat": "Food"}, "syntax": "query", "lines": [V("M", mult), V("M2:$account", mult, "bvirtual"),
                                                                                                    V("M3", "-" + mult if not mult.startswith("-") else mult[1:], "bvirtual")]}],
                       "items": [{"k": "r", "i": 0}, {"k": "x", "i": 0}]})
    # 4 rules x 4 lines, rules exactly before / after each transaction
    r4 = [{"pred": {"t": "acct", "pat": pat}, "syntax": "query",
           "lines": [V("L1:$account", "1"), V("L2", "0.5", "bvirtual"), V("L3", "-0.5", "bvirtual"), V("L4", "-1")]}
          for pat in ("Food", "Cash", "L1", "L2")]
    xs = [mk_xact(k, "payee %d" % k, [("Expenses:Food", "real", "10.00", "$"), ("Assets:Cash", "real", "-10.00", "$")]) for k in range(1, 5)]
    items = []
    for k in range(4):
        items += [{"k": "x", "i": k}, {"k": "r", "i": k}]
    cs.append({"xacts": xs, "rules": r4, "items": items})
    cs.append({"xacts": xs, "rules": r4, "items": list(reversed(items))})
    cs.append({"xacts": xs, "rules": r4, "items": [{"k": "r", "i": k} for k in range(4)] + [{"k": "x", "i": k} for k in range(4)]})
    cs.append({"xacts": xs, "rules": r4, "items": [{"k": "x", "i": k} for k in range(4)] + [{"k": "r", "i": k} for k in range(4)]})
    # residual exactly at / around one display unit and the rounding point
    for mult in ("0.001", "0.0009", "0.0011", "0.0005", "0.00051", "0.00049", "0.00001", "-0.001", "-0.0005"):
        for kind in ("real", "bvirtual"):
            cs.append({"xacts": [mk_xact(1, "payee 1", [("Expenses:Food", "real", "10.00", "$"), ("Assets:Cash", "real", "-10.00", "$")]),
                                 mk_xact(2, "payee 2", [("Expenses:Rent", "real", "10.00", "$"), ("Assets:Cash", "real", "-10.00", "$")])],
                       "rules": [{"pred": {"t": "acct", "pat": "Food"}, "syntax": "query", "lines": [V("Extra", mult, kind)]}],
                       "items": [{"k": "r", "i": 0}, {"k": "x", "i": 0}, {"k": "x", "i": 1}]})
    return [copy.deepcopy(c) for c in cs]


def P(acct, kind="virtual", amount=None, expr=None, form=None, cost=None, state=0, note=""):
    e = {"t": "post", "account": acct, "kind": kind, "amount": amount, "expr": expr, "cost": cost, "state": state, "note": note}
    if form is not None:
        e["form"] = form
    return e


def N(text):
    return {"t": "note", "text": text}


def CK(kind, op, n):
    return {"t": "check", "kind": kind, "expr": "amount %s %d" % ({"gt": ">", "lt": "<", "ge": ">=", "le": "<="}[op], n), "form": ["cmp", op, n]}


def cost_xact(day, payee, acct, q, c, cq, cc, per_unit, other="Assets:Cash", elide=True, state=0):
    """`acct  q c @|@@ cq cc` balanced by `other` (elided or explicit)."""
    ndec = lambda t: len(t.split(".")[1]) if "." in t else 0
    a = jgen.amt(Fraction(q), CM[c], ndec(q))
    cost = dict(jgen.amt(Fraction(cq), CM[cc], ndec(cq)), per_unit=per_unit)
    tot = Fraction(cq) * Fraction(q) if per_unit else (Fraction(cq) if Fraction(q) >= 0 else -Fraction(cq))
    dec = ndec(cq) + (ndec(q) if per_unit else 0)
    posts = [{"account": acct, "kind": "real", "state": 0, "amount": a, "cost": cost, "assert": None, "note": ""},
             {"account": other, "kind": "real", "state": 0, "amount": None if elide else jgen.amt(-tot, CM[cc], dec), "cost": None,
              "assert": None, "note": ""}]
    return {"date": jgen.day_of(2020, 1, 1) + day, "aux": None, "state": state, "code": "", "payee": payee, "note": "", "posts": posts}


def growth_cases(rng):
    """boundary / fixed cases for costs and lots on matched postings, rule lines with their own cost, amount
    expressions, %(...) accounts, posting state, rule notes, check / assert lines, any() / all()."""
    cs = []
    F = Fraction
    RX = lambda pred, body, syntax="query": {"pred": pred, "syntax": syntax, "body": body}
    A = lambda pat: {"t": "acct", "pat": pat}
    J1 = lambda xs, rules: {"xacts": xs, "rules": rules, "items": [{"k": "r", "i": k} for k in range(len(rules))] + [{"k": "x", "i": k} for k in range(len(xs))]}
    food = lambda d, st=0, q="10.00": mk_xact(d, "payee %d" % d, [("Expenses:Food", "real", q, "$"), ("Assets:Cash", "real", "-" + q, "$")], state=st)
    # ---- (1) matched postings with costs / lots: multiplier, fixed, expression; balanced pairs; unbalanced single
    bodies = [[P("Seen:$account", amount=mult_amount("0.5"))],
              [P("B1", "bvirtual", mult_amount("1")), P("B2", "bvirtual", mult_amount("-1"))],
              [P("R1", "real", mult_amount("0.25")), P("R2", "real", expr="-amount * 0.25", form=["mul", "-0.25"])],
              [P("Fix", amount=jgen.amt(F(5), CM["EUR"]))],
              [P("E", expr="amount / 3", form=["div", 3]), P("E2", expr="2", form=["const", "2"])],
              [P("U", "bvirtual", mult_amount("1"))]]
    for body in bodies:
        xs = [cost_xact(1, "payee 1", "Assets:Stock", "10", "AAA", "2.00", "$", True),
              cost_xact(2, "payee 2", "Assets:Stock", "3", "AAA", "10.00", "$", False, elide=False),
              cost_xact(3, "payee 3", "Assets:Stock", "-3", "AAA", "1.005", "$", True),
              cost_xact(4, "payee 4", "Assets:Stock", "-7.50", "EUR", "123", "AAA", False, state=1),
              cost_xact(5, "payee 5", "Assets:Stock", "0.01", "EUR", "0.01", "$", True, state=2)]
        cs.append(J1(xs, [RX(A("Stock"), copy.deepcopy(body))]))
        cs.append(J1([lot_xact(rng, jgen.day_of(2020, 2, k + 1)) for k in range(3)], [RX({"t": "const", "b": True}, copy.deepcopy(body), "expr")]))
    # ---- (2) rule lines with their own cost: per unit / total, negative amount, virtual / must-balance, same commodity
    c_usd = lambda q, pu: dict(jgen.amt(F(q), CM["$"]), per_unit=pu)
    c_aaa = lambda q, pu: dict(jgen.amt(F(q), CM["AAA"]), per_unit=pu)
    for body in [[P("C", amount=jgen.amt(F(5), CM["AAA"]), cost=c_usd("2.00", True))],
                 [P("C", amount=jgen.amt(F(-5), CM["AAA"]), cost=c_usd("2.00", False))],
                 [P("C", "bvirtual", jgen.amt(F(5), CM["AAA"]), cost=c_usd("2.00", True)), P("D", "bvirtual", jgen.amt(F("-10.00"), CM["$"]))],
                 [P("C", "real", jgen.amt(F(-5), CM["AAA"]), cost=c_usd("7.50", False)), P("D", "real", jgen.amt(F("7.50"), CM["$"]))],
                 [P("C", "bvirtual", jgen.amt(F(5), CM["AAA"]), cost=c_usd("2.00", True)), P("D", "bvirtual", jgen.amt(F("-5"), CM["AAA"]))],   # unbalanced: cost counts
                 [P("C", amount=mult_amount("0.5"), cost=c_usd("2.00", True))],                 # virtual: cost in the amount's own commodity, never verified
                 [P("C", "bvirtual", mult_amount("0.5"), cost=c_usd("2.00", True)), P("D", "bvirtual", jgen.amt(F("-1.00"), CM["$"]))],   # verified: same-commodity cost
                 [P("C", "bvirtual", mult_amount("0.5"), cost=c_aaa("2", True)), P("D", "bvirtual", jgen.amt(F("-1"), CM["AAA"]))]]:
        cs.append(J1([food(1), food(2, 1)], [RX(A("Food"), body)]))
    # ---- amount expressions: every form on $, EUR, AAA postings (addlit mismatching commodity is an error)
    exprs = [("amount * 0.1", ["mul", "0.1"]), ("-amount * 0.5", ["mul", "-0.5"]), ("amount / 3", ["div", 3]), ("0.5", ["const", "0.5"]),
             ("2", ["const", "2"]), ("amount * 0.5 + amount * 0.5", ["mul", "1"]), ("amount + 1.000 EUR", ["addlit", "1/1", "EUR", 3]),
             ("2.50 EUR", ["fixed", "5/2", "EUR", 2]), ("amount * 0", ["mul", "0"]), ("amount * 0.123456789", ["mul", "0.123456789"])]
    for text, form in exprs:
        xs = [food(1), mk_xact(2, "payee 2", [("Expenses:Food", "real", "7.25", "EUR"), ("Assets:Cash", "real", None, "EUR")]),
              mk_xact(3, "payee 3", [("Expenses:Food", "real", "3", "AAA"), ("Assets:Cash", "real", "-3", "AAA")])]
        for sel in ([0, 1, 2], [1], [2, 1]):
            cs.append(J1([copy.deepcopy(xs[k]) for k in sel], [RX(A("Food"), [P("X:%(account)", expr=text, form=form), P("Y:%(payee)", amount=mult_amount("1"))])]))
    # ---- (3) state: transaction state x rule line state
    for xst in (0, 1, 2):
        body = [P("S0", state=0, amount=mult_amount("1")), P("S1", state=1, amount=mult_amount("1")), P("S2", state=2, amount=mult_amount("1"))]
        x = food(1, xst)
        x["posts"][1]["state"] = 2 if xst != 2 else 1
        cs.append(J1([x], [RX(A("e"), body)]))
    # ---- (4) notes: before every line / after a line / inline; matched posting with and without its own note; two rules
    nb = [N("lead"), P("A", amount=mult_amount("1"), note="inl"), N("after a"), P("B", amount=mult_amount("2")), P("C", amount=mult_amount("3")), N("after c"), N("after c2")]
    x = food(1)
    x["posts"][0]["note"] = "own"
    x["note"] = "xn"
    cs.append(J1([x, food(2)], [RX(A("Food"), copy.deepcopy(nb))]))
    cs.append(J1([copy.deepcopy(x), food(2)], [RX(A("Food"), copy.deepcopy(nb)), RX(A("e"), [N("second"), N("second b")])]))
    cs.append(J1([food(1)], [RX(A("Zzz"), copy.deepcopy(nb))]))
    # ---- checks: assert / check / expr, true / false, order
    for body in [[CK("assert", "gt", 0), P("A", amount=mult_amount("1"))],
                 [CK("assert", "gt", 5), P("A", amount=mult_amount("1"))],
                 [CK("assert", "ge", 10), P("A", amount=mult_amount("1"))],
                 [CK("assert", "gt", 10), P("A", amount=mult_amount("1"))],
                 [CK("check", "gt", 10), P("A", amount=mult_amount("1"))],
                 [CK("check", "lt", 5), CK("check", "gt", 100), P("A", amount=mult_amount("1")), CK("check", "le", 10)],
                 [CK("check", "gt", 100), CK("assert", "gt", 100)],
                 [CK("assert", "gt", 100), CK("check", "gt", 100)],
                 [CK("expr", "gt", 100), P("A", amount=mult_amount("1"))],
                 [P("A", "bvirtual", mult_amount("1")), CK("assert", "lt", 0)]]:
        cs.append(J1([food(1), food(2, q="3.00")], [RX({"t": "gt", "n": 0}, body, "expr")]))
        cs.append(J1([food(1), food(2, q="3.00")], [RX(A("Food"), copy.deepcopy(body))]))
    # ---- (5) any() / all(): the live posting list
    five = lambda: mk_xact(1, "payee 10", [("Expenses:Food", "real", "10.00", "$"), ("Expenses:Food:Out", "real", "3.00", "$"),
                                           ("Expenses:Rent", "real", "20", "AAA"), ("Assets:Cash", "real", "-13.00", "$"), ("Assets:Bank", "real", "-20", "AAA")])
    ANY = lambda p: {"t": "any", "a": p}
    ALL = lambda p: {"t": "all", "a": p}
    gt = lambda n: {"t": "gt", "n": n}
    for pr in [ANY(A("Auto")), {"t": "or", "a": ANY(A("Auto")), "b": A("Rent")}, ALL(gt(-100)), ALL(gt(0)),
               {"t": "and", "a": ALL(A("s")), "b": gt(0)}, ANY(gt(15)), {"t": "and", "a": A("Cash"), "b": ANY(A("Auto"))},
               {"t": "or", "a": {"t": "and", "a": A("Bank"), "b": ANY(A("Auto"))}, "b": A("Rent")},
               {"t": "ite", "c": ANY({"t": "lt", "n": -15}), "a": A("Food"), "b": A("Cash")},
               ANY({"t": "and", "a": A("Auto"), "b": {"t": "lt", "n": 0}}), ALL(A("e"))]:
        cs.append(J1([five(), five()], [RX(pr, [P("Auto:Gen", amount=mult_amount("1"))], "flat")]))
        cs.append(J1([five()], [RX(A("Rent"), [P("Auto:First", amount=mult_amount("1"))]), RX(pr, [P("Zed", amount=mult_amount("-1"))], "flat")]))
    return [copy.deepcopy(norm_journal(c)) for c in cs]


def malformed_stream(ctx):
    """garbage to the driver; malformed rules to ledger (must be an error, never a partial report)."""
    lines = ["autoxact.load", "autoxact.load\t{", "autoxact.load\t{\"xacts\":[]}", "autoxact.load\t{\"xacts\":[],\"rules\":[],\"items\":[{\"k\":\"r\",\"i\":3}]}",
             "autoxact.load\t{\"xacts\":[],\"rules\":[{\"pred\":{\"t\":\"nope\"},\"body\":[],\"line\":1}],\"items\":[]}", "autoxact.nope\tx",
             "autoxact.load\t{\"xacts\":[],\"rules\":[{\"pred\":{\"t\":\"const\",\"b\":true},\"body\":[{\"t\":\"check\",\"kind\":\"assert\",\"expr\":\"amount >\"}],\"line\":1}],\"items\":[]}"]
    want = ["err\tbad-op", "err\tbad-json", "err\tbad-json", "err\tbad-json", "err\tbad-json", "err\tbad-op", "err\tbad-json"]
    got = vflib.driver_run(lines)
    for l, g, w in zip(lines, got, want):
        ctx.count()
        if g != w:
            ctx.tie_broken("corr:malformed-driver", "driver answered %r to %r, expected %r" % (g, l, w))
    bad_headers = ["=", "= expr (", "= expr (amount >", "= /unterminated", "= payee"]
    bad_bodies = [None, None, None, None, None, "    (X)  (amount *", "    assert", "    (X)  1 @"]
    for k, h in enumerate(bad_headers + ["= Food", "= Food", "= Food"]):
        x = mk_xact(1, "payee 1", [("Expenses:Food", "real", "10.00", "$"), ("Assets:Cash", "real", "-10.00", "$")])
        j = {"xacts": [x], "rules": [{"pred": {"t": "const", "b": True}, "syntax": "raw", "raw_header": h,
                                      "lines": [{"account": "X", "kind": "virtual", "amount": mult_amount("1")}]}],
             "items": [{"k": "r", "i": 0}, {"k": "x", "i": 0}]}
        text = render(j, True)
        if bad_bodies[k]:
            text = text.replace("    (X)  1\n", bad_bodies[k] + "\n", 1)
        rc, out, err = run_ledger(text)
        ctx.count()
        ctx.feature("malformed-rule")
        if rc == 0 or out.strip():
            ctx.violation("C16:malformed-rule-accepted", "malformed rule %r is accepted or yields a partial report" % (bad_bodies[k] or h),
                          {"journal": text, "ledger_stdout": out[:2000], "ledger_stderr": err[:2000]})


def run(tier, seed):
    ctx = Check("C16", tier, seed)
    ctx.mism = []
    ctx.reported = set()
    ctx.rule = ("journals interleaving 0-4 rules (account terms, payee terms, expr over amount<cmp>N, combined with not/and/or/?:, any()/all(), in "
                "query or expr syntax; 0-4 lines with multipliers, fixed amounts or amount expressions, real/(virtual)/[balanced], own state, own "
                "@/@@ cost, inline notes, $account / %(account) / %(payee); rule note lines; check/assert/expr lines) with 1-30 "
                "balanced-by-construction transactions (elided amounts, several commodities, virtual postings, @/@@ costs, explicit lots, "
                "states, notes), rules before / between / after; ~10% of journals carry a rule that unbalances, ~4% of rules a failing assert, "
                "~0.4% of transactions are unbalanced themselves; plus bounded-exhaustive position x kind x amount type x predicate family and "
                "boundary sets per feature; non-trivial = >=1 rule and (>=1 generated row or an error); distinct by journal text")
    ctx.assumptions = ["boost::regex icase search = case-insensitive substring for metacharacter-free patterns",
                       "GMP rational arithmetic is exact",
                       "reg prints postings in transaction order, postings in xact.posts order (no sort option given)",
                       "format_t on an account name evaluates %(account) / %(payee) to the matched posting's account / payee"]
    if not ctx.prepare():
        return ctx.finish()
    rng = ctx.rng
    exh = exhaustive_cases()
    ctx.extra_cov["exhaustive_cases"] = len(exh)
    process(ctx, fixed_cases(), "fixed")
    bnd = boundary_cases()
    gro = growth_cases(rng)
    ctx.extra_cov["boundary_cases"] = len(bnd) + len(gro)
    process(ctx, bnd, "boundary")
    process(ctx, gro, "growth-boundary")
    process(ctx, exh, "exhaustive")
    n = 450 if ctx.tier == "quick" else 12000
    if ctx.ties_broken:
        # a proof obligation or an extractor broke: search mode, widen the random stream
        ctx.extra_cov["search_mode"] = [t[0] for t in ctx.ties_broken]
        n *= 6
    CH = 300
    for s in range(0, n, CH):
        cases = []
        for k in range(min(CH, n - s)):
            if k % 5 == 4:
                # the plain fragment of round 1 (no costs, notes, checks, expressions)
                cases.append(gen_journal(rng, big=(k % 7 == 0), p_cost=0.0, rich=False, p_flat=0.0, p_failing_assert=0.0, p_lot=0.0))
            else:
                cases.append(gen_journal(rng, big=(k % 7 == 0)))
        process(ctx, cases, "random")
    malformed_stream(ctx)
    if ctx.mism:
        ctx.extra_cov["mismatches"] = ctx.mism[:5]
    return ctx.finish()


def replay(obj):
    r = obj.get("replay", {})
    if "ast" not in r:
        print(json.dumps(obj, indent=1)[:3000])
        return 1
    vflib.ensure_ledger()
    j = r["ast"]
    text, w, b = eval_case(j)
    print(text)
    print("ledger now: rc=%s\n%s%s" % (w[0], w[1], w[2]))
    o = oracle(j, w, b)
    print("oracle:", o)
    return 0 if o is None else 1
