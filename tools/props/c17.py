"""C17 — sorting and regrouping options only reorder or merge postings.

Theorems: lean/LedgerModel/Props/C17.lean over Model/Regroup.lean (sort_posts /
sort_xacts / compare_items / sort_value_is_less_than, truncate_xacts,
collapse_posts, subtotal_posts, by_payee_posts, day_of_week_posts, calc_posts,
and their composition in chain.cc order, for any valuation of the postings).
Tie: (a) Gen/Regroup.lean re-extracted from filters.cc/.h, compare.cc, value.cc,
post.cc, chain.cc on every run (tools/extract_regroup.py): the truncation
comparisons, the sort algorithm, the `.simplified()` of sort keys and the
comparator of collapse's totals map are interpreted into the model, the
mirrored function bodies and the handler order are pinned by `rfl`; (b) driver
ops regroup.run (journal AST) and regroup.rows (ledger's own plain rows, the
valuation being data) against paired `ledger reg --empty --format …` runs.
Oracle (plain Python on ledger's own rows, Fractions): a reference evaluation of
the option set on the *denotations* of the plain register's rows - permutation /
ordered by key / ties in plain order for --sort and, per transaction, for
--sort-xacts; the union window of --head N / --tail M (negative counts
included) over transaction groups; per-group and grand-total per-commodity sums
for --subtotal, --collapse, --by-payee, --dow, --depth alone and stacked in
chain.cc order, with and without -B.
"""
import os, sys, re, json, copy, datetime, tempfile, itertools, functools
from fractions import Fraction
import vflib, jgen
from vflib import Check

MANIFEST = dict(
    text="Machine-checked proof (Lean 4, every posting list and every valuation of the postings, no size bound) about a model of "
         "ledger's sort_posts / sort_xacts / compare_items, truncate_xacts, collapse_posts, subtotal_posts, by_payee_posts and "
         "day_of_week_posts handlers and their composition in chain.cc order: --sort (and --sort-xacts per transaction) yields a "
         "permutation that is ordered by the key with ties in input order, and is the only such arrangement, whenever the key "
         "comparison is a strict weak order - proved for date, payee, account, single-commodity amounts, amounts that all carry a "
         "commodity, and compound keys; the truncate_xacts handler equals the union window {i < N} u {i >= len-M} on the transaction "
         "groups for every --head N / --tail M (take N / drop len-N alone; negative counts drop from the other end); every "
         "--subtotal/--collapse/--by-payee/--dow/--depth row and the grand total equal the per-commodity sums of the member postings, "
         "also for two stacked regrouping options, and --depth rows come in "
         "account-name order. The window comparisons, the sort algorithm, the map comparator and the handler bodies are re-extracted "
         "from the source on every run; the model is run against the rebuilt binary on paired reg runs; an independent Fraction "
         "reference on ledger's own rows supplies the failing input.",
    note="Modelled, not verified: std::stable_sort is a stable sort (the model's merge sort is proved to be the unique stable "
         "arrangement, so the algorithm does not matter when the comparison is a strict weak order); lots/annotated commodities are "
         "opaque commodity names taken from ledger's own plain rows (regroup.rows), the valuation (-B) is data; elided amounts are "
         "checked by the oracle only; --subtotal/--by-payee/--dow refuse (error, modelled) an account that has both virtual and "
         "real postings. Findings replayed on the binary: (1) the amount sort key is not a strict weak order when a zero amount (or "
         "an amount without commodity) meets two commodities; (2) subtotal_posts ignores the amount expression, so "
         "-B --subtotal/--by-payee/--dow report lots, not costs. Fixed (08839e9) and watched: subtotal_posts lost a "
         "multi-commodity row handed over by --by-payee/--dow (the read is an extracted flag, Gen.Regroup.subtotalReadsCompound).",
    technique="Lean 4 proof over a hand-written model + regenerated comparison operators/bodies + differential model/binary check + Fraction oracle",
    ref="DESIGN.md §5 C17")

FMT = ("%(beg_line)|%(xact.beg_line)|%(date)|%(virtual ? 1 : 0)|%(payee)|%(account)|%(verif_rational(amount))|"
       "%(verif_rational(amount_expr))|%(verif_rational(total))\n")
EPOCH = datetime.date(1970, 1, 1)
ZERO_FP = "C17:compare.cc:push_sort_value:zero-or-bare-amount-key"
COMPOUND_FP = "C17:filters.cc:subtotal_posts:compound-input-lost"
EXPR_FP = "C17:filters.cc:subtotal_posts:amount-expression-ignored"

SORT_KEYS = ["date", "-date", "payee", "-payee", "account", "-account", "amount", "-amount", "date,-amount", "payee,account",
             "-date,amount", "account,-payee,amount"]
DAYNAMES = ["Sundays", "Mondays", "Tuesdays", "Wednesdays", "Thursdays", "Fridays", "Saturdays"]


# ---------------------------------------------------------------------------
# ledger side


class Row:
    __slots__ = ("line", "xline", "day", "virt", "payee", "account", "amount", "value", "total")

    def __init__(self, line, xline, day, virt, payee, account, amount, value, total):
        self.line, self.xline, self.day, self.virt = line, xline, day, virt
        self.payee, self.account, self.amount, self.value, self.total = payee, account, amount, value, total

    def ident(self):
        return (self.line, self.xline, self.day, self.payee, self.account, self.amount, self.value)

    def full(self):
        return self.ident() + (self.total,)

    def text(self):
        return "%d|%d|%d|%s|%s|%s|%s|%s" % self.full()

    def input_text(self):
        """the row as input of the model op regroup.rows"""
        return "%d|%d|%d|%d|%s|%s|%s|%s" % (self.line, self.xline, self.day, 1 if self.virt else 0, self.payee, self.account,
                                              self.amount, self.value)


def parse_rows(out):
    rows = []
    for ln in out.split("\n"):
        if not ln:
            continue
        parts = ln.split("|")
        if len(parts) != 9:
            return None
        y, m, d = parts[2].split("/")
        day = (datetime.date(int(y), int(m), int(d)) - EPOCH).days
        rows.append(Row(int(parts[0]), int(parts[1]), day, parts[3] == "1", parts[4], parts[5], parts[6], parts[7], parts[8]))
    return rows


def den(v):
    """verif_rational text -> {commodity: Fraction} without zero entries."""
    tag, _, rest = v.partition(":")
    if tag == "I":
        n = int(rest)
        return {"": Fraction(n)} if n else {}
    if tag == "A":
        parts = [rest]
    elif tag == "B":
        parts = rest.split(";") if rest else []
    elif tag == "N":
        return {}
    else:
        raise ValueError("not a numeric value: " + v)
    d = {}
    for p in parts:
        q, prec, keep, comm = p.split(":", 3)
        n, dd = q.split("/")
        f = Fraction(int(n), int(dd))
        d[comm] = d.get(comm, 0) + f
    return {c: q for c, q in d.items() if q != 0}


def dsum(ds):
    r = {}
    for d in ds:
        for c, q in d.items():
            r[c] = r.get(c, 0) + q
    return {c: q for c, q in r.items() if q != 0}


def single(v):
    """(commodity, Fraction) of an AMOUNT rendering, keeping a zero quantity."""
    tag, _, rest = v.partition(":")
    if tag == "I":
        return ("", Fraction(int(rest)))
    if tag != "A":
        return None
    q, prec, keep, comm = rest.split(":", 3)
    n, dd = q.split("/")
    return (comm, Fraction(int(n), int(dd)))


def fmt_den(d):
    return "{" + ", ".join("%s: %s" % (c or '""', q) for c, q in sorted(d.items())) + "}"


def filter_args(f):
    a = []
    if f.get("real"):
        a.append("--real")
    if f.get("cleared"):
        a.append("--cleared")
    if f.get("basis"):
        a.append("-B")
    if f.get("acct"):
        a.append(f["acct"])
    return a


def filter_spec(f):
    return "real=%d,cleared=%d,acct=%s" % (1 if f.get("real") else 0, 1 if f.get("cleared") else 0, f.get("acct") or "")


def filter_key(f):
    return filter_spec(f) + (",basis" if f.get("basis") else "")


class Opts:
    """an option set: '+'-joined tokens plain | dow | bypayee | subtotal | collapse | depth:N | sort:KEYS | sortx:KEYS | head:N | tail:N"""

    def __init__(self, text):
        self.text = text
        self.pre, self.subtotal, self.collapse, self.depth, self.sort, self.head, self.tail = None, False, False, None, None, None, None
        for t in text.split("+"):
            k, _, v = t.partition(":")
            if k == "plain":
                pass
            elif k == "dow":
                self.pre = "dow"
            elif k == "bypayee":
                self.pre = self.pre or "bypayee"          # chain.cc: `if dow … else if by_payee`
            elif k == "subtotal":
                self.subtotal = True
            elif k == "collapse":
                self.collapse = True
            elif k == "depth":
                self.depth = int(v)
            elif k == "sort":
                self.sort = (False, v)
            elif k == "sortx":
                self.sort = (True, v)
            elif k == "head":
                self.head = int(v)
            elif k == "tail":
                self.tail = int(v)
            else:
                raise ValueError(t)

    def regroups(self):
        return bool(self.pre or self.subtotal or self.collapse or self.depth is not None)

    def kind(self):
        ks = []
        for t in self.text.split("+"):
            ks.append(t.partition(":")[0])
        return "+".join(ks)

    def args(self):
        a = []
        for t in self.text.split("+"):
            k, _, v = t.partition(":")
            if k == "plain":
                continue
            if k == "sort":
                a += ["--sort", v]
            elif k == "sortx":
                a += ["--sort-xacts", v]
            elif k in ("head", "tail", "depth"):
                a.append("--%s=%s" % (k, v))
            else:
                a.append({"subtotal": "--subtotal", "collapse": "--collapse", "bypayee": "--by-payee", "dow": "--dow"}[k])
        return a


def run_ledger(path, f, opt):
    """-> ('ok', rows) | ('err', kind, text)"""
    rc, out, err = vflib.ledger_run(["-f", path, "reg", "--empty", "--format", FMT] + Opts(opt).args() + filter_args(f))
    if rc != 0 or err.strip():
        if "cannot accept virtual and non-virtual postings to the same account" in err:
            kind = "virt-mix"
        elif "uninitialized amount" in err:
            kind = "null-amount"
        else:
            kind = vflib.err_kind(err) or ("rc=%s" % rc)
        return ("err", kind, err.strip()[-400:])
    rows = parse_rows(out)
    if rows is None:
        return ("err", "unparsable", out[-400:])
    return ("ok", rows)


# ---------------------------------------------------------------------------
# the oracle: a reference evaluation of the option set on denotations of the plain register's rows


def amount_less(x, y):
    """ledger's comparison of two posting amounts used as sort keys, restated from
    its documentation/behaviour: numerically when the commodities agree or one
    side is zero or has no commodity (a zero is just the number 0), otherwise by
    commodity symbol."""
    (cx, qx), (cy, qy) = x, y
    if cx == cy or qx == 0 or qy == 0 or cx == "" or cy == "":
        return qx < qy
    return cx.encode() < cy.encode()


class Cell:
    """one row of a (reference) register: identity of its transaction, the fields a
    sort key can see, and the denotation of its value"""
    __slots__ = ("xact", "day", "vday", "payee", "account", "d", "amt", "virt", "src", "pos")

    def __init__(self, xact, day, vday, payee, account, d, amt, virt, src, pos=0):
        self.xact, self.day, self.vday, self.payee, self.account = xact, day, vday, payee, account
        self.d, self.amt, self.virt, self.src, self.pos = d, amt, virt, src, pos


def key_less_fn(keyspec):
    """Strict order 'a sorts before b' for a --sort key list, on Cells or Rows:
    dates by calendar, payee/account as byte strings, amounts by amount_less; a
    leading '-' reverses that key; later keys break ties."""
    keys = []
    for k in keyspec.split(","):
        inv = k.startswith("-")
        keys.append((k.lstrip("-"), inv))

    def amt_of(a):
        return a.amt if isinstance(a, Cell) else single(a.amount)

    def lt(name, a, b):
        if name == "date":
            return a.day < b.day
        if name == "payee":
            return a.payee.encode() < b.payee.encode()
        if name == "account":
            return a.account.encode() < b.account.encode()
        x, y = amt_of(a), amt_of(b)
        if x is None or y is None:
            return False
        return amount_less(x, y)

    def less(a, b):
        for name, inv in keys:
            if lt(name, a, b):
                return not inv
            if lt(name, b, a):
                return inv
        return False
    return less


def is_swo(rows, less):
    """asymmetric and negatively transitive on these rows"""
    n = len(rows)
    m = [[less(a, b) for b in rows] for a in rows]
    for i in range(n):
        for j in range(n):
            if m[i][j] and m[j][i]:
                return False
    for i in range(n):
        for j in range(n):
            if m[i][j]:
                continue
            for k in range(n):
                if not m[j][k] and m[i][k]:
                    return False
    return True


def weekday(day):
    return (EPOCH + datetime.timedelta(days=day)).isoweekday() % 7   # 0 = Sunday


def depth_account(acct, n):
    return ":".join(acct.split(":")[:n])


def runs_of(cells):
    gs = []
    for c in cells:
        if gs and gs[-1][0].xact == c.xact:
            gs[-1].append(c)
        else:
            gs.append([c])
    return gs


class Refusal(Exception):
    pass


def merge(cells, xact, payee, keyf=lambda c: c.account):
    """one transaction `xact`: a cell per key (byte order), each the sum of its members"""
    by = {}
    for c in cells:
        by.setdefault(keyf(c), []).append(c)
    day = min(c.day for c in cells)
    vday = max(c.vday for c in cells)
    out = []
    for k in sorted(by, key=lambda s: s.encode()):
        ms = by[k]
        d = dsum(m.d for m in ms)
        amt = None
        out.append(Cell(xact, day, vday, payee, k, d, amt, all(m.virt for m in ms), [s for m in ms for s in m.src]))
    return out


def subtotal_stage(cells, xact, payee):
    """subtotal_posts: refuses an account that has both virtual and real postings"""
    seen = {}
    for c in cells:
        if c.account in seen and seen[c.account] != c.virt:
            raise Refusal("virt-mix")
        seen.setdefault(c.account, c.virt)
    return merge(cells, xact, payee)


def reference(plain, o):
    """the register the property demands under option set `o`, as Cells with running
    totals: list of (Cell, total denotation).  Raises Refusal for the documented
    virt-mix refusal."""
    cells = [Cell(("x", r.xline), r.day, r.day, r.payee, r.account, den(r.value), single(r.amount), r.virt, [i])
             for i, r in enumerate(plain)]
    if o.pre == "bypayee":
        out = []
        real = {c.account for c in cells if not c.virt}
        for p in sorted({c.payee for c in cells}, key=lambda s: s.encode()):
            out += subtotal_stage([c for c in cells if c.payee == p], ("p", p), p)
        for c in out:
            c.virt = c.account not in real
        cells = out
    elif o.pre == "dow":
        out = []
        real = set()
        for i in range(7):
            sel = [c for c in cells if weekday(c.day) == i]
            if sel:
                day_rows = subtotal_stage(sel, ("d", i), DAYNAMES[i])
                real |= {c.account for c in sel if not c.virt}      # the account flags accumulate day after day
                for c in day_rows:
                    c.virt = c.account not in real
                out += day_rows
        cells = out
    if o.subtotal and cells:
        cells = subtotal_stage(cells, ("s",), None)
    if o.collapse or o.depth is not None:
        depth = o.depth or 0
        passthrough = o.collapse and o.depth is None
        out = []
        for k, g in enumerate(runs_of(cells)):
            if depth == 0 and passthrough and len(g) == 1:
                out += g
            else:
                keyf = (lambda c: "<Total>") if depth == 0 else (lambda c: depth_account(c.account, depth))
                out += merge(g, ("c", k), g[-1].payee, keyf)
        cells = out
    for i, c in enumerate(cells):
        c.pos = i
    if o.sort:
        less = key_less_fn(o.sort[1])
        cmp = functools.cmp_to_key(lambda a, b: -1 if less(a, b) else (1 if less(b, a) else 0))
        if o.sort[0]:
            cells = [c for g in runs_of(cells) for c in sorted(g, key=cmp)]
        else:
            cells = sorted(cells, key=cmp)
    acc = {}
    rows = []
    for c in cells:
        acc = dsum([acc, c.d])
        rows.append((c, acc))
    if o.head is not None or o.tail is not None:
        h, t = o.head or 0, o.tail or 0
        gs = []
        for r in rows:
            if gs and gs[-1][0][0].xact == r[0].xact:
                gs[-1].append(r)
            else:
                gs.append([r])
        n = len(gs)
        keep = []
        for i, g in enumerate(gs):
            by_head = (h > 0 and i < h) or (h < 0 and i >= -h)
            by_tail = (t > 0 and n - i <= t) or (t < 0 and n - i > -t)
            if by_head or by_tail:
                keep += g
        rows = keep
    return rows


def sort_order_ok(o, rows, cellsets):
    """for a comparison that is not a strict weak order no reference arrangement
    exists: check directly that no row is followed by one that sorts before it"""
    less = key_less_fn(o.sort[1])
    for seg in cellsets:
        for i in range(len(seg)):
            for j in range(i + 1, len(seg)):
                if less(seg[j], seg[i]):
                    return "--%s %s: row (%s) comes before row (%s) although the second sorts first" % (
                        "sort-xacts" if o.sort[0] else "sort", o.sort[1], seg[i].text(), seg[j].text())
    return None


def oracle(plain, opt, res):
    """None when the rows `res` ledger printed under `opt` stand in the relation
    the property demands to the rows `plain` of the plain register, else a
    description of the first discrepancy."""
    o = Opts(opt)
    try:
        want = reference(plain, o)
    except Refusal as e:
        if res[0] == "err" and res[1] == str(e):
            return None
        if res[0] == "err":
            return "%s failed with %s (%s), expected the %s refusal" % (opt, res[1], res[2][-120:], e)
        return "%s printed rows although an account mixes virtual and real postings" % opt
    if res[0] == "err":
        return "%s failed with %s although the plain register succeeds: %s" % (opt, res[1], res[2][-160:])
    rows = res[1]
    # running totals are the cumulative sums of the amounts shown (the amount expression), row by row
    if o.head is None and o.tail is None:
        acc = {}
        for i, r in enumerate(rows):
            acc = dsum([acc, den(r.value)])
            if den(r.total) != acc:
                return "%s: running total of row %d (%s) is %s, the amounts so far sum to %s" % (opt, i, r.text(), r.total, fmt_den(acc))
    if o.sort and not o.regroups():
        # --sort / --sort-xacts on the plain register: permutation, ordered, stable - as relations on ledger's own rows
        if o.head is None and o.tail is None:
            if sorted(r.ident() for r in rows) != sorted(r.ident() for r in plain):
                return "%s: rows are not a permutation of the plain register's rows" % opt
            segs = [rows]
            if o.sort[0]:
                segs, i = [], 0
                for g in groups_by_xact(plain):
                    segs.append(rows[i:i + len(g)])
                    if sorted(r.ident() for r in segs[-1]) != sorted(r.ident() for r in g):
                        return "--sort-xacts: rows %d.. are not the postings of the transaction at line %d" % (i, g[0].xline)
                    i += len(g)
            e = sort_order_ok(o, rows, segs)
            if e:
                return e
    if len(rows) != len(want):
        return "%s: %d rows, the option set applied to the plain register gives %d" % (opt, len(rows), len(want))
    for i, (r, (c, tot)) in enumerate(zip(rows, want)):
        got = (r.day, r.account, den(r.value))
        exp = (c.day, c.account, c.d)
        if got != exp or (c.payee is not None and r.payee != c.payee):
            return "%s: row %d is %s; its group (plain rows %s) gives day %d, payee %r, account %s, amount %s" % (
                opt, i, r.text(), [plain[s].line for s in c.src][:8], c.day, c.payee, c.account, fmt_den(c.d))
        if den(r.total) != tot:
            return "%s: row %d (%s): running total %s, expected %s" % (opt, i, r.text(), r.total, fmt_den(tot))
        if len(c.src) == 1 and not o.regroups() and r.ident() != plain[c.src[0]].ident():
            return "%s: row %d (%s) is not the plain register's row %s" % (opt, i, r.text(), plain[c.src[0]].text())
    return None


def groups_by_xact(rows):
    gs = []
    for r in rows:
        if gs and gs[-1][0].xline == r.xline:
            gs[-1].append(r)
        else:
            gs.append([r])
    return gs


# ---------------------------------------------------------------------------
# generators


ACCTS = ["Assets:Bank:Checking", "Assets:Bank:Savings", "Assets:Cash", "Expenses:Food", "Expenses:Food:Out",
         "Expenses:Rent", "Income:Salary", "Liabilities:Card", "Equity"]


def fill_elided(j, comms):
    """replace an elided amount by the explicit balancing postings (one per commodity),
    so that every posting has its own line and the AST carries every amount"""
    cmap = {c.name: c for c in comms}
    for x in j["xacts"]:
        idx = [i for i, p in enumerate(x["posts"]) if p["amount"] is None]
        if not idx:
            continue
        res = {}
        for p in x["posts"]:
            if p["amount"] is not None and p["kind"] != "virtual":
                res[p["amount"]["comm"]] = res.get(p["amount"]["comm"], 0) + jgen.amt_q(p["amount"])
        i = idx[0]
        proto = x["posts"][i]
        new = [dict(proto, amount=jgen.amt(-q, cmap[c])) for c, q in sorted(res.items()) if q != 0]
        x["posts"][i:i + 1] = new
    j["xacts"] = [x for x in j["xacts"] if x["posts"]]


def has_elided(j):
    return any(p["amount"] is None for x in j["xacts"] for p in x["posts"])


def has_costs(j):
    return any(p.get("cost") for x in j["xacts"] for p in x["posts"])


def gen_cost_journal(rng):
    """lots bought and sold at prices whose totals are exact at the price commodity's
    precision (whole quantities of AAA, two-decimal prices), so that -B shows no
    rounding adjustments; every amount is explicit"""
    D, E, A = jgen.STD_COMMS[0], jgen.STD_COMMS[1], jgen.STD_COMMS[2]
    comms = [D, E, A]
    accts = ACCTS[:rng.choice([3, 5, 9])]
    d0 = jgen.day_of(2019, 1, 1)
    xs = []
    for _ in range(rng.choice([1, 2, 3, 4, 6])):
        posts = []
        for _ in range(rng.choice([1, 1, 2])):
            pc = rng.choice([D, E])
            q = Fraction(rng.choice([-12, -5, -1, 1, 2, 7, 10, 30]))
            per_unit = rng.random() < 0.6
            price = Fraction(rng.randint(1, 5000), 100)
            tot = price * abs(q) if per_unit else price
            tot = tot if q > 0 else -tot
            posts.append({"account": rng.choice(accts), "kind": "real", "state": 0, "amount": jgen.amt(q, A),
                          "cost": dict(jgen.amt(price, pc), per_unit=per_unit), "assert": None, "note": ""})
            posts.append({"account": rng.choice(accts), "kind": "real", "state": 0, "amount": jgen.amt(-tot, pc),
                          "cost": None, "assert": None, "note": ""})
        if rng.random() < 0.5:
            pc = rng.choice([D, E])
            q = Fraction(rng.randint(1, 99999), 100)
            posts.append({"account": rng.choice(accts), "kind": "real", "state": 0, "amount": jgen.amt(q, pc), "cost": None, "assert": None, "note": ""})
            posts.append({"account": rng.choice(accts), "kind": "real", "state": 0, "amount": jgen.amt(-q, pc), "cost": None, "assert": None, "note": ""})
        rng.shuffle(posts)
        xs.append({"date": d0 + rng.randint(0, 20), "aux": None, "state": rng.choice([0, 0, 1]), "code": "", "payee": "payee %d" % rng.randint(1, 3),
                   "note": "", "posts": posts})
    return {"xacts": xs}, comms, "costs"


def gen_journal(rng, ctx=None):
    if rng.random() < 0.2:
        return gen_cost_journal(rng)
    mode = rng.choice(["virt-apart", "virt-apart", "virt-apart", "no-virt", "raw", "ties", "ties"])
    ncomm = rng.choice([1, 1, 2, 3])
    comms = rng.sample(jgen.STD_COMMS[:4], ncomm)
    kw = dict(p_elide=0.0, p_cost=0.0, p_aux=0.0, p_note=0.0, p_code=0.1, max_posts=rng.choice([2, 3, 5]),
              n_days=rng.choice([3, 10, 40, 700]), magnitudes=rng.choice([[5], [10, 1000], [10, 10 ** 6, 10 ** 9]]),
              p_multi=0.35, p_state=0.4)
    if mode == "no-virt":
        kw.update(p_virtual=0.0, p_bvirtual=0.0)
    g = jgen.Gen(rng, comms=comms, accounts=ACCTS[:rng.choice([3, 5, 9])], **kw)
    n = rng.choice([1, 2, 3, 4, 5, 6, 8])
    j = g.journal(n, sort_dates=rng.random() < 0.4)
    npay = rng.choice([1, 2, 4])
    for x in j["xacts"]:
        x["payee"] = "payee %d" % rng.randint(1, npay)
        if mode == "virt-apart":
            for p in x["posts"]:
                if p["kind"] != "real":
                    p["account"] = "Virt:" + p["account"].split(":", 1)[0]
    if mode == "ties":
        # few distinct dates, payees, accounts and quantities: most keys tie, compound keys tie in their first component
        d0 = j["xacts"][0]["date"]
        for x in j["xacts"]:
            x["date"] = d0 + rng.randint(0, 1)
            x["payee"] = "payee %d" % rng.randint(1, 2)
            c = rng.choice(comms)
            q = Fraction(rng.choice([1, 1, 2, 5]))
            k = rng.choice([1, 1, 2])
            accts = ACCTS[:3]
            x["posts"] = [{"account": rng.choice(accts), "kind": "real", "state": 0, "amount": jgen.amt(q, c), "cost": None,
                           "assert": None, "note": ""} for _ in range(k)] + \
                         [{"account": rng.choice(accts), "kind": "real", "state": 0, "amount": jgen.amt(-q, c), "cost": None,
                           "assert": None, "note": ""} for _ in range(k)]
            if rng.random() < 0.3:          # a transaction of a single virtual posting (a group of size 1)
                x["posts"] = [{"account": "Virt:One", "kind": "virtual", "state": 0, "amount": jgen.amt(q, c), "cost": None,
                               "assert": None, "note": ""}]
    if rng.random() < 0.85:
        fill_elided(j, comms)
    if rng.random() < 0.12:
        zero_amounts(rng, j, comms)
    return j, comms, mode


def zero_amounts(rng, j, comms):
    """a transaction with an explicit zero amount (keeps the balance)"""
    x = rng.choice(j["xacts"])
    c = rng.choice(comms)
    x["posts"].insert(rng.randint(0, len(x["posts"])),
                      {"account": rng.choice(ACCTS[:3]), "kind": "real", "state": 0, "amount": jgen.amt(0, c),
                       "cost": None, "assert": None, "note": ""})


def gen_filters(rng, j):
    fs = [{}]
    r = rng.random()
    accts = sorted({p["account"].split(":")[0] for x in j["xacts"] for p in x["posts"]})
    words = accts + ["Bank", "Food"]
    if r < 0.25:
        fs.append({"real": True})
    elif r < 0.5:
        fs.append({"cleared": True})
    elif r < 0.8:
        fs.append({"acct": rng.choice(words)})
    else:
        fs.append({"real": rng.random() < 0.5, "cleared": rng.random() < 0.5, "acct": rng.choice(words)})
    return fs


PAIRS = ["bypayee+subtotal", "dow+subtotal", "subtotal+collapse", "bypayee+collapse", "dow+collapse", "subtotal+depth:1",
         "bypayee+depth:1", "dow+depth:2", "dow+bypayee", "bypayee+subtotal+collapse", "dow+subtotal+depth:1", "collapse+depth:1",
         "collapse+depth:0", "subtotal+depth:0"]
AFTER = ["bypayee+sort:-account", "dow+sort:account,payee", "subtotal+sort:-account", "collapse+sort:payee", "depth:1+sort:-account,date",
         "depth:2+sortx:-account", "bypayee+sortx:-account", "bypayee+head:1", "bypayee+tail:1", "dow+head:2+tail:1", "collapse+head:2",
         "collapse+tail:2", "depth:1+head:1+tail:1", "subtotal+head:1", "subtotal+tail:0", "bypayee+subtotal+head:0",
         "sort:account+head:2", "sort:-date+tail:1", "sortx:account+head:1+tail:1", "dow+collapse+sort:-payee+tail:2"]


def options_for(j, rng, costs=False):
    n = len(j["xacts"])
    opts = ["plain", "subtotal", "collapse", "bypayee", "dow"] + ["depth:%d" % i for i in range(0, 5)]
    if costs:
        # annotated (lot) commodities: no amount keys (their order is compare_by_commodity on annotations)
        opts += ["sort:" + k for k in ("date", "-account", "payee,-date")] + ["sortx:-account", "head:1", "tail:1", "head:1+tail:1"]
        opts += PAIRS[:8] + AFTER[:6]
        return opts
    opts += ["sort:" + k for k in SORT_KEYS]
    opts += ["sortx:" + k for k in ("account", "-account", "amount", "-amount", "payee,-amount", "-date,account")]
    opts += ["head:%d" % i for i in range(0, n + 3)] + ["tail:%d" % i for i in range(0, n + 3)]
    # both counts, at the edges 0, 1, count-1, count, count+1, and negative counts (all but the first / last |N|)
    edge = sorted({0, 1, max(n - 1, 0), n, n + 1})
    opts += ["head:%d+tail:%d" % (a, b) for a in edge for b in edge if a and b]
    neg = sorted({-1, -max(n - 1, 1), -n, -(n + 1)})
    opts += ["head:%d" % a for a in neg] + ["tail:%d" % a for a in neg]
    opts += ["head:-1+tail:-1", "head:-1+tail:1", "head:1+tail:-1", "head:%d+tail:1" % -n, "head:2+tail:%d" % -(n - 1 or 1)]
    opts += PAIRS + AFTER
    return opts


# ---------------------------------------------------------------------------
# running one journal


def run_journal(j, comms, filters, opts, model=True):
    """-> list of records dict(filter, opt, ledger, plain, model?)"""
    text = jgen.render(j, comms)
    path = jgen.write_tmp(text)
    try:
        tasks = [(f, o) for f in filters for o in opts]
        res = vflib.pmap(lambda t: run_ledger(path, t[0], t[1]), tasks)
    finally:
        os.unlink(path)
    recs = []
    plain = {}
    for (f, o), r in zip(tasks, res):
        if o == "plain":
            plain[filter_key(f)] = r
    for (f, o), r in zip(tasks, res):
        recs.append({"filter": f, "opt": o, "ledger": r, "plain": plain[filter_key(f)]})
    if model:
        js = json.dumps(j)
        by_rows = has_costs(j) or has_elided(j)
        lines = []
        for rc in recs:
            if by_rows or rc["filter"].get("basis"):
                # lots / valuations: the model is fed ledger's own plain rows (regroup.rows), the valuation is data
                if rc["plain"][0] == "ok":
                    lines.append("regroup.rows\t%s%s" % (rc["opt"], "".join("\t" + r.input_text() for r in rc["plain"][1])))
                else:
                    lines.append("regroup.rows\t")
            else:
                lines.append("regroup.run\t%s\t%s\t%s" % (js, filter_spec(rc["filter"]), rc["opt"]))
        for rc, ans in zip(recs, vflib.driver_run(lines)):
            rc["model"] = ans
    return text, recs


def ledger_answer(rc):
    """canonical answer line of the implementation, comparable to the model's"""
    r = rc["ledger"]
    if r[0] == "err":
        return ["err", r[1]]
    return ["ok"] + [x.text() for x in r[1]]


# ---------------------------------------------------------------------------
# shrinking


def shrink(j, comms, f, opt, fails):
    """greedy removal of transactions, then of postings whose removal keeps the failure"""
    cur = copy.deepcopy(j)
    changed = True
    while changed:
        changed = False
        for i in range(len(cur["xacts"])):
            if len(cur["xacts"]) <= 1:
                break
            cand = {"xacts": cur["xacts"][:i] + cur["xacts"][i + 1:]}
            if fails(cand):
                cur = cand
                changed = True
                break
    # postings: drop one at a time, the transaction's remaining postings made (virtual) so that it still balances
    changed = True
    while changed:
        changed = False
        for xi, x in enumerate(cur["xacts"]):
            for pi in range(len(x["posts"])):
                if len(x["posts"]) <= 1:
                    break
                cand = copy.deepcopy(cur)
                del cand["xacts"][xi]["posts"][pi]
                for p in cand["xacts"][xi]["posts"]:
                    p["kind"] = "virtual"
                if fails(cand):
                    cur = cand
                    changed = True
                    break
            if changed:
                break
    return cur


def case_fails(j, comms, f, opt):
    text, recs = run_journal(copy.deepcopy(j), comms, [f], ["plain", opt] if opt != "plain" else ["plain"], model=False)
    rc = [r for r in recs if r["opt"] == opt][0]
    if rc["plain"][0] != "ok":
        return None
    return oracle(rc["plain"][1], opt, rc["ledger"])


def fingerprint(opt, plain, f=None):
    """site of a failure: the option kinds; for --sort the key list, or one of the
    known defects when its precondition holds on exactly these rows"""
    o = Opts(opt)
    if o.sort and not o.regroups() and "amount" in o.sort[1] and plain is not None:
        segs = groups_by_xact(plain) if o.sort[0] else [plain]
        if any(not is_swo(s, key_less_fn(o.sort[1])) for s in segs):
            return ZERO_FP            # ledger's own comparison is not a strict weak order here: no ordered arrangement exists
    if (f or {}).get("basis") and (o.pre or o.subtotal):
        return EXPR_FP                # -B with subtotal_posts: the amount expression is not applied
    if o.pre and o.subtotal and plain is not None:
        # a (payee | weekday, account) group holding two commodities reaches --subtotal as a compound posting
        groups = {}
        for r in plain:
            k = (r.payee if o.pre == "bypayee" else weekday(r.day), r.account)
            sg = single(r.amount)
            groups.setdefault(k, set()).update([sg[0]] if sg else ["?", "??"])      # a zero of another commodity also makes a balance
        if any(len(v) >= 2 for v in groups.values()):
            return COMPOUND_FP
    if o.sort and not o.regroups() and o.head is None and o.tail is None:
        return "C17:%s:%s" % ("sort-xacts" if o.sort[0] else "sort", o.sort[1])
    return "C17:" + o.kind()


def plain_rows_of(j, comms, f):
    text, recs = run_journal(copy.deepcopy(j), comms, [f], ["plain"], model=False)
    return recs[0]["ledger"][1] if recs[0]["ledger"][0] == "ok" else None


def report(ctx, j, comms, f, opt, what):
    def fails(cand):
        e = case_fails(cand, comms, f, opt)
        return e is not None
    small = shrink(j, comms, f, opt, fails)
    e = case_fails(small, comms, f, opt) or what
    text = jgen.render(copy.deepcopy(small), comms)
    args = ["reg", "--empty", "--format", FMT] + Opts(opt).args() + filter_args(f)
    fp = fingerprint(opt, plain_rows_of(small, comms, f), f)
    ctx.violation(fp, e,
                  {"journal": text, "args": args, "plain_args": ["reg", "--empty", "--format", FMT] + filter_args(f),
                   "opt": opt, "filter": f, "oracle": e,
                   "how": "ledger -f J " + " ".join("'%s'" % a for a in args)})
    return fp


# ---------------------------------------------------------------------------


def directed_cases():
    """hand-written journals: the findings' witnesses, ties, equal keys, N beyond the count"""
    D, E, A = jgen.STD_COMMS[0], jgen.STD_COMMS[1], jgen.STD_COMMS[2]
    def post(acct, q, c, kind="real", state=0, cost=None):
        return {"account": acct, "kind": kind, "state": state, "amount": jgen.amt(Fraction(q), c), "cost": cost, "assert": None, "note": ""}
    def xact(day, payee, posts, state=0):
        return {"date": jgen.day_of(2020, 1, 1) + day, "aux": None, "state": state, "code": "", "payee": payee, "note": "", "posts": posts}
    cases = []
    # zero amount among two commodities, in two file orders (the comparator is not a strict weak order)
    cases.append(({"xacts": [xact(0, "p1", [post("A:a", -10, E), post("A:b", 0, D), post("A:c", 5, D), post("B:z", 10, E), post("B:y", -5, D)])]}, [D, E], "zero-mixed-1"))
    cases.append(({"xacts": [xact(0, "p1", [post("A:c", 5, D), post("A:b", 0, D), post("A:a", -10, E), post("B:z", 10, E), post("B:y", -5, D)])]}, [D, E], "zero-mixed-2"))
    # ties on every key
    cases.append(({"xacts": [xact(2, "same", [post("A:x", 1, D), post("A:x", 1, D), post("B", -2, D)]),
                             xact(2, "same", [post("A:x", 1, D), post("B", -1, D)], state=1),
                             xact(0, "same", [post("A:x", 1, D), post("B", -1, D)])]}, [D], "ties"))
    # four postings in two commodities per transaction; weekdays spread; the (payee, account) groups hold two commodities
    cases.append(({"xacts": [xact(d, "p%d" % (d % 3), [post("Expenses:Food:Out", d + 1, D), post("Expenses:Food", 2, E), post("Assets:Cash", -(d + 1), D), post("Assets:Cash", -2, E)])
                             for d in range(9)]}, [D, E], "weekdays"))
    cases.append(({"xacts": [xact(0, "solo", [post("A", 0, D)])]}, [D], "single-zero"))
    # two-element lists, equal and unequal keys, ascending and descending
    cases.append(({"xacts": [xact(0, "p", [post("A", 1, D), post("B", -1, D)])]}, [D], "two"))
    cases.append(({"xacts": [xact(0, "p", [post("B", 1, D), post("B", -1, D)])]}, [D], "two-same-account"))
    cases.append(({"xacts": [xact(1, "q", [post("A", 1, D, kind="virtual")]), xact(0, "p", [post("A", 1, D, kind="virtual")])]}, [D], "two-singletons"))
    # every key equal on every posting (stability is all that orders them)
    cases.append(({"xacts": [xact(0, "p", [post("A", 1, D, kind="virtual")]) for _ in range(5)]}, [D], "all-equal"))
    # compound key tying in its first component, differing in the second; descending with ties
    cases.append(({"xacts": [xact(0, "p", [post("A", 3, D), post("A", 1, D), post("A", 2, D), post("A", 3, D), post("B", -9, D)]),
                             xact(0, "p", [post("A", 2, D), post("A", 3, D), post("B", -5, D)]),
                             xact(1, "p", [post("A", 3, D), post("B", -3, D)])]}, [D], "compound-ties"))
    # transactions of one posting each (groups of size 1) between larger ones
    cases.append(({"xacts": [xact(0, "a", [post("V:x", 1, D, kind="virtual")]),
                             xact(1, "b", [post("A:x", 2, D), post("A:y", 3, E), post("B", -2, D), post("B", -3, E)]),
                             xact(2, "c", [post("V:x", 4, E, kind="virtual")]),
                             xact(3, "d", [post("V:y", 5, D, kind="virtual")])]}, [D, E], "size-one-groups"))
    cases.append(({"xacts": [xact(0, "v", [post("A", 5, D), post("A", 1, D, kind="virtual"), post("B", -5, D)]),
                             xact(1, "w", [post("C", 5, D), post("B", -5, D)])]}, [D], "virt-mix"))
    # --depth rows must come in account-name order whatever the order the accounts were first used in
    cases.append(({"xacts": [xact(0, "p", [post("Zeta:a", 1, D), post("Alpha:b:c", 2, D), post("Mid", 3, E), post("Alpha:a", 4, D),
                                           post("Zeta:a", -7, D), post("Mid", -3, E)]),
                             xact(1, "q", [post("Mid:x", 1, D), post("Alpha", -1, D)])]}, [D, E], "depth-order"))
    # one commodity: stacked regrouping options lose nothing
    cases.append(({"xacts": [xact(d, "p%d" % (d % 2), [post("Expenses:Food", d + 1, D), post("Assets:Cash", -(d + 1), D)]) for d in range(8)]},
                  [D], "one-commodity-stack"))
    # costs: 10 AAA @ $2, 5 AAA @@ $11, a sale
    def cost(q, c, per_unit=True):
        return dict(jgen.amt(Fraction(q), c), per_unit=per_unit)
    cases.append(({"xacts": [xact(0, "p1", [post("A:x", 10, A, cost=cost(2, D)), post("B:z", -20, D)]),
                             xact(1, "p2", [post("A:x", 5, A, cost=cost(11, D, False)), post("A:y", 3, E, cost=cost("3/2", D)), post("B:z", "-31/2", D)]),
                             xact(2, "p1", [post("A:x", -4, A, cost=cost(3, D)), post("B:z", 12, D)])]}, [D, E, A], "costs"))
    return cases


def run(tier, seed):
    ctx = Check("C17", tier, seed)
    ctx.rule = ("journals of 1-8 balanced transactions (1-3 commodities, account trees of depth <= 3, real/virtual/balanced-virtual "
                "postings, states, dates in random order; a costs mode with @/@@ prices) x limit predicate (none, --real, --cleared, "
                "account word; -B for the costs mode) x option set (plain, 12 sort keys, --sort-xacts, --head/--tail N for N=0..count+2, "
                "both counts at 0/1/count-1/count/count+1, negative counts, --subtotal, --collapse, --by-payee, --dow, --depth 0..4, "
                "14 stacks of two or three regrouping options, 20 stacks with sort/truncation); non-trivial = the option set changes "
                "the rows (order, count or amounts) of a register with >= 2 rows; distinct by (journal text, predicate, option set)")
    ctx.assumptions = ["std::stable_sort is a stable sort (the model's arrangement is proved unique, C17.sort_unique)",
                       "lot-annotated commodities are opaque names; under costs/-B/elision the model starts from ledger's plain rows",
                       "regrouping stacked with --sort is exercised with date/payee/account keys only"]
    model_ok = ctx.prepare()
    rng = ctx.rng
    njournals = 45 if tier == "quick" else 900
    if ctx.ties_broken:
        # a proof obligation / extractor / build broke: search mode - widen every stream, the oracle decides
        njournals *= 4
        ctx.extra_cov["search_mode"] = [t[0] for t in ctx.ties_broken]
    journals = [(j, c, "directed:" + name) for j, c, name in directed_cases()]
    cdir = os.path.join(vflib.ROOT, "corpus", "C17")
    if os.path.isdir(cdir):
        for fn in sorted(os.listdir(cdir)):
            if fn.endswith(".json"):
                with open(os.path.join(cdir, fn)) as f:
                    o = json.load(f)
                journals.insert(0, (o["journal"], [jgen.Commodity(**c) for c in o["comms"]], "corpus:" + fn))
    for i in range(njournals):
        j, comms, mode = gen_journal(rng)
        journals.append((j, comms, mode))
    seen_fp = set()
    for j, comms, mode in journals:
        costs = has_costs(j)
        filters = [{}] if mode.startswith("directed") else gen_filters(rng, j)
        if mode == "directed:virt-mix":
            filters = [{}, {"real": True}]
        if costs:
            filters = [{}, {"basis": True}] + ([dict(filters[-1], basis=True)] if filters[-1] else [])
        opts = options_for(j, rng, costs)
        text, recs = run_journal(j, comms, filters, opts, model=model_ok)
        ctx.feature("mode:" + mode.split(":")[0])
        for rc in recs:
            ctx.count()
            opt, f = rc["opt"], rc["filter"]
            o = Opts(opt)
            k = o.kind()
            if rc["plain"][0] != "ok":
                ctx.feature("plain-rejected")
                if rc["ledger"][0] == "ok" and rc["ledger"][1]:
                    ctx.violation("C17:rows-although-plain-fails", "plain register fails but %s prints rows" % opt,
                                  {"journal": text, "opt": opt, "filter": f})
                continue
            plain = rc["plain"][1]
            # --- tie: the model's rows are ledger's rows
            impl = ledger_answer(rc)
            mod = rc["model"].split("\t") if model_ok else impl
            ok_tie = True
            if impl[0] == "ok" and mod[0] == "ok":
                if impl[1:] != mod[1:]:
                    segs = groups_by_xact(plain) if (o.sort and o.sort[0]) else [plain]
                    if o.sort and not o.regroups() and "amount" in o.sort[1] and \
                            any(not is_swo(s, key_less_fn(o.sort[1])) for s in segs):
                        # no stable arrangement exists for a comparison that is not a strict weak order:
                        # merge sort and libstdc++'s stable_sort may then differ; the oracle decides
                        ctx.feature("tie-skipped:not-strict-weak-order")
                        ok_tie = None
                    else:
                        ok_tie = False
            elif impl != mod[:2]:
                ok_tie = False
            if ok_tie is False:
                ctx.tie_broken("corr:regroup:" + k, "journal:\n%s\nfilter %s option %s\nledger: %s\nmodel:  %s" % (
                    text, f, opt, impl[:12], mod[:12]))
                ctx.extra_cov.setdefault("mismatches", [])
                if len(ctx.extra_cov["mismatches"]) < 5:
                    ctx.extra_cov["mismatches"].append({"journal": text, "filter": f, "opt": opt, "ledger": impl[:12], "model": mod[:12]})
            elif ok_tie:
                ctx.traces_validated += 1
            # --- oracle on ledger's own rows
            e = oracle(plain, opt, rc["ledger"])
            if e is not None:
                ctx.feature("oracle-failures")
                fp0 = fingerprint(opt, plain, f)
                ctx.feature("oracle-failure:" + fp0)
                if fp0 not in seen_fp and len(seen_fp) < 40:
                    seen_fp.add(fp0)
                    seen_fp.add(report(ctx, j, comms, f, opt, e))
            ctx.feature("opt:" + k)
            if rc["ledger"][0] == "err":
                ctx.feature("refused:" + rc["ledger"][1])
            elif len(plain) >= 2 and [r.full() for r in rc["ledger"][1]] != [r.full() for r in plain]:
                ctx.nontrivial((text, filter_key(f), opt))
                if o.sort:
                    ctx.feature("sort-reorders")
            if f:
                ctx.feature("filtered")
            if f.get("basis"):
                ctx.feature("valuation:-B")
            if len({single(r.amount)[0] for r in plain if single(r.amount)}) >= 2:
                ctx.feature("multi-commodity")
        if model_ok and not has_elided(j) and not costs:
            swo_tie(ctx, j, text, filters, recs)
        ctx.sample({"journal": text[:400], "options": len(opts), "filters": filters}, cap=3)
    oracle_selftest(ctx)
    if model_ok:
        malformed(ctx)
    return ctx.finish()


def guard_py(ks, rows):
    """the guard of C17.sortValueLess_swo restated on ledger's rows"""
    if "amount" not in ks:
        return True
    sing = [single(r.amount) for r in rows]
    if any(x is None or not r.amount.startswith("A:") for x, r in zip(sing, rows)):
        return False
    nz = [c for c, q in sing if q != 0 and c != ""]
    one = len(set(nz)) <= 1
    allc = all(q != 0 and c != "" for c, q in sing)
    return one or allc


def swo_tie(ctx, j, text, filters, recs):
    """is compare_items a strict weak order on these postings?  model verdict vs the Python restatement"""
    js = json.dumps(j)
    keys = ["amount", "date,-amount"]
    lines, want = [], []
    for f in filters:
        plain = [rc["plain"] for rc in recs if rc["filter"] is f][0]
        if plain[0] != "ok":
            continue
        for ks in keys:
            lines.append("regroup.swo\t%s\t%s\t%s" % (js, filter_spec(f), ks))
            want.append("ok\t%d\t%d" % (1 if is_swo(plain[1], key_less_fn(ks)) else 0, 1 if guard_py(ks, plain[1]) else 0))
    for l, w, g in zip(lines, want, vflib.driver_run(lines)):
        ctx.count()
        ctx.feature("swo:" + w[3])
        ctx.feature("swo-guard:" + w[-1])
        if g.startswith("ok") and g.split("\t")[2] == "1" and g.split("\t")[1] != "1":
            ctx.tie_broken("corr:regroup.swo:guard", "guard holds but the comparison is not a strict weak order: " + l[-200:])
        if w != g:
            ctx.tie_broken("corr:regroup.swo", "journal:\n%s\n%s: model %r, restated comparison %r" % (text, l.rsplit("\t", 2)[1:], g, w))
        else:
            ctx.traces_validated += 1


def bump(v):
    """a different value of the same shape: the first component's quantity plus one"""
    tag, _, rest = v.partition(":")
    if tag in ("A", "B") and rest:
        first, sep, others = rest.partition(";")
        q, tail = first.split(":", 1)
        n, d = q.split("/")
        return "%s:%d/%s:%s%s%s" % (tag, int(n) + int(d), d, tail, sep, others)
    return "A:1/1:0:0:ZZZ"


def drop_comp(v):
    """a balance that lost one of its non-zero components (None when it has fewer than two)"""
    tag, _, rest = v.partition(":")
    if tag != "B":
        return None
    comps = rest.split(";")
    nz = [c for c in comps if not c.startswith("0/")]
    if len(nz) < 2:
        return None
    comps.remove(nz[-1])
    return "B:" + ";".join(comps)


def clone(r, **kw):
    x = Row(r.line, r.xline, r.day, r.virt, r.payee, r.account, r.amount, r.value, r.total)
    for k, v in kw.items():
        setattr(x, k, v)
        if k == "amount" and "value" not in kw:
            x.value = v
    return x


def oracle_selftest(ctx):
    """the oracle must reject plausible wrong outputs: ledger's own rows with one
    realistic defect planted (swapped ties, dropped row, off-by-one window, lost commodity)"""
    cases = {name: (j, c) for j, c, name in directed_cases()}
    j, comms = cases["weekdays"]
    for f in ({}, {"acct": "Expenses"}):
        oracle_selftest_one(ctx, j, comms, f)


def oracle_selftest_one(ctx, j, comms, f):
    regs = ["subtotal", "collapse", "bypayee", "dow", "depth:1", "depth:2", "subtotal+depth:1", "bypayee+collapse", "dow+depth:1"]
    text, recs = run_journal(copy.deepcopy(j), comms, [f], ["plain", "sort:date", "sort:amount", "sort:-amount", "sortx:-account",
                                                            "head:2", "tail:2", "head:1+tail:1", "head:-1", "tail:-2",
                                                            "bypayee+head:1"] + regs, model=False)
    by = {rc["opt"]: rc for rc in recs}
    plain = by["plain"]["ledger"][1]
    muts = []

    def rows(o):
        return [clone(r) for r in by[o]["ledger"][1]]
    r = rows("sort:date"); r[0], r[1] = r[1], r[0]; muts.append(("sort:date", "swapped-tie", r))
    r = rows("sort:amount"); r[0], r[-1] = r[-1], r[0]; muts.append(("sort:amount", "swapped-order", r))
    r = rows("sort:-amount"); r[1], r[2] = r[2], r[1]; muts.append(("sort:-amount", "swapped-neighbours", r))
    r = rows("sort:date"); del r[3]; muts.append(("sort:date", "dropped-row", r))
    r = rows("sort:date"); r[2] = clone(r[2], amount=bump(r[2].amount)); muts.append(("sort:date", "altered-amount", r))
    r = rows("sortx:-account"); r[0], r[1] = r[1], r[0]; muts.append(("sortx:-account", "swapped-in-transaction", r))
    k = len(groups_by_xact(plain)[0])
    r = rows("sortx:-account"); r[k - 1], r[k] = r[k], r[k - 1]; muts.append(("sortx:-account", "swapped-across-transactions", r))
    r = rows("head:2"); del r[-1]; muts.append(("head:2", "one-row-short", r))
    r = rows("head:2"); r.append(clone(plain[len(r)])); muts.append(("head:2", "one-row-long", r))
    r = rows("head:2"); r = r[len(r) // 2:]; muts.append(("head:2", "second-transaction-only", r))
    r = rows("tail:2"); r.insert(0, clone(plain[len(plain) - len(r) - 1])); muts.append(("tail:2", "one-row-long", r))
    r = rows("tail:2"); r = r[:len(r) // 2]; muts.append(("tail:2", "one-transaction-short", r))
    r = rows("head:1+tail:1"); r = r[:len(r) // 2]; muts.append(("head:1+tail:1", "tail-part-missing", r))
    r = rows("head:1+tail:1"); r = r[len(r) // 2:]; muts.append(("head:1+tail:1", "head-part-missing", r))
    r = rows("head:-1"); r = [clone(x) for x in plain]; muts.append(("head:-1", "nothing-dropped", r))
    r = rows("tail:-2"); r = [clone(x) for x in plain][:-k]; muts.append(("tail:-2", "only-one-dropped", r))
    r = rows("bypayee+head:1"); r = r + [clone(r[-1])]; muts.append(("bypayee+head:1", "one-row-long", r))
    for o in regs:
        r = rows(o); r[0] = clone(r[0], amount=bump(r[0].amount)); muts.append((o, "altered-first-amount", r))
        r = rows(o); del r[-1]; muts.append((o, "dropped-last-row", r))
        r = rows(o)
        kk = [i for i, x in enumerate(r) if drop_comp(x.amount)]
        if kk:
            r[kk[0]] = clone(r[kk[0]], amount=drop_comp(r[kk[0]].amount)); muts.append((o, "lost-second-commodity", r))
        r = rows(o); r[-1] = clone(r[-1], total=bump(r[-1].total)); muts.append((o, "altered-grand-total", r))
        r = rows(o); r.append(clone(r[0])); muts.append((o, "duplicated-row", r))
        if o.startswith("depth") and len(r) >= 2:
            r = rows(o)
            g = [i for i in range(len(r) - 1) if r[i].payee == r[i + 1].payee and r[i].day == r[i + 1].day and r[i].account != r[i + 1].account]
            if g:
                i = g[0]
                a, b = r[i], r[i + 1]
                # the two rows of one transaction in the other order, running totals recomputed
                before = den(r[i - 1].total) if i else {}
                nb = clone(b, total="B:" + ";".join("%d/%d:0:0:%s" % (q.numerator, q.denominator, c) for c, q in sorted(dsum([before, den(b.value)]).items())))
                na = clone(a, total=b.total)
                r[i], r[i + 1] = nb, na
                muts.append((o, "rows-of-a-transaction-out-of-name-order", r))
    r = rows("plain"); r[3] = clone(r[3], total=bump(r[3].total)); muts.append(("plain", "altered-running-total", r))
    for o, name, r in muts:
        ctx.count()
        ctx.feature("oracle-selftest")
        ctx.feature("oracle-selftest:" + name)
        if oracle(plain, o, ("ok", r)) is None:
            ctx.tie_broken("oracle:insensitive:%s:%s" % (o, name), "the oracle accepts a wrong %s output (%s)" % (o, name))
    # the unmodified outputs are accepted (the two known defects aside)
    for o, rc in by.items():
        e = oracle(plain, o, rc["ledger"])
        if e is not None and fingerprint(o, plain, f) not in (EXPR_FP, ZERO_FP):
            ctx.tie_broken("oracle:selftest-base:" + o, e)


def malformed(ctx):
    """malformed stream: the driver refuses ill-formed ops; an unbalanced journal yields no regrouped rows"""
    j = {"xacts": [{"date": 18262, "aux": None, "state": 0, "code": "", "payee": "p", "note": "", "posts": [
        {"account": "A", "kind": "real", "state": 0, "amount": jgen.amt(1, jgen.STD_COMMS[0]), "cost": None, "assert": None, "note": ""},
        {"account": "B", "kind": "real", "state": 0, "amount": None, "cost": None, "assert": None, "note": ""}]}]}
    js = json.dumps(j)
    lines = ["regroup.run\t%s\treal=0,cleared=0,acct=\tplain" % js,          # elided amount: refused
             "regroup.run\t{\"xacts\": 3}\treal=0,cleared=0,acct=\tplain",
             "regroup.run\t%s\treal=2\tplain" % js,
             "regroup.run\t%s\treal=0,cleared=0,acct=\tsort:" % js,
             "regroup.run\t%s\treal=0,cleared=0,acct=\tsort:colour" % js,
             "regroup.run\t%s\treal=0,cleared=0,acct=\thead:x" % js,
             "regroup.run\t%s\treal=0,cleared=0,acct=\tsubtotal+" % js,
             "regroup.run\t%s\treal=0,cleared=0,acct=\t" % js,
             "regroup.run\t%s" % js,
             "regroup.rows\tplain\t1|1|18262|0|p|A|A:1/1:2:0:$",              # a row with a field missing
             "regroup.rows\tplain\t1|1|18262|0|p|A|X:1|A:1/1:2:0:$",          # not a value
             "regroup.rows\tdepth:x",
             "regroup.swo\t%s\treal=0,cleared=0,acct=\t" % js]
    want = ["err\telided", "err\tbad-json"] + ["err\tbad-op"] * 11
    got = vflib.driver_run(lines)
    for l, w, g in zip(lines, want, got):
        ctx.count()
        if w != g:
            ctx.tie_broken("corr:regroup:malformed", "driver answered %r to %r (expected %r)" % (g, l[:80], w))
    bad = "2020/01/01 p\n    A  $1.00\n    B  $-2.00\n\n2020/01/02 q\n    A  $1.00\n    B\n"
    path = jgen.write_tmp(bad)
    try:
        for opt in ["plain", "sort:amount", "sortx:amount", "head:1", "tail:1", "head:1+tail:1", "subtotal", "collapse", "bypayee", "dow",
                    "depth:1", "bypayee+subtotal"]:
            ctx.count()
            r = run_ledger(path, {}, opt)
            ctx.feature("malformed-journal")
            if r[0] == "ok":
                ctx.violation("C17:rows-from-unbalanced-journal", "an unbalanced journal yields rows under " + opt,
                              {"journal": bad, "opt": opt})
    finally:
        os.unlink(path)


def replay(obj):
    r = obj.get("replay", {})
    if "journal" not in r or "args" not in r:
        print(json.dumps(obj, indent=1)[:3000])
        return 1
    vflib.ensure_ledger()
    path = jgen.write_tmp(r["journal"])
    try:
        f, opt = r.get("filter", {}), r["opt"]
        plain = run_ledger(path, f, "plain")
        res = run_ledger(path, f, opt)
    finally:
        os.unlink(path)
    print(r["journal"])
    print("option:", opt, "filter:", f)
    for name, x in (("plain", plain), (opt, res)):
        print("--", name)
        if x[0] == "ok":
            for row in x[1]:
                print("  ", row.text())
        else:
            print("  ", x)
    if plain[0] != "ok":
        print("plain register fails now")
        return 1
    e = oracle(plain[1], opt, res)
    print("oracle:", e or "holds")
    return 1 if e else 0
