"""C17 — sorting and regrouping options only reorder or merge postings.

Theorems: lean/LedgerModel/Props/C17.lean over Model/Regroup.lean (sort_posts /
compare_items / sort_value_is_less_than, truncate_xacts, collapse_posts,
subtotal_posts, by_payee_posts, day_of_week_posts, calc_posts).
Tie: (a) Gen/Regroup.lean re-extracted from filters.cc/.h, compare.cc, value.cc,
post.cc, chain.cc on every run (tools/extract_regroup.py): the truncation
comparisons, the sort algorithm and the `.simplified()` of sort keys are
interpreted into the model, the mirrored function bodies and the handler order
are pinned by `rfl`; (b) driver op regroup.run against paired
`ledger reg --empty --format …` runs (plain vs option) on generated journals.
Oracle (plain Python on ledger's own rows, Fractions): permutation / ordered by
key / ties in plain order for --sort; first / last N transaction groups for
--head / --tail; per-group and grand-total per-commodity sums for --subtotal,
--collapse, --by-payee, --dow, --depth.
"""
import os, sys, re, json, copy, datetime, tempfile, itertools
from fractions import Fraction
import vflib, jgen
from vflib import Check

MANIFEST = dict(
    text="Machine-checked proof (Lean 4, 27 theorems, every posting list, no size bound) about a model of ledger's sort_posts / compare_items, truncate_xacts, collapse_posts, "
         "subtotal_posts, by_payee_posts and day_of_week_posts handlers, for all posting lists: --sort yields a permutation that is "
         "ordered by the key with ties in input order (and is the only such arrangement) whenever the key comparison is a strict weak "
         "order, which is proved for date, payee, account and single-commodity amount keys, for amounts that all carry a commodity, "
         "and for compound keys; the --head/--tail window logic equals take N / drop (len-N) on the transaction groups for every N>=0; "
         "every --subtotal/--collapse/--by-payee/--dow/--depth row and the grand total equal the per-commodity sums of the member "
         "postings. The window comparisons, the sort algorithm and the handler bodies are re-extracted from the source on every run, "
         "the model is run against the rebuilt binary on paired reg runs, and an independent Fraction oracle on ledger's own rows "
         "supplies the failing input.",
    note="Modelled, not verified: std::stable_sort is a stable sort (the model's merge sort is proved to be the unique stable "
         "arrangement, so the algorithm does not matter when the comparison is a strict weak order); --depth rows are compared as a "
         "set per transaction (their address order is C19's finding); amounts with costs/lots, elided amounts (oracle only), "
         "--sort-xacts, negative N and combinations of two regrouping options are outside the model; --subtotal/--by-payee/--dow "
         "refuse (error, modelled) an account that has both virtual and real postings. Finding (C17.sort_ordered_everywhere_false, "
         "replayed on the binary): the amount sort key is not a strict weak order when a zero amount (or an amount without "
         "commodity) meets two commodities, so `--sort amount` output is then not ordered by the key.",
    technique="Lean 4 proof over a hand-written model + regenerated comparison operators/bodies + differential model/binary check + Fraction oracle",
    ref="DESIGN.md §5 C17")

FMT = "%(beg_line)|%(xact.beg_line)|%(date)|%(virtual ? 1 : 0)|%(payee)|%(account)|%(verif_rational(amount))|%(verif_rational(total))\n"
EPOCH = datetime.date(1970, 1, 1)
ZERO_FP = "C17:compare.cc:push_sort_value:zero-or-bare-amount-key"

SORT_KEYS = ["date", "-date", "payee", "-payee", "account", "-account", "amount", "-amount", "date,-amount", "payee,account",
             "-date,amount", "account,-payee,amount"]


# ---------------------------------------------------------------------------
# ledger side


class Row:
    __slots__ = ("line", "xline", "day", "virt", "payee", "account", "amount", "total")

    def __init__(self, line, xline, day, virt, payee, account, amount, total):
        self.line, self.xline, self.day, self.virt = line, xline, day, virt
        self.payee, self.account, self.amount, self.total = payee, account, amount, total

    def ident(self):
        return (self.line, self.xline, self.day, self.payee, self.account, self.amount)

    def full(self):
        return self.ident() + (self.total,)

    def text(self):
        return "%d|%d|%d|%s|%s|%s|%s" % self.full()


def parse_rows(out):
    rows = []
    for ln in out.split("\n"):
        if not ln:
            continue
        parts = ln.split("|")
        if len(parts) != 8:
            return None
        y, m, d = parts[2].split("/")
        day = (datetime.date(int(y), int(m), int(d)) - EPOCH).days
        rows.append(Row(int(parts[0]), int(parts[1]), day, parts[3] == "1", parts[4], parts[5], parts[6], parts[7]))
    return rows


def den(v):
    """verif_rational text -> {commodity: Fraction} without zero entries."""
    tag, _, rest = v.partition(":")
    if tag == "I":
        n = int(rest)
        return {"": Fraction(n)} if n else {}
    if tag == "A":
        parts = [rest]
    elif tag == "B":
        parts = rest.split(";") if rest else []
    elif tag == "N":
        return {}
    else:
        raise ValueError("not a numeric value: " + v)
    d = {}
    for p in parts:
        q, prec, keep, comm = p.split(":", 3)
        n, dd = q.split("/")
        f = Fraction(int(n), int(dd))
        d[comm] = d.get(comm, 0) + f
    return {c: q for c, q in d.items() if q != 0}


def dsum(ds):
    r = {}
    for d in ds:
        for c, q in d.items():
            r[c] = r.get(c, 0) + q
    return {c: q for c, q in r.items() if q != 0}


def single(v):
    """(commodity, Fraction) of an AMOUNT rendering, keeping a zero quantity."""
    tag, _, rest = v.partition(":")
    if tag == "I":
        return ("", Fraction(int(rest)))
    if tag != "A":
        return None
    q, prec, keep, comm = rest.split(":", 3)
    n, dd = q.split("/")
    return (comm, Fraction(int(n), int(dd)))


def filter_args(f):
    a = []
    if f.get("real"):
        a.append("--real")
    if f.get("cleared"):
        a.append("--cleared")
    if f.get("acct"):
        a.append(f["acct"])
    return a


def filter_spec(f):
    return "real=%d,cleared=%d,acct=%s" % (1 if f.get("real") else 0, 1 if f.get("cleared") else 0, f.get("acct") or "")


def opt_args(opt):
    k, _, v = opt.partition(":")
    if k == "plain":
        return []
    if k == "sort":
        return ["--sort", v]
    if k in ("head", "tail"):
        return ["--" + k, v]
    if k == "depth":
        return ["--depth", v]
    return {"subtotal": ["--subtotal"], "collapse": ["--collapse"], "bypayee": ["--by-payee"], "dow": ["--dow"]}[k]


def run_ledger(path, f, opt):
    """-> ('ok', rows) | ('err', kind, text)"""
    rc, out, err = vflib.ledger_run(["-f", path, "reg", "--empty", "--format", FMT] + opt_args(opt) + filter_args(f))
    if rc != 0 or err.strip():
        kind = "virt-mix" if "cannot accept virtual and non-virtual postings to the same account" in err else \
               (vflib.err_kind(err) or ("rc=%s" % rc))
        return ("err", kind, err.strip()[-400:])
    rows = parse_rows(out)
    if rows is None:
        return ("err", "unparsable", out[-400:])
    return ("ok", rows)


# ---------------------------------------------------------------------------
# the oracle: the property as a relation between ledger's plain rows and its rows under an option


def amount_less(x, y):
    """ledger's comparison of two posting amounts used as sort keys, restated from
    its documentation/behaviour: numerically when the commodities agree or one
    side is zero or has no commodity (a zero is just the number 0), otherwise by
    commodity symbol."""
    (cx, qx), (cy, qy) = x, y
    if cx == cy or qx == 0 or qy == 0 or cx == "" or cy == "":
        return qx < qy
    return cx.encode() < cy.encode()


def key_less_fn(keyspec):
    """Strict order 'row a sorts before row b' for a --sort key list: dates by
    calendar, payee/account as byte strings, amounts by amount_less; a leading
    '-' reverses that key; later keys break ties."""
    keys = []
    for k in keyspec.split(","):
        inv = k.startswith("-")
        keys.append((k.lstrip("-"), inv))

    def lt(name, a, b):
        if name == "date":
            return a.day < b.day
        if name == "payee":
            return a.payee.encode() < b.payee.encode()
        if name == "account":
            return a.account.encode() < b.account.encode()
        x, y = single(a.amount), single(b.amount)
        if x is None or y is None:
            return False
        return amount_less(x, y)

    def less(a, b):
        for name, inv in keys:
            if lt(name, a, b):
                return not inv
            if lt(name, b, a):
                return inv
        return False
    return less


def is_swo(rows, less):
    """asymmetric and negatively transitive on these rows"""
    n = len(rows)
    m = [[less(a, b) for b in rows] for a in rows]
    for i in range(n):
        for j in range(n):
            if m[i][j] and m[j][i]:
                return False
    for i in range(n):
        for j in range(n):
            if m[i][j]:
                continue
            for k in range(n):
                if not m[j][k] and m[i][k]:
                    return False
    return True


def check_totals(rows, what):
    """running total = cumulative per-commodity sum of the amounts, row by row"""
    acc = {}
    for i, r in enumerate(rows):
        acc = dsum([acc, den(r.amount)])
        if den(r.total) != acc:
            return "%s: running total of row %d (%s) is %s, the amounts so far sum to %s" % (what, i, r.text(), r.total, fmt_den(acc))
    return None


def fmt_den(d):
    return "{" + ", ".join("%s: %s" % (c or '""', q) for c, q in sorted(d.items())) + "}"


def groups_by_xact(rows):
    gs = []
    for r in rows:
        if gs and gs[-1][0].xline == r.xline:
            gs[-1].append(r)
        else:
            gs.append([r])
    return gs


def weekday(day):
    return (EPOCH + datetime.timedelta(days=day)).isoweekday() % 7   # 0 = Sunday


def depth_account(acct, n):
    return ":".join(acct.split(":")[:n])


def virt_mixed(rows, keyf):
    seen = {}
    for r in rows:
        k = keyf(r)
        if k in seen and seen[k] != r.virt:
            return True
        seen.setdefault(k, r.virt)
    return False


def oracle(plain, opt, res):
    """None when the rows `res` ledger printed under `opt` stand in the relation
    the property demands to the rows `plain` of the plain register, else a
    description of the first discrepancy."""
    k, _, v = opt.partition(":")
    if res[0] == "err":
        if res[1] == "virt-mix" and k in ("subtotal", "bypayee", "dow"):
            keyf = {"subtotal": lambda r: r.account, "bypayee": lambda r: (r.payee, r.account),
                    "dow": lambda r: (weekday(r.day), r.account)}[k]
            if virt_mixed(plain, keyf):
                return None          # the documented refusal
            return "%s refused (%s) although no account mixes virtual and real postings" % (opt, res[1])
        return "%s failed with %s although the plain register succeeds: %s" % (opt, res[1], res[2])
    rows = res[1]
    if k == "plain":
        return check_totals(rows, "plain")
    if k == "sort":
        if sorted(r.ident() for r in rows) != sorted(r.ident() for r in plain):
            return "--sort %s: rows are not a permutation of the plain register's rows" % v
        pos = {}
        for i, r in enumerate(plain):
            pos.setdefault(r.ident(), []).append(i)
        idx = []
        used = {}
        for r in rows:
            n = used.get(r.ident(), 0)
            idx.append(pos[r.ident()][n])
            used[r.ident()] = n + 1
        less = key_less_fn(v)
        for i in range(len(rows)):
            for j in range(i + 1, len(rows)):
                if less(rows[j], rows[i]):
                    return "--sort %s: row %d (%s) comes before row %d (%s) although the second sorts first" % (
                        v, i, rows[i].text(), j, rows[j].text())
                if not less(rows[i], rows[j]) and idx[i] > idx[j]:
                    return "--sort %s: rows %d (%s) and %d (%s) tie on the key but are not in input order" % (
                        v, i, rows[i].text(), j, rows[j].text())
        return check_totals(rows, "--sort " + v)
    if k in ("head", "tail"):
        n = int(v)
        gs = groups_by_xact(plain)
        keep = gs[:n] if k == "head" else (gs[len(gs) - n:] if n < len(gs) else gs)
        if n == 0:
            keep = []
        want = [r.full() for g in keep for r in g]
        got = [r.full() for r in rows]
        if want != got:
            return "--%s %d: expected the %s %d of %d transactions (%d rows), got %d rows" % (
                k, n, "first" if k == "head" else "last", min(n, len(gs)), len(gs), len(want), len(got))
        return None
    # regrouping: (group key of a plain row) -> expected sums; rows are matched by their key
    if k == "collapse":
        gs = groups_by_xact(plain)
        if len(rows) != len(gs):
            return "--collapse: %d rows for %d transactions" % (len(rows), len(gs))
        for g, r in zip(gs, rows):
            if len(g) == 1:
                if r.ident() != g[0].ident():
                    return "--collapse: single-posting transaction at line %d is not passed through: %s" % (g[0].xline, r.text())
            else:
                want = dsum(den(x.amount) for x in g)
                if den(r.amount) != want or r.payee != g[-1].payee or r.day != min(x.day for x in g):
                    return "--collapse: transaction at line %d: row %s, members sum to %s" % (g[0].xline, r.text(), fmt_den(want))
    elif k == "depth":
        n = int(v)
        gs = groups_by_xact(plain)
        i = 0
        for g in gs:
            want = {}
            for x in g:
                a = depth_account(x.account, n) if n > 0 else "<Total>"
                want[a] = dsum([want.get(a, {}), den(x.amount)])
            chunk = rows[i:i + len(want)]
            i += len(want)
            got = {}
            for r in chunk:
                if r.account in got:
                    return "--depth %d: transaction at line %d: account %s reported twice" % (n, g[0].xline, r.account)
                got[r.account] = den(r.amount)
            if got != want:
                return "--depth %d: transaction at line %d: rows %s, members sum to %s" % (
                    n, g[0].xline, {a: fmt_den(d) for a, d in got.items()}, {a: fmt_den(d) for a, d in want.items()})
        if i != len(rows):
            return "--depth %d: %d rows, expected %d" % (n, len(rows), i)
    else:
        keyf = {"subtotal": lambda r: ("", r.account), "bypayee": lambda r: (r.payee, r.account),
                "dow": lambda r: (weekday(r.day), r.account)}[k]
        want = {}
        for x in plain:
            want[keyf(x)] = dsum([want.get(keyf(x), {}), den(x.amount)])
        names = ["Sundays", "Mondays", "Tuesdays", "Wednesdays", "Thursdays", "Fridays", "Saturdays"]
        got = {}
        for r in rows:
            if k == "subtotal":
                key = ("", r.account)
            elif k == "bypayee":
                key = (r.payee, r.account)
            else:
                if r.payee not in names:
                    return "--dow: unexpected title %r" % r.payee
                key = (names.index(r.payee), r.account)
            if key in got:
                return "--%s: group %s reported twice" % (k, key)
            got[key] = den(r.amount)
        if got != want:
            bad = [kk for kk in set(got) | set(want) if got.get(kk) != want.get(kk)]
            kk = sorted(bad, key=str)[0]
            return "--%s: group %s: ledger reports %s, the member postings sum to %s" % (
                k, kk, fmt_den(got[kk]) if kk in got else "nothing", fmt_den(want[kk]) if kk in want else "nothing (no member)")
    e = check_totals(rows, "--" + k)
    if e:
        return e
    grand = dsum(den(x.amount) for x in plain)
    last = den(rows[-1].total) if rows else {}
    if last != grand:
        return "--%s: grand total %s differs from the sum of the plain register %s" % (k, fmt_den(last), fmt_den(grand))
    return None


# ---------------------------------------------------------------------------
# canonical forms for the tie (model rows vs ledger rows)


def canon_rows(rows_text, opt, plain_groups=None):
    """rows as text lines; for --depth the rows of one transaction are sorted by
    account and only the last running total of each transaction is kept (the
    order inside a transaction is the address order of filters.h:431)."""
    if not opt.startswith("depth"):
        return rows_text
    out = []
    i = 0
    for size in plain_groups:
        chunk = rows_text[i:i + size]
        i += size
        last_total = fmt_den(den(chunk[-1].rsplit("|", 1)[1])) if chunk else ""
        body = sorted(c.rsplit("|", 1)[0] for c in chunk)
        out += body + ["total=" + last_total]
    out += rows_text[i:]
    return out


# ---------------------------------------------------------------------------
# generators


ACCTS = ["Assets:Bank:Checking", "Assets:Bank:Savings", "Assets:Cash", "Expenses:Food", "Expenses:Food:Out",
         "Expenses:Rent", "Income:Salary", "Liabilities:Card", "Equity"]


def fill_elided(j, comms):
    """replace an elided amount by the explicit balancing postings (one per commodity),
    so that every posting has its own line and the AST carries every amount"""
    cmap = {c.name: c for c in comms}
    for x in j["xacts"]:
        idx = [i for i, p in enumerate(x["posts"]) if p["amount"] is None]
        if not idx:
            continue
        res = {}
        for p in x["posts"]:
            if p["amount"] is not None and p["kind"] != "virtual":
                res[p["amount"]["comm"]] = res.get(p["amount"]["comm"], 0) + jgen.amt_q(p["amount"])
        i = idx[0]
        proto = x["posts"][i]
        new = [dict(proto, amount=jgen.amt(-q, cmap[c])) for c, q in sorted(res.items()) if q != 0]
        x["posts"][i:i + 1] = new
    j["xacts"] = [x for x in j["xacts"] if x["posts"]]


def has_elided(j):
    return any(p["amount"] is None for x in j["xacts"] for p in x["posts"])


def gen_journal(rng, ctx=None):
    mode = rng.choice(["virt-apart", "virt-apart", "virt-apart", "no-virt", "raw", "ties", "ties"])
    ncomm = rng.choice([1, 1, 2, 3])
    comms = rng.sample(jgen.STD_COMMS[:4], ncomm)
    kw = dict(p_elide=0.0, p_cost=0.0, p_aux=0.0, p_note=0.0, p_code=0.1, max_posts=rng.choice([2, 3, 5]),
              n_days=rng.choice([3, 10, 40, 700]), magnitudes=rng.choice([[5], [10, 1000], [10, 10 ** 6, 10 ** 9]]),
              p_multi=0.35, p_state=0.4)
    if mode == "no-virt":
        kw.update(p_virtual=0.0, p_bvirtual=0.0)
    g = jgen.Gen(rng, comms=comms, accounts=ACCTS[:rng.choice([3, 5, 9])], **kw)
    n = rng.choice([1, 2, 3, 4, 5, 6, 8])
    j = g.journal(n, sort_dates=rng.random() < 0.4)
    npay = rng.choice([1, 2, 4])
    for x in j["xacts"]:
        x["payee"] = "payee %d" % rng.randint(1, npay)
        if mode == "virt-apart":
            for p in x["posts"]:
                if p["kind"] != "real":
                    p["account"] = "Virt:" + p["account"].split(":", 1)[0]
    if mode == "ties":
        # few distinct dates, payees, accounts and quantities: most keys tie, compound keys tie in their first component
        d0 = j["xacts"][0]["date"]
        for x in j["xacts"]:
            x["date"] = d0 + rng.randint(0, 1)
            x["payee"] = "payee %d" % rng.randint(1, 2)
            c = rng.choice(comms)
            q = Fraction(rng.choice([1, 1, 2, 5]))
            k = rng.choice([1, 1, 2])
            accts = ACCTS[:3]
            x["posts"] = [{"account": rng.choice(accts), "kind": "real", "state": 0, "amount": jgen.amt(q, c), "cost": None,
                           "assert": None, "note": ""} for _ in range(k)] + \
                         [{"account": rng.choice(accts), "kind": "real", "state": 0, "amount": jgen.amt(-q, c), "cost": None,
                           "assert": None, "note": ""} for _ in range(k)]
            if rng.random() < 0.3:          # a transaction with a single (zero-sum impossible) posting pair collapsed to one virtual posting
                x["posts"] = [{"account": "Virt:One", "kind": "virtual", "state": 0, "amount": jgen.amt(q, c), "cost": None,
                               "assert": None, "note": ""}]
    if rng.random() < 0.85:
        fill_elided(j, comms)
    if rng.random() < 0.12:
        zero_amounts(rng, j, comms)
    return j, comms, mode


def zero_amounts(rng, j, comms):
    """a transaction with an explicit zero amount (keeps the balance)"""
    x = rng.choice(j["xacts"])
    c = rng.choice(comms)
    x["posts"].insert(rng.randint(0, len(x["posts"])),
                      {"account": rng.choice(ACCTS[:3]), "kind": "real", "state": 0, "amount": jgen.amt(0, c),
                       "cost": None, "assert": None, "note": ""})


def gen_filters(rng, j):
    fs = [{}]
    r = rng.random()
    accts = sorted({p["account"].split(":")[0] for x in j["xacts"] for p in x["posts"]})
    words = accts + ["Bank", "Food"]
    if r < 0.25:
        fs.append({"real": True})
    elif r < 0.5:
        fs.append({"cleared": True})
    elif r < 0.8:
        fs.append({"acct": rng.choice(words)})
    else:
        fs.append({"real": rng.random() < 0.5, "cleared": rng.random() < 0.5, "acct": rng.choice(words)})
    return fs


def options_for(j, rng, tier):
    n = len(j["xacts"])
    opts = ["plain"] + ["sort:" + k for k in SORT_KEYS]
    opts += ["head:%d" % i for i in range(0, n + 3)] + ["tail:%d" % i for i in range(0, n + 3)]
    opts += ["subtotal", "collapse", "bypayee", "dow"] + ["depth:%d" % i for i in range(0, 5)]
    return opts


# ---------------------------------------------------------------------------
# running one journal


def run_journal(j, comms, filters, opts, model=True):
    """-> list of records dict(filter, opt, ledger, plain, model?)"""
    text = jgen.render(j, comms)
    path = jgen.write_tmp(text)
    try:
        tasks = [(f, o) for f in filters for o in opts]
        res = vflib.pmap(lambda t: run_ledger(path, t[0], t[1]), tasks)
    finally:
        os.unlink(path)
    recs = []
    plain = {}
    for (f, o), r in zip(tasks, res):
        if o == "plain":
            plain[filter_spec(f)] = r
    for (f, o), r in zip(tasks, res):
        recs.append({"filter": f, "opt": o, "ledger": r, "plain": plain[filter_spec(f)]})
    if model:
        js = json.dumps(j)
        lines = ["regroup.run\t%s\t%s\t%s" % (js, filter_spec(rc["filter"]), rc["opt"]) for rc in recs]
        for rc, ans in zip(recs, vflib.driver_run(lines)):
            rc["model"] = ans
    return text, recs


def ledger_answer(rc):
    """canonical answer line of the implementation, comparable to the model's"""
    r = rc["ledger"]
    if r[0] == "err":
        return ["err", r[1]]
    return ["ok"] + [x.text() for x in r[1]]


def plain_group_sizes(rc):
    """rows per transaction the --depth N output must have (from the plain rows)"""
    k, _, v = rc["opt"].partition(":")
    if k != "depth" or rc["plain"][0] != "ok":
        return None
    n = int(v)
    return [len({(depth_account(x.account, n) if n > 0 else "<Total>") for x in g}) for g in groups_by_xact(rc["plain"][1])]


def ident_total_free(lines):
    return [l.rsplit("|", 1)[0] for l in lines]


# ---------------------------------------------------------------------------
# shrinking


def shrink(j, comms, f, opt, fails):
    """greedy removal of transactions, then of postings whose removal keeps the failure"""
    cur = copy.deepcopy(j)
    changed = True
    while changed:
        changed = False
        for i in range(len(cur["xacts"])):
            if len(cur["xacts"]) <= 1:
                break
            cand = {"xacts": cur["xacts"][:i] + cur["xacts"][i + 1:]}
            if fails(cand):
                cur = cand
                changed = True
                break
    # postings: drop one at a time, the transaction's remaining postings made (virtual) so that it still balances
    changed = True
    while changed:
        changed = False
        for xi, x in enumerate(cur["xacts"]):
            for pi in range(len(x["posts"])):
                if len(x["posts"]) <= 1:
                    break
                cand = copy.deepcopy(cur)
                del cand["xacts"][xi]["posts"][pi]
                for p in cand["xacts"][xi]["posts"]:
                    p["kind"] = "virtual"
                if fails(cand):
                    cur = cand
                    changed = True
                    break
            if changed:
                break
    return cur


def case_fails(j, comms, f, opt):
    o = opt
    k, _, v = opt.partition(":")
    text, recs = run_journal(copy.deepcopy(j), comms, [f], ["plain", o] if o != "plain" else ["plain"], model=False)
    rc = [r for r in recs if r["opt"] == o][0]
    if rc["plain"][0] != "ok":
        return None
    return oracle(rc["plain"][1], o, rc["ledger"])


def fingerprint(opt, plain):
    """site of a failure: the option; for --sort the key list, or the known
    zero/bare-amount defect when ledger's own comparison is not a strict weak
    order on exactly these rows (then no ordered arrangement exists at all)"""
    k, _, v = opt.partition(":")
    if k == "sort" and "amount" in v and plain is not None and not is_swo(plain, key_less_fn(v)):
        return ZERO_FP
    if k == "sort":
        return "C17:sort:" + v
    return "C17:" + k


def plain_rows_of(j, comms, f):
    text, recs = run_journal(copy.deepcopy(j), comms, [f], ["plain"], model=False)
    return recs[0]["ledger"][1] if recs[0]["ledger"][0] == "ok" else None


def report(ctx, j, comms, f, opt, what):
    def fails(cand):
        e = case_fails(cand, comms, f, opt)
        return e is not None
    small = shrink(j, comms, f, opt, fails)
    e = case_fails(small, comms, f, opt) or what
    text = jgen.render(copy.deepcopy(small), comms)
    args = ["reg", "--empty", "--format", FMT] + opt_args(opt) + filter_args(f)
    fp = fingerprint(opt, plain_rows_of(small, comms, f))
    ctx.violation(fp, e,
                  {"journal": text, "args": args, "plain_args": ["reg", "--empty", "--format", FMT] + filter_args(f),
                   "opt": opt, "filter": f, "oracle": e,
                   "how": "ledger -f J " + " ".join("'%s'" % a for a in args)})
    return fp


# ---------------------------------------------------------------------------


def directed_cases():
    """hand-written journals: the finding's witness, ties, equal keys, N beyond the count"""
    D, E, A = jgen.STD_COMMS[0], jgen.STD_COMMS[1], jgen.STD_COMMS[2]
    def post(acct, q, c, kind="real", state=0):
        return {"account": acct, "kind": kind, "state": state, "amount": jgen.amt(Fraction(q), c), "cost": None, "assert": None, "note": ""}
    def xact(day, payee, posts, state=0):
        return {"date": jgen.day_of(2020, 1, 1) + day, "aux": None, "state": state, "code": "", "payee": payee, "note": "", "posts": posts}
    cases = []
    # zero amount among two commodities, in two file orders (the comparator is not a strict weak order)
    cases.append(({"xacts": [xact(0, "p1", [post("A:a", -10, E), post("A:b", 0, D), post("A:c", 5, D), post("B:z", 10, E), post("B:y", -5, D)])]}, [D, E], "zero-mixed-1"))
    cases.append(({"xacts": [xact(0, "p1", [post("A:c", 5, D), post("A:b", 0, D), post("A:a", -10, E), post("B:z", 10, E), post("B:y", -5, D)])]}, [D, E], "zero-mixed-2"))
    # ties on every key
    cases.append(({"xacts": [xact(2, "same", [post("A:x", 1, D), post("A:x", 1, D), post("B", -2, D)]),
                             xact(2, "same", [post("A:x", 1, D), post("B", -1, D)], state=1),
                             xact(0, "same", [post("A:x", 1, D), post("B", -1, D)])]}, [D], "ties"))
    # one transaction, one posting pair, two commodities; weekdays spread
    cases.append(({"xacts": [xact(d, "p%d" % (d % 3), [post("Expenses:Food:Out", d + 1, D), post("Expenses:Food", 2, E), post("Assets:Cash", -(d + 1), D), post("Assets:Cash", -2, E)])
                             for d in range(9)]}, [D, E], "weekdays"))
    cases.append(({"xacts": [xact(0, "solo", [post("A", 0, D)])]}, [D], "single-zero"))
    # two-element lists, equal and unequal keys, ascending and descending
    cases.append(({"xacts": [xact(0, "p", [post("A", 1, D), post("B", -1, D)])]}, [D], "two"))
    cases.append(({"xacts": [xact(0, "p", [post("B", 1, D), post("B", -1, D)])]}, [D], "two-same-account"))
    cases.append(({"xacts": [xact(1, "q", [post("A", 1, D, kind="virtual")]), xact(0, "p", [post("A", 1, D, kind="virtual")])]}, [D], "two-singletons"))
    # every key equal on every posting (stability is all that orders them)
    cases.append(({"xacts": [xact(0, "p", [post("A", 1, D, kind="virtual")]) for _ in range(5)]}, [D], "all-equal"))
    # compound key tying in its first component, differing in the second; descending with ties
    cases.append(({"xacts": [xact(0, "p", [post("A", 3, D), post("A", 1, D), post("A", 2, D), post("A", 3, D), post("B", -9, D)]),
                             xact(0, "p", [post("A", 2, D), post("A", 3, D), post("B", -5, D)]),
                             xact(1, "p", [post("A", 3, D), post("B", -3, D)])]}, [D], "compound-ties"))
    # transactions of one posting each (groups of size 1) between larger ones
    cases.append(({"xacts": [xact(0, "a", [post("V:x", 1, D, kind="virtual")]),
                             xact(1, "b", [post("A:x", 2, D), post("A:y", 3, E), post("B", -2, D), post("B", -3, E)]),
                             xact(2, "c", [post("V:x", 4, E, kind="virtual")]),
                             xact(3, "d", [post("V:y", 5, D, kind="virtual")])]}, [D, E], "size-one-groups"))
    cases.append(({"xacts": [xact(0, "v", [post("A", 5, D), post("A", 1, D, kind="virtual"), post("B", -5, D)]),
                             xact(1, "w", [post("C", 5, D), post("B", -5, D)])]}, [D], "virt-mix"))
    return cases


def run(tier, seed):
    ctx = Check("C17", tier, seed)
    ctx.rule = ("journals of 1-8 balanced transactions (1-3 commodities, account trees of depth <= 3, real/virtual/balanced-virtual "
                "postings, states, dates in random order) x limit predicate (none, --real, --cleared, account word) x option "
                "(plain, 9 sort keys, --head/--tail N for N=0..count+2, --subtotal, --collapse, --by-payee, --dow, --depth 0..4); "
                "non-trivial = the option changes the rows (order, count or amounts) of a register with >= 2 rows; distinct by "
                "(journal text, predicate, option)")
    ctx.assumptions = ["std::stable_sort is a stable sort (the model's arrangement is proved unique, C17.sort_unique)",
                       "--depth rows compared per transaction as a set (address order, DESIGN §9-6, is C19's)",
                       "amounts carry no costs/lots; elided amounts are checked by the oracle only"]
    model_ok = ctx.prepare()
    rng = ctx.rng
    njournals = 60 if tier == "quick" else 1200
    if ctx.ties_broken:
        # a proof obligation / extractor / build broke: search mode - widen every stream, the oracle decides
        njournals *= 4
        ctx.extra_cov["search_mode"] = [t[0] for t in ctx.ties_broken]
    journals = [(j, c, "directed:" + name) for j, c, name in directed_cases()]
    cdir = os.path.join(vflib.ROOT, "corpus", "C17")
    if os.path.isdir(cdir):
        for fn in sorted(os.listdir(cdir)):
            if fn.endswith(".json"):
                with open(os.path.join(cdir, fn)) as f:
                    o = json.load(f)
                journals.insert(0, (o["journal"], [jgen.Commodity(**c) for c in o["comms"]], "corpus:" + fn))
    for i in range(njournals):
        j, comms, mode = gen_journal(rng)
        journals.append((j, comms, mode))
    seen_fp = set()
    for j, comms, mode in journals:
        filters = [{}] if mode.startswith("directed") else gen_filters(rng, j)
        if mode == "directed:virt-mix":
            filters = [{}, {"real": True}]
        opts = options_for(j, rng, tier)
        text, recs = run_journal(j, comms, filters, opts, model=model_ok)
        ctx.feature("mode:" + mode.split(":")[0])
        for rc in recs:
            ctx.count()
            opt, f = rc["opt"], rc["filter"]
            k = opt.partition(":")[0]
            if rc["plain"][0] != "ok":
                ctx.feature("plain-rejected")
                if rc["ledger"][0] == "ok" and rc["ledger"][1]:
                    ctx.violation("C17:rows-although-plain-fails", "plain register fails but %s prints rows" % opt,
                                  {"journal": text, "opt": opt, "filter": f})
                continue
            plain = rc["plain"][1]
            # --- tie: the model's rows are ledger's rows
            impl = ledger_answer(rc)
            mod = rc["model"].split("\t") if model_ok else impl
            sizes = plain_group_sizes(rc)
            ok_tie = True
            if mod[:2] == ["err", "elided"] and has_elided(j):
                ctx.feature("tie-skipped:elided-amounts(oracle only)")
                ok_tie = None
            elif impl[0] == "ok" and mod[0] == "ok":
                a, b = canon_rows(impl[1:], opt, sizes), canon_rows(mod[1:], opt, sizes)
                if a != b:
                    if k == "sort" and "amount" in opt and not is_swo(plain, key_less_fn(opt.partition(":")[2])):
                        # no stable arrangement exists for a comparison that is not a strict weak order:
                        # merge sort and libstdc++'s stable_sort may then differ; the oracle decides
                        ctx.feature("tie-skipped:not-strict-weak-order")
                        ok_tie = None
                    else:
                        ok_tie = False
            elif impl != mod[:2]:
                ok_tie = False
            if ok_tie is False:
                ctx.tie_broken("corr:regroup.run:" + k, "journal:\n%s\nfilter %s option %s\nledger: %s\nmodel:  %s" % (
                    text, f, opt, impl[:12], mod[:12]))
                ctx.extra_cov.setdefault("mismatches", [])
                if len(ctx.extra_cov["mismatches"]) < 5:
                    ctx.extra_cov["mismatches"].append({"journal": text, "filter": f, "opt": opt, "ledger": impl[:12], "model": mod[:12]})
            elif ok_tie:
                ctx.traces_validated += 1
            # --- oracle on ledger's own rows
            e = oracle(plain, opt, rc["ledger"])
            if e is not None:
                ctx.feature("oracle-failures")
                fp0 = fingerprint(opt, plain)
                ctx.feature("oracle-failure:" + fp0)
                if fp0 not in seen_fp and len(seen_fp) < 40:
                    seen_fp.add(fp0)
                    seen_fp.add(report(ctx, j, comms, f, opt, e))
            ctx.feature("opt:" + k)
            if rc["ledger"][0] == "err":
                ctx.feature("refused:" + rc["ledger"][1])
            elif len(plain) >= 2 and [r.full() for r in rc["ledger"][1]] != [r.full() for r in plain]:
                ctx.nontrivial((text, filter_spec(f), opt))
                if k == "sort":
                    ctx.feature("sort-reorders")
            if f:
                ctx.feature("filtered")
            if len({single(r.amount)[0] for r in plain if single(r.amount)}) >= 2:
                ctx.feature("multi-commodity")
        if model_ok and not has_elided(j):
            swo_tie(ctx, j, text, filters, recs)
        ctx.sample({"journal": text[:400], "options": len(opts), "filters": filters}, cap=3)
    oracle_selftest(ctx)
    if model_ok:
        malformed(ctx)
    return ctx.finish()


def guard_py(ks, rows):
    """the guard of C17.sortValueLess_swo restated on ledger's rows"""
    if "amount" not in ks:
        return True
    sing = [single(r.amount) for r in rows]
    if any(x is None or not r.amount.startswith("A:") for x, r in zip(sing, rows)):
        return False
    nz = [c for c, q in sing if q != 0 and c != ""]
    one = len(set(nz)) <= 1
    allc = all(q != 0 and c != "" for c, q in sing)
    return one or allc


def swo_tie(ctx, j, text, filters, recs):
    """is compare_items a strict weak order on these postings?  model verdict vs the Python restatement"""
    js = json.dumps(j)
    keys = ["amount", "date,-amount"]
    lines, want = [], []
    for f in filters:
        plain = [rc["plain"] for rc in recs if rc["filter"] is f][0]
        if plain[0] != "ok":
            continue
        for ks in keys:
            lines.append("regroup.swo\t%s\t%s\t%s" % (js, filter_spec(f), ks))
            want.append("ok\t%d\t%d" % (1 if is_swo(plain[1], key_less_fn(ks)) else 0, 1 if guard_py(ks, plain[1]) else 0))
    for l, w, g in zip(lines, want, vflib.driver_run(lines)):
        ctx.count()
        ctx.feature("swo:" + w[3])
        ctx.feature("swo-guard:" + w[-1])
        if g.startswith("ok") and g.split("\t")[2] == "1" and g.split("\t")[1] != "1":
            ctx.tie_broken("corr:regroup.swo:guard", "guard holds but the comparison is not a strict weak order: " + l[-200:])
        if w != g:
            ctx.tie_broken("corr:regroup.swo", "journal:\n%s\n%s: model %r, restated comparison %r" % (text, l.rsplit("\t", 2)[1:], g, w))
        else:
            ctx.traces_validated += 1


def bump(v):
    """a different value of the same shape: the first component's quantity plus one"""
    tag, _, rest = v.partition(":")
    if tag in ("A", "B") and rest:
        first, sep, others = rest.partition(";")
        q, tail = first.split(":", 1)
        n, d = q.split("/")
        return "%s:%d/%s:%s%s%s" % (tag, int(n) + int(d), d, tail, sep, others)
    return "A:1/1:0:0:ZZZ"


def drop_comp(v):
    """a balance that lost one of its non-zero components (None when it has fewer than two)"""
    tag, _, rest = v.partition(":")
    if tag != "B":
        return None
    comps = rest.split(";")
    nz = [c for c in comps if not c.startswith("0/")]
    if len(nz) < 2:
        return None
    comps.remove(nz[-1])
    return "B:" + ";".join(comps)


def clone(r, **kw):
    x = Row(r.line, r.xline, r.day, r.virt, r.payee, r.account, r.amount, r.total)
    for k, v in kw.items():
        setattr(x, k, v)
    return x


def oracle_selftest(ctx):
    """the oracle must reject plausible wrong outputs: ledger's own rows with one
    realistic defect planted (swapped ties, dropped row, off-by-one window, lost commodity)"""
    cases = {name: (j, c) for j, c, name in directed_cases()}
    j, comms = cases["weekdays"]
    for f in ({}, {"acct": "Expenses"}):
        oracle_selftest_one(ctx, j, comms, f)


def oracle_selftest_one(ctx, j, comms, f):
    text, recs = run_journal(copy.deepcopy(j), comms, [f], ["plain", "sort:date", "sort:amount", "sort:-amount", "head:2", "tail:2",
                                                            "subtotal", "collapse", "bypayee", "dow", "depth:1", "depth:2"], model=False)
    by = {rc["opt"]: rc for rc in recs}
    plain = by["plain"]["ledger"][1]
    muts = []

    def rows(o):
        return [clone(r) for r in by[o]["ledger"][1]]
    r = rows("sort:date"); r[0], r[1] = r[1], r[0]; muts.append(("sort:date", "swapped-tie", r))
    r = rows("sort:amount"); r[0], r[-1] = r[-1], r[0]; muts.append(("sort:amount", "swapped-order", r))
    r = rows("sort:-amount"); r[1], r[2] = r[2], r[1]; muts.append(("sort:-amount", "swapped-neighbours", r))
    r = rows("sort:date"); del r[3]; muts.append(("sort:date", "dropped-row", r))
    r = rows("sort:date"); r[2] = clone(r[2], amount=bump(r[2].amount)); muts.append(("sort:date", "altered-amount", r))
    r = rows("head:2"); del r[-1]; muts.append(("head:2", "one-row-short", r))
    r = rows("head:2"); r.append(clone(plain[len(r)])); muts.append(("head:2", "one-row-long", r))
    r = rows("head:2"); r = r[len(r) // 2:]; muts.append(("head:2", "second-transaction-only", r))
    r = rows("tail:2"); r.insert(0, clone(plain[len(plain) - len(r) - 1])); muts.append(("tail:2", "one-row-long", r))
    r = rows("tail:2"); r = r[:len(r) // 2]; muts.append(("tail:2", "one-transaction-short", r))
    for o in ["subtotal", "collapse", "bypayee", "dow", "depth:1", "depth:2"]:
        r = rows(o); r[0] = clone(r[0], amount=bump(r[0].amount)); muts.append((o, "altered-first-amount", r))
        r = rows(o); del r[-1]; muts.append((o, "dropped-last-row", r))
        r = rows(o)
        k = [i for i, x in enumerate(r) if drop_comp(x.amount)]
        if k:
            r[k[0]] = clone(r[k[0]], amount=drop_comp(r[k[0]].amount)); muts.append((o, "lost-second-commodity", r))
        r = rows(o); r[-1] = clone(r[-1], total=bump(r[-1].total)); muts.append((o, "altered-grand-total", r))
        r = rows(o); r.append(clone(r[0])); muts.append((o, "duplicated-row", r))
    r = rows("plain"); r[3] = clone(r[3], total=bump(r[3].total)); muts.append(("plain", "altered-running-total", r))
    for o, name, r in muts:
        ctx.count()
        ctx.feature("oracle-selftest")
        ctx.feature("oracle-selftest:" + name)
        if oracle(plain, o, ("ok", r)) is None:
            ctx.tie_broken("oracle:insensitive:%s:%s" % (o, name), "the oracle accepts a wrong %s output (%s)" % (o, name))
    # the unmodified outputs are accepted
    for o, rc in by.items():
        e = oracle(plain, o, rc["ledger"])
        if e is not None:
            ctx.tie_broken("oracle:selftest-base:" + o, e)


def malformed(ctx):
    """malformed stream: the driver refuses ill-formed ops; an unbalanced journal yields no regrouped rows"""
    j = {"xacts": [{"date": 18262, "aux": None, "state": 0, "code": "", "payee": "p", "note": "", "posts": [
        {"account": "A", "kind": "real", "state": 0, "amount": jgen.amt(1, jgen.STD_COMMS[0]), "cost": None, "assert": None, "note": ""},
        {"account": "B", "kind": "real", "state": 0, "amount": None, "cost": None, "assert": None, "note": ""}]}]}
    js = json.dumps(j)
    lines = ["regroup.run\t%s\treal=0,cleared=0,acct=\tplain" % js,          # elided amount: refused
             "regroup.run\t{\"xacts\": 3}\treal=0,cleared=0,acct=\tplain",
             "regroup.run\t%s\treal=2\tplain" % js,
             "regroup.run\t%s\treal=0,cleared=0,acct=\tsort:" % js,
             "regroup.run\t%s\treal=0,cleared=0,acct=\tsort:colour" % js,
             "regroup.run\t%s\treal=0,cleared=0,acct=\thead:x" % js,
             "regroup.run\t%s" % js,
             "regroup.swo\t%s\treal=0,cleared=0,acct=\t" % js]
    want = ["err\telided", "err\tbad-json", "err\tbad-op", "err\tbad-op", "err\tbad-op", "err\tbad-op", "err\tbad-op", "err\tbad-op"]
    got = vflib.driver_run(lines)
    for l, w, g in zip(lines, want, got):
        ctx.count()
        if w != g:
            ctx.tie_broken("corr:regroup.run:malformed", "driver answered %r to %r (expected %r)" % (g, l[:80], w))
    bad = "2020/01/01 p\n    A  $1.00\n    B  $-2.00\n\n2020/01/02 q\n    A  $1.00\n    B\n"
    path = jgen.write_tmp(bad)
    try:
        for opt in ["plain", "sort:amount", "head:1", "tail:1", "subtotal", "collapse", "bypayee", "dow", "depth:1"]:
            ctx.count()
            r = run_ledger(path, {}, opt)
            ctx.feature("malformed-journal")
            if r[0] == "ok":
                ctx.violation("C17:rows-from-unbalanced-journal", "an unbalanced journal yields rows under " + opt,
                              {"journal": bad, "opt": opt})
    finally:
        os.unlink(path)


def replay(obj):
    r = obj.get("replay", {})
    if "journal" not in r or "args" not in r:
        print(json.dumps(obj, indent=1)[:3000])
        return 1
    vflib.ensure_ledger()
    path = jgen.write_tmp(r["journal"])
    try:
        f, opt = r.get("filter", {}), r["opt"]
        plain = run_ledger(path, f, "plain")
        res = run_ledger(path, f, opt)
    finally:
        os.unlink(path)
    print(r["journal"])
    print("option:", opt, "filter:", f)
    for name, x in (("plain", plain), (opt, res)):
        print("--", name)
        if x[0] == "ok":
            for row in x[1]:
                print("  ", row.text())
        else:
            print("  ", x)
    if plain[0] != "ok":
        print("plain register fails now")
        return 1
    e = oracle(plain[1], opt, res)
    print("oracle:", e or "holds")
    return 1 if e else 0
