"""C18 — machine-readable outputs (csv, xml, emacs) are well-formed and faithful.

Theorems: lean/LedgerModel/Props/C18.lean (escaping functions built from the
tables re-extracted from report.cc / emacs.cc / boost's xml writer; round trips
through the conventional readers for arbitrary strings and documents).
Tie: tools/extract_emit.py -> Gen/Emit.lean, and this differential check: the
model's `ledgerCsvRow`, `emacsDoc`, `xmlEscape` must equal, byte for byte, what
the rebuilt binary writes for the same field values, and the model's readers
must agree with Python's csv / ElementTree / the S-expression reader below on
ledger's own output and on a malformed stream.
Oracle (independent of the Lean model): every csv / xml / emacs report is parsed
with Python's `csv` module, `xml.etree.ElementTree` and a small S-expression
reader; the dates, codes, payees, accounts, commodities, quantities, states and
notes read back must equal what the register prints for the same query through
a plain format string (`verif_rational` for quantities).
"""
import os, re, csv, json, shutil, tempfile, calendar, subprocess, hashlib
import xml.etree.ElementTree as ET
from fractions import Fraction
import vflib
from vflib import Check

MANIFEST = dict(
    text="Machine-checked proof (Lean 4) that the escaping layers of ledger's csv, xml and emacs reports round-trip every string: "
         "quoted_rfc() documents through an RFC 4180 reader, the shipped csv report through the reader of its own dialect "
         "(full statement conditional on a flag computed from the extracted source, negation proved on the payee `a\\` while "
         "quoted() leaves backslashes unescaped, partial theorem for backslash-free fields), XML character data through the five "
         "entities (no raw markup survives), emacs strings through a Lisp string reader, and the whole emacs report is a balanced "
         "s-expression for any field contents. Escape tables, the csv row template and the list of escaped emacs operands are "
         "re-extracted from report.cc/report.h/emacs.cc/ptree.cc (and boost's xml writer header) on every run; the model's bytes are "
         "compared with the rebuilt binary's on journals sweeping every ASCII punctuation character and eight scripts through "
         "payees, codes, accounts, notes, commodities and file names; an independent oracle parses ledger's output with Python's "
         "csv, ElementTree and an S-expression reader and compares every field with the register.",
    note="Modelled, not verified: boost::property_tree's XML writer (its entity table is read from the installed header and its "
         "behaviour checked by correspondence); the journal reader (fields are taken from ledger's own register, so a field the "
         "grammar rewrites is compared as ledger sees it). Readers are restricted to fully quoted csv / the two Lisp escapes; "
         "conventional readers agree wherever they answer. Finding: quoted() does not escape the backslash (fingerprint C18:csv:backslash).",
    technique="Lean 4 proof of reader/writer round trips over regenerated escape tables + differential model/binary check + parser-based oracle",
    ref="DESIGN.md §5 C18")

FS, RS = "\x1f", "\x1e"
PUNCT = "".join(chr(c) for c in range(33, 127) if not chr(c).isalnum())       # the 32 printable ASCII punctuation characters
SPECIAL = "\"\\<>&,'"
SCRIPTS = {
    "ascii": "abcxyzQRS019",
    "latin1": "éüßØñçÅ",
    "greek": "λΩπσ",
    "cyrillic": "ЖдяЩюб",
    "hebrew": "שלום",
    "arabic": "مالحس",
    "devanagari": "रुपया",
    "cjk": "日本語金額帳",
    "emoji": "😀💰🧾",
}
CLASS = {"\\": "backslash", '"': "quote", "<": "lt", ">": "gt", "&": "amp", ",": "comma", "'": "apos", "\n": "newline"}
RESERVED = {"and", "or", "not", "div", "if", "else", "true", "false"}
KINDS = ("payee", "code", "account", "pnote", "xnote", "commodity")


# ---------------------------------------------------------------------------
# field sanitizers: what the journal grammar lets each field hold (textual.cc
# parse_xact 1837-1930, parse_post 1436-1530, item.cc parse_tags 152-230)


def fix(kind, s):
    """The nearest string the grammar accepts verbatim in that field, or None."""
    s = s.replace("\t", " ").replace("\n", " ").replace("\r", " ")
    if kind in ("payee", "account", "pnote", "xnote"):
        s = re.sub(r" {2,}", " ", s)
    if kind == "payee":
        s = s.strip()
    elif kind == "code":
        s = s.replace(")", "")
    elif kind == "account":
        s = s.strip()
        s = re.sub(r":{2,}", ":", s).strip(":").strip()
        s = re.sub(r" ?: ?", ":", s)       # no segment begins or ends with a blank
        while s and s[0] in "([<;*!:= ":
            s = s[1:]
    elif kind in ("pnote", "xnote"):
        s = s.rstrip()
        toks = s.split(" ")
        toks = [t + "x" if t.endswith(":") else t for t in toks]       # `key:` would make metadata, `k::` an expression
        s = " ".join(toks)
        s = re.sub(r"\[(?=[0-9=])", "[x", s)                          # `[2020...]` / `[=...]` are dates
    elif kind == "commodity":
        s = s.replace('"', "").replace("\\", "").strip()               # a backslash in a quoted symbol is an escape of the reader
        if s in RESERVED:
            s = s + "x"
    if not s or not s.strip():
        return None
    return s


def comm_text(sym):
    """(journal text of the symbol, needs a separating blank)"""
    if re.fullmatch(r"[^\W\d_]+", sym) and sym.isascii():
        return sym
    if all(ord(c) >= 128 or c.isalpha() for c in sym):
        return sym
    if sym == "$":
        return sym
    return '"' + sym + '"'


class Post:
    def __init__(self, account, qty=None, dec=0, comm=None, state="", virtual=False, cost=None, notes=None):
        self.account, self.qty, self.dec, self.comm = account, qty, dec, comm
        self.state, self.virtual, self.cost, self.notes = state, virtual, cost, notes or []

    def text(self):
        acct = "(" + self.account + ")" if self.virtual else self.account
        line = "    " + (self.state + " " if self.state else "") + acct
        if self.qty is not None:
            line += "  " + amount_text(self.qty, self.dec, self.comm)
            if self.cost:
                line += " @ " + amount_text(self.cost[0], 0, self.cost[1])
        out = []
        notes = list(self.notes)
        if notes:
            line += "  ;" + notes[0]
            notes = notes[1:]
        out.append(line)
        for n in notes:
            out.append("    ;" + n)
        return out


def amount_text(q, dec, sym):
    n = abs(q) * 10 ** dec
    assert n.denominator == 1
    s = str(n.numerator).rjust(dec + 1, "0")
    num = s if dec == 0 else s[:-dec] + "." + s[-dec:]
    if q < 0:
        num = "-" + num
    t = comm_text(sym)
    if t in ("$", "€", "£"):
        return t + num
    return num + " " + t


class Xact:
    def __init__(self, date, payee, state="", code=None, xnotes=None, posts=None):
        self.date, self.payee, self.state, self.code = date, payee, state, code
        self.xnotes, self.posts = xnotes or [], posts or []

    def text(self):
        state, code = self.state, self.code
        if self.payee[0] in "*!" and not state:
            state = "*"                      # otherwise the first character would be read as the state mark
        if self.payee[0] == "(" and code is None:
            code = "k"                       # otherwise `(...)` would be read as the code
        head = self.date + (" " + state if state else "") + (" (" + code + ")" if code is not None else "") + " " + self.payee
        notes = list(self.xnotes)
        out = [head]
        for n in notes:
            out.append("    ;" + n)
        for p in self.posts:
            out += p.text()
        return out


class Case:
    def __init__(self, xacts, fname="j.dat", args=None, tag=""):
        self.xacts, self.fname, self.args, self.tag = xacts, fname, args or [], tag

    def journal(self):
        out = []
        for x in self.xacts:
            out += x.text()
            out.append("")
        return "\n".join(out) + "\n"


class RawCase(Case):
    def __init__(self, journal, fname="j.dat", args=None, tag="corpus"):
        self._j, self.fname, self.args, self.tag = journal, fname, args or [], tag

    def journal(self):
        return self._j


# ---------------------------------------------------------------------------
# running ledger (bytes in, bytes out)


ENV = {"PATH": "/usr/bin:/bin", "HOME": "/nonexistent", "TZ": "UTC", "LC_ALL": "C"}


def ledger_bytes(args, cwd=None, timeout=60):
    try:
        r = subprocess.run([vflib.LEDGER, "--args-only"] + list(args), stdout=subprocess.PIPE, stderr=subprocess.PIPE,
                           cwd=cwd, env=ENV, timeout=timeout)
        return r.returncode, r.stdout, r.stderr
    except subprocess.TimeoutExpired:
        return None, b"", b"timeout"


EXTRA_COLS = ["filename", "xact.beg_line", "beg_line", "code", "payee", "account", "amount",
              'cleared ? "c" : (pending ? "p" : "n")', 'has_cost ? "1" : "0"', "cost", "note", "xact.note",
              "verif_rational(amount)", "commodity(amount)", 'virtual ? "1" : "0"', "date"]


def reg_format(csv_cols):
    return "".join("%(" + e + ")" + FS for e in list(csv_cols) + EXTRA_COLS) + RS


class Row:
    """one posting as the register shows it"""

    def __init__(self, fields, ncsv):
        self.csv = fields[:ncsv]
        x = fields[ncsv:]
        (self.file, self.xline, self.line, self.code, self.payee, self.account, self.amount, self.state,
         has_cost, cost, self.note, self.xnote, vr, self.commodity, virtual, self.date) = x
        self.cost = cost if has_cost == "1" else None
        self.virtual = virtual == "1"
        # code / notes are optional in ledger; the register prints an absent one and an empty one alike
        # ("" here means: absent or empty; resolve() settles which from the XML report)
        # a posting's own note: `note` is the posting's note followed by the transaction's (post.cc get_note)
        note = self.note
        if note.endswith(self.xnote):
            note = note[:len(note) - len(self.xnote)]
        self.pnote = note
        self.present = {}
        m = re.match(r"A:(-?\d+)/(\d+):\d+:[01]:(.*)$", vr, flags=re.S)
        self.qty = Fraction(int(m.group(1)), int(m.group(2))) if m else None
        self.vr_comm = m.group(3) if m else None


def run_case(case, wd, csv_cols):
    d = os.path.join(wd, case.dir)
    os.makedirs(d, exist_ok=True)
    path = os.path.join(d, case.fname)
    with open(path, "w", encoding="utf-8") as f:
        f.write(case.journal())
    res = {"path": path}
    # --empty: reg/csv/emacs otherwise hide postings whose display amount rounds to zero, which xml still lists
    base = ["-f", path, "--empty"]
    for fmt in ("csv", "xml", "emacs"):
        res[fmt] = ledger_bytes(base + [fmt] + case.args)
    # the same columns through quoted_rfc(), the RFC 4180 quoting function ledger offers for --csv-format
    res["csvrfc"] = ledger_bytes(base + ["csv"] + case.args + ["--csv-format", ",".join("%(quoted_rfc(" + e + "))" for e in csv_cols) + "\\n"])
    res["reg"] = ledger_bytes(base + ["reg"] + case.args + ["--format", reg_format(csv_cols)])
    return res


def parse_reg(out, ncsv):
    text = out.decode("utf-8", "surrogateescape")
    rows = []
    recs = text.split(RS)
    if recs[-1] != "":
        return None
    for rec in recs[:-1]:
        f = rec.split(FS)
        if len(f) != ncsv + len(EXTRA_COLS) + 1 or f[-1] != "":
            return None
        rows.append(Row(f[:-1], ncsv))
    return rows


# ---------------------------------------------------------------------------
# the three readers of the oracle


def opt_ne(reg, got):
    """register value of an optional field vs what a reader found (None = absent)"""
    if reg == "":
        return got not in (None, "")
    return reg != got


def opt_of(r, name):
    """optional field as the emitters see it: None when absent; an empty one counts as present only when the XML report shows it"""
    v = getattr(r, name)
    if v != "":
        return v
    return "" if r.present.get(name) else None


class Fail:
    def __init__(self, fmt, kind, value, got, detail=""):
        self.fmt, self.kind, self.value, self.got, self.detail = fmt, kind, value, got, detail

    def key(self):
        return (self.fmt, self.kind, self.value)

    def __repr__(self):
        return "Fail(%s,%s,%r -> %r %s)" % (self.fmt, self.kind, self.value, self.got, self.detail)


CSV_KIND = ["date", "code", "payee", "account", "commodity", "quantity", "state", "note"]


def csv_dialect(name):
    if name == "rfc":
        return dict(delimiter=",", quotechar='"', doublequote=True, strict=True)
    return dict(delimiter=",", quotechar='"', doublequote=False, escapechar="\\", strict=True)


def csv_parse_line(line, dialect):
    try:
        recs = list(csv.reader([line], **csv_dialect(dialect)))
    except csv.Error as e:
        return None, str(e)
    if len(recs) != 1:
        return None, "%d records on one line" % len(recs)
    return recs[0], ""


def disp_account(r):
    return "(" + r.account + ")" if r.virtual else r.account


def as_fraction(s):
    try:
        return Fraction(s)
    except (ValueError, ZeroDivisionError):
        return None


CSV_COLS = None       # the column expressions of the shipped format (from Gen.csvColumns), set by Runner


def py_join(s):
    """report.cc fn_join, restated: a newline becomes backslash-n, nothing else changes"""
    return s.replace("\n", "\\n")


def expected_row(r, cols):
    """What each csv column must hold, computed WITHOUT evaluating the column's own expression: from the
    plain accessors the register printed (`%(date)`, `%(code)`, `%(payee)`, `%(account)` + `virtual`,
    `%(commodity(amount))`, `verif_rational(amount)`, the state flags, `%(note)`).  Entries: ("eq", text),
    ("qty", Fraction) or ("same", text) for a column this oracle has no independent reading of."""
    out = []
    for j, e in enumerate(cols):
        ex = re.sub(r"\s+", "", e)
        if ex == "date":
            out.append(("eq", r.date))
        elif ex == "code":
            out.append(("eq", r.code))
        elif ex == "payee":
            out.append(("eq", r.payee))
        elif ex == "display_account":
            out.append(("eq", disp_account(r)))
        elif ex == "commodity(scrub(display_amount))":
            out.append(("eq", r.commodity))
        elif ex == "quantity(scrub(display_amount))" and r.qty is not None:
            out.append(("qty", r.qty))
        elif ex == 'cleared?"*":(pending?"!":"")':
            out.append(("eq", {"c": "*", "p": "!", "n": ""}[r.state]))
        elif ex == "join(note|xact.note)":
            out.append(("eq", py_join(r.note)))       # `note` of a posting already ends with the transaction's note (post.cc get_note)
        else:
            out.append(("same", r.csv[j]))
    return out


def raw_row(r, cols):
    """the raw values of the columns, as the model's `ledgerCsvRecord` takes them (the note before join())"""
    out = []
    for j, (how, v) in enumerate(expected_row(r, cols)):
        ex = re.sub(r"\s+", "", cols[j])
        if ex == "join(note|xact.note)":
            out.append(r.note)
        elif how == "qty":
            out.append(r.csv[j])
        else:
            out.append(v)
    return out


def joined_row(r, cols):
    return [r.csv[j] if how == "qty" else v for j, (how, v) in enumerate(expected_row(r, cols))]


def oracle_csv(out, rows, dialect, fmt="csv", cols=None):
    fails = _oracle_csv(out, rows, dialect, cols or CSV_COLS)
    for f in fails[0]:
        f.fmt = fmt
    return fails


def _oracle_csv(out, rows, dialect, cols):
    fails = []
    try:
        text = out.decode("utf-8")
    except UnicodeDecodeError as e:
        fs = [Fail("csv", "document", "", None, "not UTF-8: %s" % e)]
        for r in rows:
            for j, (how, w) in enumerate(expected_row(r, cols)):
                if how != "qty" and nontrivial(w):
                    fs.append(Fail("csv", kind_of_col(j), w, None, "document is not UTF-8: %s" % e))
        return fs, None
    lines = text.split("\n")
    if lines[-1] != "":
        fails.append(Fail("csv", "document", "", None, "output does not end with a newline"))
    lines = lines[:-1] if lines and lines[-1] == "" else lines
    parsed_all = []
    if len(lines) != len(rows):
        fails.append(Fail("csv", "document", "", None, "%d lines for %d postings" % (len(lines), len(rows))))
    for i, r in enumerate(rows):
        if i >= len(lines):
            break
        rec, err = csv_parse_line(lines[i], dialect)
        parsed_all.append(rec)
        want = expected_row(r, cols)
        texts = [w for how, w in want if how != "qty"]
        if rec is None or len(rec) != len(want):
            # the record is not readable as a whole: blame the fields in turn (localised later)
            for j, (how, w) in enumerate(want):
                if how != "qty" and nontrivial(w):
                    fails.append(Fail("csv", kind_of_col(j), w, None, "record unreadable (%s): %s" % (err or "%d fields" % len(rec or []), lines[i])))
            if not any(nontrivial(w) for w in texts):
                fails.append(Fail("csv", "record", lines[i], None, err))
            continue
        for j, (g, (how, w)) in enumerate(zip(rec, want)):
            if how == "qty":
                if as_fraction(g) != w:
                    fails.append(Fail("csv", "quantity", str(w), g, "register quantity; line: " + lines[i]))
            elif g != w:
                fails.append(Fail("csv", kind_of_col(j), w, g, "line: " + lines[i]))
            # and against the same expression evaluated by the register (two reports of one value must agree)
            if how != "qty" and g != r.csv[j] and g == w:
                fails.append(Fail("csv", kind_of_col(j), r.csv[j], g, "register evaluates %s differently; line: %s" % (cols[j], lines[i])))
    return fails, parsed_all


def kind_of_col(j):
    return CSV_KIND[j] if j < len(CSV_KIND) else "col%d" % j


def txt(e):
    return "" if e is None or e.text is None else e.text


def oracle_xml(out, rows):
    fails = []
    try:
        root = ET.fromstring(out)
    except ET.ParseError as e:
        return [Fail("xml", "document", "", None, "not well-formed: %s" % e)], None
    got = []
    tx = root.find("transactions")
    for t in (tx.findall("transaction") if tx is not None else []):
        date = txt(t.find("date"))
        payee = txt(t.find("payee"))
        code = t.find("code")
        xnote = t.find("note")
        for p in t.find("postings").findall("posting"):
            acct = p.find("account")
            amt = p.find("post-amount/amount")
            sym = amt.find("commodity/symbol") if amt is not None else None
            pn = p.find("note")
            got.append(dict(date=date, payee=payee, code=None if code is None else txt(code),
                            xnote=None if xnote is None else txt(xnote),
                            account=txt(acct.find("name")) if acct is not None else None,
                            commodity="" if sym is None else txt(sym),
                            quantity=txt(amt.find("quantity")) if amt is not None else None,
                            pnote=None if pn is None else txt(pn),
                            state={"cleared": "c", "pending": "p"}.get(p.get("state"), "n"),
                            virtual=p.get("virtual") == "true"))
    if len(got) != len(rows):
        fails.append(Fail("xml", "document", "", None, "%d postings for %d register rows" % (len(got), len(rows))))
    for g, r in zip(got, rows):
        for kind, w, v in (("date", r.date, g["date"]), ("payee", r.payee, g["payee"]), ("account", r.account, g["account"]),
                           ("commodity", r.commodity, g["commodity"]),
                           ("state", r.state, g["state"]), ("virtual", r.virtual, g["virtual"])):
            if w != v:
                fails.append(Fail("xml", kind, w, v))
        for kind, w, v in (("code", r.code, g["code"]), ("xnote", r.xnote, g["xnote"]), ("pnote", r.pnote, g["pnote"])):
            if opt_ne(w, v):
                fails.append(Fail("xml", kind, w, v))
            r.present[kind] = v is not None
        if r.qty is not None and (g["quantity"] is None or as_fraction(g["quantity"]) != r.qty):
            fails.append(Fail("xml", "quantity", str(r.qty), g["quantity"]))
    return fails, root


class SexpError(Exception):
    pass


def sexp_read(text):
    """Minimal Lisp reader: lists, strings (backslash escapes the next
    character), atoms. Returns the list of top-level forms."""
    pos = 0
    n = len(text)
    stack = [[]]
    while pos < n:
        c = text[pos]
        if c in " \n\t\r":
            pos += 1
        elif c == "(":
            stack.append([])
            pos += 1
        elif c == ")":
            if len(stack) == 1:
                raise SexpError("unbalanced `)` at %d" % pos)
            top = stack.pop()
            stack[-1].append(top)
            pos += 1
        elif c == '"':
            pos += 1
            buf = []
            while True:
                if pos >= n:
                    raise SexpError("unterminated string")
                ch = text[pos]
                if ch == "\\":
                    if pos + 1 >= n:
                        raise SexpError("dangling backslash")
                    buf.append(text[pos + 1])
                    pos += 2
                elif ch == '"':
                    pos += 1
                    break
                else:
                    buf.append(ch)
                    pos += 1
            stack[-1].append(("s", "".join(buf)))
        else:
            j = pos
            while j < n and text[j] not in " \n\t\r()\"":
                j += 1
            stack[-1].append(("a", text[pos:j]))
            pos = j
    if len(stack) != 1:
        raise SexpError("%d unclosed `(`" % (len(stack) - 1))
    return stack[0]


def group_rows(rows):
    groups = []
    for r in rows:
        if groups and groups[-1][0].xline == r.xline and groups[-1][0].file == r.file:
            groups[-1].append(r)
        else:
            groups.append([r])
    return groups


def date_secs(d):
    y, m, dd = [int(x) for x in d.split("/")]
    return calendar.timegm((y, m, dd, 0, 0, 0))


def oracle_emacs(out, rows):
    fails = []
    try:
        text = out.decode("utf-8")
    except UnicodeDecodeError as e:
        return [Fail("emacs", "document", "", None, "not UTF-8: %s" % e)], None
    try:
        forms = sexp_read(text)
    except SexpError as e:
        # localise: every non-trivial field is a suspect
        fs = [Fail("emacs", "document", "", None, "not a balanced s-expression: %s" % e)]
        for r in rows:
            for kind, v in (("payee", r.payee), ("code", r.code), ("account", r.account), ("pnote", r.pnote), ("amount", r.amount),
                            ("file", r.file), ("cost", r.cost or "")):
                if nontrivial(v):
                    fs.append(Fail("emacs", kind, v, None, "document unreadable: %s" % e))
        return fs, None
    groups = group_rows(rows)
    if not rows:
        if forms:
            fails.append(Fail("emacs", "document", "", None, "output for an empty report"))
        return fails, forms
    if len(forms) != 1 or not isinstance(forms[0], list):
        return [Fail("emacs", "document", "", None, "expected one top-level list, found %d forms" % len(forms))], forms
    xs = forms[0]
    if len(xs) != len(groups):
        fails.append(Fail("emacs", "document", "", None, "%d transactions for %d in the register" % (len(xs), len(groups))))

    def sval(x):
        if isinstance(x, tuple) and x[0] == "s":
            return x[1]
        if x == ("a", "nil"):
            return None
        return ("?", x)

    for x, g in zip(xs, groups):
        r0 = g[0]
        if not isinstance(x, list) or len(x) < 5:
            fails.append(Fail("emacs", "document", "", None, "malformed transaction form"))
            continue
        hdr = [("file", r0.file, sval(x[0])), ("xline", ("a", r0.xline), x[1]),
               ("payee", r0.payee if r0.payee != "" else None, sval(x[4]))]
        if opt_ne(r0.code, sval(x[3])):
            fails.append(Fail("emacs", "code", r0.code, sval(x[3])))
        d = x[2]
        try:
            secs = int(d[0][1]) * 65536 + int(d[1][1])
            if secs != date_secs(r0.date) or d[2] != ("a", "0"):
                fails.append(Fail("emacs", "date", r0.date, str(d)))
        except Exception:
            fails.append(Fail("emacs", "date", r0.date, str(d)))
        for kind, w, v in hdr:
            if w != v:
                fails.append(Fail("emacs", kind, w, v))
        posts = x[5:]
        if len(posts) != len(g):
            fails.append(Fail("emacs", "document", "", None, "%d postings for %d in the register" % (len(posts), len(g))))
        for p, r in zip(posts, g):
            if not isinstance(p, list) or len(p) < 4:
                fails.append(Fail("emacs", "document", "", None, "malformed posting form"))
                continue
            st = {"n": ("a", "nil"), "c": ("a", "t"), "p": ("a", "pending")}[r.state]
            extras = ([r.cost] if r.cost is not None else []) + ([r.pnote] if r.pnote != "" else [])
            got_extras = [sval(e) for e in p[4:]]
            for kind, w, v in (("line", ("a", r.line), p[0]), ("account", r.account, sval(p[1])),
                               ("amount", r.amount, sval(p[2])), ("state", st, p[3])):
                if w != v:
                    fails.append(Fail("emacs", kind, w, v))
            if got_extras != extras and not (r.pnote == "" and got_extras == extras + [""]):
                for e in extras:
                    fails.append(Fail("emacs", "pnote", e, got_extras))
                if not extras:
                    fails.append(Fail("emacs", "pnote", "", got_extras))
    return fails, forms


def nontrivial(s):
    return isinstance(s, str) and (any(c in s for c in '"\\<>&,') or any(ord(c) > 127 for c in s))


# ---------------------------------------------------------------------------
# driver encoding


def enc(s):
    return ".".join(str(ord(c)) for c in s)


def dec(s):
    return "".join(chr(int(t)) for t in s.split(".")) if s else ""


def enc_list(l):
    return "".join(enc(s) + "," for s in l)


def enc_opt(s):
    return "-" if s is None else enc(s)


def enc_doc(groups):
    xs = []
    for g in groups:
        r0 = g[0]
        secs = date_secs(r0.date)
        hdr = ",".join([enc(r0.file), r0.xline, str(secs // 65536), str(secs % 65536), enc_opt(opt_of(r0, "code")), enc(r0.payee)])
        posts = [",".join([r.line, enc(r.account), enc(r.amount), r.state, enc_opt(r.cost), enc_opt(opt_of(r, "pnote"))]) for r in g]
        xs.append(";".join([hdr] + posts))
    return "|".join(xs)


XML_LEAF = ("payee", "code", "note", "name", "fullname", "symbol", "quantity", "date", "string", "tag")
XML_RE = re.compile(r"<(%s)>([^<]*)</\1>|<(%s)/>" % ("|".join(XML_LEAF), "|".join(XML_LEAF)))


def xml_leaves(text, root):
    """[(tag, raw inner text, text as ElementTree decoded it)] in document order"""
    raw = [(m.group(1) or m.group(3), m.group(2) or "") for m in XML_RE.finditer(text)]
    els = [(e.tag, e.text or "") for e in root.iter() if e.tag in XML_LEAF and len(e) == 0]
    if len(raw) != len(els) or any(a[0] != b[0] for a, b in zip(raw, els)):
        return None
    out = [(a[0], a[1], b[1]) for a, b in zip(raw, els)]
    # attribute values of <value key="..."> (metadata keys): same escaping function in boost's writer
    araw = re.findall(r'<value key="([^"]*)"', text)
    aels = [e.get("key") for e in root.iter("value") if e.get("key") is not None]
    if len(araw) != len(aels):
        return None
    return out + [("@key", a, b) for a, b in zip(araw, aels)]


# ---------------------------------------------------------------------------
# generators


def gen_word(rng, script=None):
    script = script or rng.choice(list(SCRIPTS))
    return "".join(rng.choice(SCRIPTS[script]) for _ in range(rng.randint(1, 5))), script


def gen_field(rng, kind, ctx=None):
    for _ in range(20):
        parts = []
        for i in range(rng.choice([1, 2, 2, 3, 3, 4, 6])):
            r = rng.random()
            if r < 0.45:
                w, sc = gen_word(rng)
                parts.append(w)
                if ctx:
                    ctx.feature("script:" + sc)
            elif r < 0.88:
                p = rng.choice(SPECIAL) if rng.random() < 0.6 else rng.choice(PUNCT)
                parts.append(p * rng.choice([1, 1, 1, 2, 3]))
            else:
                parts.append(" ")
        s = fix(kind, "".join(parts))
        if s:
            return s
    return "w"


COMMS = ["$", "EUR", "€", "A&B", "<c>", "x,y", "it's", "Ünï €", "日本", "a>b", "P&L <net>", "1a"]
ARGS = [[], [], [], ["--real"], ["-l", "amount>0"], ["--cleared"], ["--uncleared"]]
FNAMES = ["j.dat", "j.dat", 'q"uo\\te.dat', "p(ar)en.dat", "Жд 日.dat", "a&b<c>.dat"]


def gen_amount(rng, comm=None):
    comm = comm if comm is not None else rng.choice(COMMS)
    dec_ = rng.choice([0, 1, 2, 2, 3])
    q = Fraction(rng.randint(1, 99999), 10 ** dec_) * rng.choice([1, 1, 1, -1])
    return q, dec_, comm


def gen_date(rng):
    return "%04d/%02d/%02d" % (rng.randint(1971, 2037), rng.randint(1, 12), rng.randint(1, 28))


def make_xact(rng, payee, code=None, xnotes=None, accounts=None, pnotes=None, comm=None, allow_virtual=True, allow_cost=True):
    accounts = list(accounts or [])
    pnotes = list(pnotes or [])
    q, d, c = gen_amount(rng, comm)
    posts = []

    def acct():
        return accounts.pop(0) if accounts else rng.choice(["Assets:Cash", "Expenses:Food", "Income:Job", "Liabilities:Card"])

    def pn():
        if pnotes:
            return [" " + pnotes.pop(0)]
        return []
    pstate = rng.choice(["", "", "", "*", "!"])
    cost = None
    if allow_cost and rng.random() < 0.1:
        cost = (Fraction(rng.randint(1, 9)), rng.choice(["CHF", "GBP"]))
    posts.append(Post(acct(), q, d, c, state=pstate, cost=cost, notes=pn()))
    if rng.random() < 0.3:
        q2, d2, _ = gen_amount(rng, c)
        posts.append(Post(acct(), q2, d2, c, notes=pn()))
    if allow_virtual and rng.random() < 0.15:
        q3, d3, c3 = gen_amount(rng)
        posts.append(Post(acct(), q3, d3, c3, virtual=True, notes=pn()))
    posts.append(Post(acct(), notes=pn()))
    while accounts:                                      # leftover accounts of the sweep: extra balanced pairs
        q4, d4, _ = gen_amount(rng, c)
        posts.insert(0, Post(accounts.pop(0), q4, d4, c, notes=pn()))
    return Xact(gen_date(rng), payee, state=rng.choice(["", "", "*", "!"]), code=code, xnotes=[" " + n for n in (xnotes or [])], posts=posts)


def sweep_fields(ctx):
    """bounded-exhaustive part: every punctuation character at the start, at the
    end, in the middle, doubled and alone, and every script next to the special
    characters, in every kind of field"""
    out = {k: [] for k in KINDS}
    for kind in KINDS:
        seen = set()
        for p in PUNCT:
            for pos, s in (("start", p + "ab"), ("end", "ab" + p), ("mid", "a" + p + "b"), ("dbl", "a" + p + p + "b"), ("alone", p),
                           ("dblend", "ab" + p + p), ("dblstart", p + p + "ab")):
                f = fix(kind, s)
                if f is None:
                    ctx.feature("sweep-impossible:%s" % kind)
                    continue
                if f != s:
                    ctx.feature("sweep-adjusted:%s" % kind)
                if f not in seen:
                    seen.add(f)
                    out[kind].append(f)
        for sc, letters in SCRIPTS.items():
            for s in (letters, letters[:2] + '"' + letters[2:], "\\" + letters[:3], letters[:3] + "\\", "<" + letters[:2] + "&" + letters[2:4] + ">",
                      letters[:2] + "," + letters[:1] + "'"):
                f = fix(kind, s)
                if f and f not in seen:
                    seen.add(f)
                    out[kind].append(f)
        # the witnesses of C18.csv_roundtrip_false and some classics
        for s in ("a\\", 'a\\"b', '\\"', '"', '""', "\\\\", 'say "hi", ok', "a\\nb", "x\\", "&amp;", "&lt;b&gt;", "]]>", "<!--", "&#32;", "a;b", "a ;b",
                  "(", ")", "((", "))", ') "', '\\")', "nil", "t"):
            f = fix(kind, s)
            if f and f not in seen:
                seen.add(f)
                out[kind].append(f)
    return out


def sweep_cases(ctx, rng):
    f = sweep_fields(ctx)
    ctx.extra_cov["sweep_fields"] = {k: len(v) for k, v in f.items()}
    xacts = []
    pay, cod, acc, pno, xno, com = (list(f[k]) for k in KINDS)
    while pay or cod or acc or pno or xno or com:
        payee = pay.pop(0) if pay else "p"
        code = cod.pop(0) if cod else None
        xn = [xno.pop(0)] if xno else []
        if xno and rng.random() < 0.3:
            xn.append(xno.pop(0))
        accounts = [acc.pop(0) for _ in range(min(len(acc), 3))]
        pnotes = [pno.pop(0) for _ in range(min(len(pno), 2))]
        comm = com.pop(0) if com else None
        xacts.append(make_xact(rng, payee, code, xn, accounts, pnotes, comm, allow_virtual=False, allow_cost=False))
    cases = []
    for i in range(0, len(xacts), 4):
        cases.append(Case(xacts[i:i + 4], fname=FNAMES[(i // 4) % len(FNAMES)], tag="sweep"))
    return cases


def boundary_cases():
    """empty, blank and one-character fields; absent payee; amounts without commodity;
    each special character as a whole field; long runs of one special character"""
    js = []
    js.append("2020/01/02 ()\n    ;\n    A  5\n    B  -5  ; \n")
    js.append("2020/01/03\n    A:b  1 EUR  ;  \n    ;   x\n    B\n")
    js.append("2020/01/04 ( ) p\n    A  1 EUR\n    B\n")
    js.append("2020/01/05 (  ) p\n    ;\n    ;\n    A  1 EUR  ;\n    ;\n    B\n")
    js.append("2020/01/06 * () \"\n    \"  1 \"<\"  ;\"\n    \\\n")
    js.append("2020/01/07 ! (\\) \\\n    \\  1 \"&\"  ;\\\n    &  ;&\n")
    for ch in SPECIAL:
        for n in (1, 2, 3, 17):
            v = ch * n
            for kind in ("payee", "code", "account", "pnote", "xnote"):
                if fix(kind, v) == v:
                    c = single_case(kind, v)
                    js.append(c.journal())
    # every script in the posting note, the transaction note, both; one line and several lines; next to the
    # characters join()/quoted() treat specially (the csv note column is the only field that goes through join())
    for sc, letters in SCRIPTS.items():
        w1, w2, w3 = letters, letters[::-1], letters[:2] + " " + letters[2:]
        variants = [
            ([], [w1]), ([w1], []), ([w2], [w1]),                                   # posting / transaction / both
            ([], [w1, w2]), ([w1, w3], []), ([w1, w2], [w3, w1]),                   # several lines
            ([], [w1 + ',"' + w2]), ([w1 + "'<&>"], [w2 + "\\n"]), ([], ["n" + w1, w2 + "n"]),
        ]
        for xn, pn in variants:
            if any(fix("xnote", v) != v for v in xn) or any(fix("pnote", v) != v for v in pn):
                continue
            x = Xact("2020/01/02", "p", xnotes=[" " + v for v in xn],
                     posts=[Post("A:b", Fraction(5), 0, "EUR", notes=[" " + v for v in pn]), Post("C:d")])
            js.append(Case([x]).journal())
    cases = [RawCase(j, tag="boundary") for j in js]
    # the same special-character runs with options that change which postings are shown
    cases.append(RawCase(js[0] + "\n" + js[5], args=["--real"], tag="boundary"))
    cases.append(RawCase(js[4] + "\n" + js[5], args=["-l", "amount>0"], tag="boundary"))
    cases.append(RawCase("", tag="boundary"))                       # empty journal: empty reports
    cases.append(RawCase(js[5], args=["^nomatch"], tag="boundary"))  # query matching nothing
    return cases


def fix_key(s):
    s = re.sub(r"[\s:]", "", s)
    if not s or s.casefold() in ("payee",):
        return None
    return s


def metadata_cases(rng, ctx, n):
    """transaction notes that set metadata (`; KEY: VALUE`) and tags (`; :T1:T2:`) with special
    characters in keys, values and tags: they reach the XML report as attribute values and <string>/<tag> text"""
    cases = []
    for i in range(n):
        metas, tags, lines = {}, set(), []
        for _ in range(rng.randint(1, 3)):
            k = fix_key(gen_field(rng, "code", ctx))
            v = fix("pnote", gen_field(rng, "pnote", ctx))
            if not k or not v or k.casefold() in {x.casefold() for x in metas} or len(k) < 1:
                continue
            v = v.strip()
            if not v:
                continue
            metas[k] = v
            lines.append(" %s: %s" % (k, v))
        ts = [fix_key(gen_field(rng, "code", ctx)) for _ in range(rng.randint(0, 3))]
        ts = [t for t in ts if t and t.casefold() not in {x.casefold() for x in metas}]
        if ts:
            tags = set(ts)
            lines.append(" :" + ":".join(ts) + ":")
        if not lines:
            continue
        x = Xact(gen_date(rng), "p", xnotes=lines, posts=[Post("A:b", Fraction(5), 0, "EUR"), Post("C:d")])
        c = Case([x], tag="metadata")
        c.meta, c.tags = metas, tags
        cases.append(c)
    return cases


def oracle_metadata(case, root):
    """the transaction's metadata as the XML report shows it vs what the journal says"""
    fails = []
    md = root.find("transactions/transaction/metadata")
    got, gtags = {}, set()
    if md is not None:
        for v in md.findall("value"):
            st = v.find("string")
            got[v.get("key")] = None if st is None else (st.text or "")
        gtags = {t.text or "" for t in md.findall("tag")}
    want = dict(case.meta)
    # a later note line can turn an earlier tag into a key and vice versa only through equal names: excluded by the generator
    if {k.casefold(): v for k, v in got.items()} != {k.casefold(): v for k, v in want.items()}:
        fails.append(Fail("xml", "metadata", json.dumps(want, ensure_ascii=False), json.dumps(got, ensure_ascii=False)))
    if {t.casefold() for t in gtags} != {t.casefold() for t in case.tags}:
        fails.append(Fail("xml", "tags", json.dumps(sorted(case.tags), ensure_ascii=False), json.dumps(sorted(gtags), ensure_ascii=False)))
    return fails


def random_case(rng, ctx, big=False):
    xs = []
    for _ in range(rng.randint(1, 8 if big else 4)):
        payee = gen_field(rng, "payee", ctx)
        code = gen_field(rng, "code", ctx) if rng.random() < 0.5 else None
        xn = [gen_field(rng, "xnote", ctx) for _ in range(rng.choice([0, 0, 1, 1, 2]))]
        accounts = [gen_field(rng, "account", ctx) for _ in range(rng.choice([1, 2, 2, 3]))]
        pnotes = [gen_field(rng, "pnote", ctx) for _ in range(rng.choice([0, 1, 1, 2]))]
        comm = fix("commodity", gen_field(rng, "commodity", ctx)) if rng.random() < 0.5 else None
        xs.append(make_xact(rng, payee, code, xn, accounts, pnotes, comm))
    return Case(xs, fname=rng.choice(FNAMES), args=rng.choice(ARGS), tag="random")


def single_case(kind, value):
    """one transaction holding `value` in the field `kind`, everything else plain"""
    payee, code, xn, acct, pn, comm = "p", None, [], "A:b", [], "EUR"
    if kind == "payee":
        payee = value
    elif kind == "code":
        code = value
    elif kind in ("xnote",):
        xn = [value]
    elif kind == "account":
        acct = value
    elif kind in ("pnote", "note"):
        pn = [value]
    elif kind == "commodity":
        comm = value
    else:
        return None
    posts = [Post(acct, Fraction(5), 0, comm, notes=pn), Post("C:d")]
    return Case([Xact("2020/01/02", payee, code=code, xnotes=xn, posts=posts)], tag="single")


# ---------------------------------------------------------------------------


class Runner:
    def __init__(self, ctx, wd, csv_cols, dialect):
        self.ctx, self.wd, self.csv_cols, self.dialect = ctx, wd, csv_cols, dialect
        self.n = 0
        global CSV_COLS
        CSV_COLS = list(csv_cols)

    def run(self, cases):
        for c in cases:
            c.dir = "c%05d" % self.n
            self.n += 1
        return vflib.pmap(lambda c: run_case(c, self.wd, self.csv_cols), cases)

    def evaluate(self, case, res):
        """(rows, fails, parsed) for one executed case; rows None = the register itself failed"""
        rc, out, err = res["reg"]
        if rc != 0:
            return None, [], {}
        rows = parse_reg(out, len(self.csv_cols))
        if rows is None:
            return None, [], {}
        fails = []
        parsed = {}
        for fmt, fn in (("csv", lambda o: oracle_csv(o, rows, self.dialect)), ("xml", lambda o: oracle_xml(o, rows)),
                        ("emacs", lambda o: oracle_emacs(o, rows)), ("csvrfc", lambda o: oracle_csv(o, rows, "rfc", "csvrfc"))):
            rc2, o, e = res[fmt]
            if rc2 != 0:
                fails.append(Fail(fmt, "document", "", None, "exit status %s: %s" % (rc2, e.decode("utf-8", "replace")[:300])))
                continue
            fl, p = fn(o)
            fails += fl
            parsed[fmt] = p
        return rows, fails, parsed

    def fails_in_isolation(self, fmt, kind, value):
        case = single_case(kind, value)
        if case is None:
            return None
        res = self.run([case])[0]
        rows, fails, _ = self.evaluate(case, res)
        if rows is None:
            return None
        fl = [f for f in fails if f.fmt == fmt]
        return (case, res, fl) if fl else None


def classes(s):
    out = set()
    for c in s:
        if c in CLASS:
            out.add(CLASS[c])
        elif ord(c) > 127:
            out.add("nonascii")
        elif not c.isalnum() and c != " ":
            out.add("punct")
    return out


def shrink_field(runner, fmt, kind, value):
    """delta-debug the characters of a field that fails in isolation"""
    cur = value
    best = runner.fails_in_isolation(fmt, kind, cur)
    if best is None:
        return None
    n = 2
    steps = 0
    while len(cur) >= 2 and steps < 60:
        chunk = max(1, len(cur) // n)
        reduced = False
        for i in range(0, len(cur), chunk):
            cand = cur[:i] + cur[i + chunk:]
            if not cand or fix(kind if kind != "note" else "pnote", cand) != cand:
                continue
            steps += 1
            r = runner.fails_in_isolation(fmt, kind, cand)
            if r is not None:
                cur, best = cand, r
                n = max(n - 1, 2)
                reduced = True
                break
        if not reduced:
            if chunk == 1:
                break
            n = min(len(cur), n * 2)
    return cur, best


def isolatable(f):
    """(field kind, value as it can be written into a one-transaction journal) or (kind, None)"""
    fk = {"note": "pnote"}.get(f.kind, f.kind)
    if not (isinstance(f.value, str) and f.value and fk in KINDS):
        return fk, None
    v = f.value
    if fk == "account" and v.startswith("(") and v.endswith(")"):
        v = v[1:-1]
    if fk in ("pnote", "xnote"):
        v = v.split("\n")[0]
        if v.startswith(" "):
            v = v[1:]
    if fk == "commodity":
        v = v.strip('"')
    if not v or fix(fk, v) != v:
        return fk, None
    return fk, v


def report_failures(ctx, runner, failures):
    """failures: list of (case, res, Fail).  Localise: every distinct (report, field kind, set of special
    character classes) is tried alone in a one-transaction journal and delta-debugged there; a failure that only
    shows in its original journal is reported with that journal unless another, localised failure of the same
    report of the same journal already explains it."""
    by_key = {}
    for case, res, f in failures:
        fk, v = isolatable(f)
        cls = frozenset(classes(f.value)) if isinstance(f.value, str) and f.value else None
        by_key.setdefault((f.fmt, fk, cls, v is not None), []).append((case, res, f, v))
    established = {}
    explained = set()
    leftovers = []
    budget = 60
    for key in sorted(by_key, key=lambda k: (k[0], not k[3], len(k[2]) if k[2] is not None else 99, k[1], sorted(k[2] or []))):
        fmt, fk, cls, can_isolate = key
        items = by_key[key]
        if cls is not None and any(c <= cls for c in established.get(fmt, [])):
            for it in items:
                explained.add((id(it[0]), fmt))
            continue
        if not can_isolate:
            leftovers += items
            continue
        done = False
        if budget > 0:
            for case, res, f, v in sorted(items, key=lambda it: len(it[3]))[:2]:
                budget -= 1
                sh = shrink_field(runner, fmt, fk, v)
                if sh is None:
                    continue
                mv, (scase, sres, sfl) = sh
                written = comm_text(mv) if fk == "commodity" else mv      # a quoted commodity symbol includes its quotes
                mcls = sorted(classes(written)) or ["plain"]
                fp = "C18:%s:%s" % (fmt, "+".join(mcls))
                frag = sres[fmt][1].decode("utf-8", "replace")
                ctx.violation(fp, "ledger %s does not round-trip the %s %r: the %s reader gets %r (%s)" %
                              (fmt, fk, mv, runner.dialect + " csv" if fmt == "csv" else ("RFC 4180 csv" if fmt == "csvrfc" else fmt), sfl[0].got, sfl[0].detail),
                              {"journal": scase.journal(), "file": scase.fname, "args": scase.args, "fmt": fmt, "kind": fk, "value": mv,
                               "ledger_wrote": frag[:3000], "read_back": repr(sfl[0].got), "dialect": runner.dialect,
                               "csv_cols": runner.csv_cols, "found_in": case.tag, "shrunk_from": v,
                               "how": "ledger -f FILE --empty %s; parse with the conventional reader; compare with `ledger -f FILE --empty reg --format '%%(%s)'`" % (fmt, fk)})
                established.setdefault(fmt, []).append(frozenset(classes(written)))
                for it in items:
                    explained.add((id(it[0]), fmt))
                done = True
                break
        if not done:
            leftovers += items
    n = 0
    for case, res, f, v in leftovers:
        if (id(case), f.fmt) in explained or n >= 10:
            continue
        if isinstance(f.value, str) and any(c <= classes(f.value) for c in established.get(f.fmt, [])):
            continue        # same character class as a failure already localised for this report
        n += 1
        fp = "C18:%s:%s:in-context" % (f.fmt, f.kind)
        ctx.violation(fp, "ledger %s output is not faithful for %s %r: %r (%s)" % (f.fmt, f.kind, f.value, f.got, f.detail),
                      {"journal": case.journal(), "file": case.fname, "args": case.args, "fmt": f.fmt, "kind": f.kind,
                       "value": f.value if isinstance(f.value, str) else repr(f.value), "read_back": repr(f.got), "dialect": runner.dialect,
                       "csv_cols": runner.csv_cols, "ledger_wrote": res[f.fmt][1].decode("utf-8", "replace")[:3000]})


def probe_dialect(wd):
    """How does the binary escape a plain quote in csv?  `""` -> RFC 4180, else the backslash dialect."""
    d = os.path.join(wd, "probe")
    os.makedirs(d, exist_ok=True)
    p = os.path.join(d, "j.dat")
    with open(p, "w") as f:
        f.write('2020/01/02 a"b\n    A  1 EUR\n    B\n')
    rc, out, err = ledger_bytes(["-f", p, "--empty", "csv", "^A"])
    line = out.decode("utf-8", "replace")
    if 'a""b' in line:
        return "rfc", line
    return "backslash", line


def model_info():
    ans = vflib.driver_run(["emit.info"])[0].split("\t")
    if ans[0] != "ok":
        return None
    info = dict(a.split("=", 1) for a in ans[1:])
    cols = [dec(x) for x in info["cols"].split(",")[:-1]]
    info["cols"] = cols
    return info


def tie_cases(ctx, runner, executed):
    """model bytes vs ledger bytes, model readers vs Python readers, for every executed case"""
    lines = []
    idx = []      # (case number, what, expected answer or comparison payload)
    for ci, (case, res, rows, parsed) in enumerate(executed):
        if rows is None:
            continue
        for fmt in ("csv", "csvrfc", "emacs", "xml"):
            if res[fmt][0] != 0:
                continue
            try:
                text = res[fmt][1].decode("utf-8")
            except UnicodeDecodeError:
                continue
            if fmt == "csv":
                for r in rows:
                    lines.append("emit.csvrecord\t" + enc_list(raw_row(r, runner.csv_cols)))
                    idx.append((ci, "csvrow", None))
                idx.append((ci, "csv-bytes", (len(rows), text)))
                lines.append("emit.csvread\tledger\t" + enc(text))
                idx.append((ci, "csvread", parsed.get("csv")))
            elif fmt == "csvrfc":
                for r in rows:
                    lines.append("emit.csvrowrfc\t" + enc_list(joined_row(r, runner.csv_cols)))
                    idx.append((ci, "csvrowrfc", None))
                idx.append((ci, "csvrfc-bytes", (len(rows), text)))
                lines.append("emit.csvread\trfc\t" + enc(text))
                idx.append((ci, "csvreadrfc", parsed.get("csvrfc")))
            elif fmt == "emacs":
                lines.append("emit.emacsdoc\t" + enc_doc(group_rows(rows)))
                idx.append((ci, "emacsdoc", text))
                lines.append("emit.sexpscan\t" + enc(text))
                idx.append((ci, "sexpscan", parsed.get("emacs") is not None))
            else:
                root = parsed.get("xml")
                if root is None:
                    continue
                leaves = xml_leaves(text, root)
                if leaves is None:
                    ctx.tie_broken("corr:xml-leaves", "cannot align raw XML leaves with ElementTree's for %s" % res["path"])
                    continue
                for tag, raw, val in leaves:
                    lines.append("emit.xmlesc\t" + enc(val))
                    idx.append((ci, "xmlesc", (tag, raw, val)))
                    lines.append("emit.xmlunesc\t" + enc(raw))
                    idx.append((ci, "xmlunesc", (tag, raw, val)))
    # idx has one extra marker per csv case ("csv-bytes") that has no driver line: split them out
    driver_idx = [i for i in idx if not i[1].endswith("-bytes")]
    assert len(driver_idx) == len(lines)
    ans = vflib.driver_run(lines) if lines else []
    bad = set()
    csvrows = {}
    csvrowsrfc = {}
    for (ci, what, payload), a in zip(driver_idx, ans):
        case = executed[ci][0]
        where = "%s [%s]" % (executed[ci][1]["path"], what)
        if what == "csvrow":
            csvrows.setdefault(ci, []).append(dec(a[3:]) if a.startswith("ok\t") else None)
        elif what == "csvrowrfc":
            csvrowsrfc.setdefault(ci, []).append(dec(a[3:]) if a.startswith("ok\t") else None)
        elif what == "csvreadrfc":
            # quoted_rfc documents: the model reader must read every one of them back (C18.csv_rfc_roundtrip)
            want = [joined_row(r, runner.csv_cols) for r in executed[ci][2]]
            got = [[dec(x) for x in row.split(",")[:-1]] for row in a[3:].split(";")[:-1]] if a.startswith("ok\t") else None
            if got != want:
                ctx.tie_broken("corr:emit.csvread-rfc", "model RFC reader does not read ledger's quoted_rfc report back on %s: %r" % (where, a[:200]))
                bad.add(ci)
        elif what == "csvread":
            # the model reader is a restriction of Python's: when it answers, they agree
            if a.startswith("ok\t"):
                got = [[dec(x) for x in row.split(",")[:-1]] for row in a[3:].split(";")[:-1]]
                if payload is not None and None not in payload and got != payload:
                    ctx.tie_broken("corr:emit.csvread", "model reader and Python csv disagree on %s: %r vs %r" % (where, got[:2], payload[:2]))
                    bad.add(ci)
                ctx.feature("model-csvread:ok")
            else:
                ctx.feature("model-csvread:malformed")
                if payload is not None and None not in payload and len(payload) == len(executed[ci][2]) and \
                        all(p == joined_row(r, runner.csv_cols) for p, r in zip(payload, executed[ci][2])):
                    ctx.tie_broken("corr:emit.csvread", "model reader rejects a document Python csv reads back exactly: %s" % where)
                    bad.add(ci)
        elif what == "emacsdoc":
            m = dec(a[3:]) if a.startswith("ok\t") else None
            if m != payload:
                ctx.tie_broken("corr:emit.emacsdoc", "model emacs report differs from ledger's on %s:\nmodel : %r\nledger: %r" % (where, m, payload))
                bad.add(ci)
        elif what == "sexpscan":
            ok = a == "ok\t0"
            if ok != payload:
                ctx.tie_broken("corr:emit.sexpscan", "model scanner says %s, Python reader says balanced=%s on %s" % (a, payload, where))
                bad.add(ci)
        elif what == "xmlesc":
            tag, raw, val = payload
            m = dec(a[3:]) if a.startswith("ok\t") else None
            if m != raw:
                ctx.tie_broken("corr:emit.xmlesc", "model writes %r for <%s> %r, ledger wrote %r (%s)" % (m, tag, val, raw, where))
                bad.add(ci)
        elif what == "xmlunesc":
            tag, raw, val = payload
            m = dec(a[3:]) if a.startswith("ok\t") else None
            if m != val:
                ctx.tie_broken("corr:emit.xmlunesc", "model reads %r as %r, ElementTree as %r (%s)" % (raw, m, val, where))
                bad.add(ci)
    for ci, what, payload in idx:
        if what in ("csv-bytes", "csvrfc-bytes"):
            n, text = payload
            m = (csvrows if what == "csv-bytes" else csvrowsrfc).get(ci, [])
            model = "".join(x if x is not None else "<err>" for x in m)
            if model != text:
                ctx.tie_broken("corr:emit.csvrow" + ("rfc" if what != "csv-bytes" else ""),
                               "model csv report differs from ledger's on %s:\nmodel : %r\nledger: %r" %
                               (executed[ci][1]["path"], model[:600], text[:600]))
                bad.add(ci)
    for ci, (case, res, rows, parsed) in enumerate(executed):
        if rows is not None and ci not in bad:
            ctx.traces_validated += 1
    return bad


def malformed_stream(ctx, rng, n):
    """readers on documents that are mostly NOT what ledger writes: the model
    readers are restrictions of the conventional ones, so (model ok => Python
    reads the same) and (Python rejects => model rejects)."""
    lines, meta = [], []
    for i in range(n):
        k = rng.choice(["csv-rfc", "csv-bs", "xml", "sexp"])
        if k.startswith("csv"):
            alpha = ['"', '"', "\\", ",", "\n", "a", "b", " "]
            if rng.random() < 0.5:
                # mutate a well-formed document
                rows = [["".join(rng.choice(alpha) for _ in range(rng.randint(0, 4))) for _ in range(rng.randint(1, 3))] for _ in range(rng.randint(1, 2))]
                if k == "csv-rfc":
                    s = "".join(",".join('"' + f.replace('"', '""') + '"' for f in r) + "\n" for r in rows)
                else:
                    s = "".join(",".join('"' + f.replace("\\", "\\\\").replace('"', '\\"') + '"' for f in r) + "\n" for r in rows)
                if rng.random() < 0.6 and s:
                    j = rng.randrange(len(s))
                    s = s[:j] + rng.choice(["", rng.choice(alpha)]) + s[j + 1:]
            else:
                s = "".join(rng.choice(alpha) for _ in range(rng.randint(0, 12)))
            lines.append("emit.csvread\t%s\t%s" % ("rfc" if k == "csv-rfc" else "backslash", enc(s)))
        elif k == "xml":
            alpha = ["&", "&", ";", "<", ">", "l", "t", "g", "a", "m", "p", "#", "3", "2", "q", "u", "o", "s", " ", '"', "'", "é"]
            s = "".join(rng.choice(alpha + ["&lt;", "&amp;", "&gt;", "&quot;", "&apos;", "&#32;", "&#955;"]) for _ in range(rng.randint(0, 8)))
            lines.append("emit.xmlunesc\t" + enc(s))
        else:
            alpha = ['"', "\\", "(", ")", "a", " ", "\n"]
            s = '"' + "".join(rng.choice(alpha) for _ in range(rng.randint(0, 8)))
            lines.append("emit.sexpstr\t" + enc(s))
        meta.append((k, s))
    ans = vflib.driver_run(lines)
    for (k, s), a in zip(meta, ans):
        ctx.count()
        ctx.feature("malformed:%s:%s" % (k, "ok" if a.startswith("ok") else "rejected"))
        if k.startswith("csv"):
            dl = "rfc" if k == "csv-rfc" else "backslash"
            try:
                py = [r for r in csv.reader(s.splitlines(True), **csv_dialect(dl))]
                # Python folds the line structure itself; feed it the whole text through a line iterator
            except csv.Error:
                py = None
            if a.startswith("ok\t"):
                got = [[dec(x) for x in row.split(",")[:-1]] for row in a[3:].split(";")[:-1]]
                if py is None or py != got:
                    ctx.tie_broken("corr:malformed:" + k, "model reads %r as %r, Python csv (%s) as %r" % (s, got, dl, py))
                else:
                    ctx.traces_validated += 1
            else:
                ctx.traces_validated += 1
        elif k == "xml":
            try:
                py = ET.fromstring("<x>" + s + "</x>")
                pyt = py.text or "" if len(py) == 0 else None
            except ET.ParseError:
                pyt = None
            if a.startswith("ok\t"):
                if pyt is None or pyt != dec(a[3:]):
                    ctx.tie_broken("corr:malformed:xml", "model reads %r as %r, ElementTree as %r" % (s, dec(a[3:]), pyt))
                else:
                    ctx.traces_validated += 1
            else:
                ctx.traces_validated += 1
        else:
            try:
                forms = sexp_read(s)
                # first form must be the string; the rest is whatever follows
                py = forms[0][1] if forms and isinstance(forms[0], tuple) and forms[0][0] == "s" else None
            except SexpError:
                py = "<err>"
            if a.startswith("ok\t"):
                val = dec(a.split("\t")[1])
                # Python's reader may still fail on what FOLLOWS the literal; compare the literal only
                py1 = first_string(s)
                if py1 != val:
                    ctx.tie_broken("corr:malformed:sexp", "model reads %r as %r, Python reader as %r" % (s, val, py1))
                else:
                    ctx.traces_validated += 1
            else:
                ctx.traces_validated += 1


def first_string(s):
    """value of the string literal at the start of s by the Python reader's rules, or None"""
    if not s.startswith('"'):
        return None
    pos, buf = 1, []
    while pos < len(s):
        ch = s[pos]
        if ch == "\\":
            if pos + 1 >= len(s):
                return None
            buf.append(s[pos + 1])
            pos += 2
        elif ch == '"':
            return "".join(buf)
        else:
            buf.append(ch)
            pos += 1
    return None


def load_corpus():
    d = os.path.join(vflib.ROOT, "corpus", "C18")
    out = []
    if os.path.isdir(d):
        for p in sorted(os.listdir(d)):
            if p.endswith(".json"):
                with open(os.path.join(d, p)) as f:
                    out.append(json.load(f))
    return out


def run(tier, seed):
    ctx = Check("C18", tier, seed, trusted=["boost::property_tree XML writer (entity table read from the installed header, behaviour checked by correspondence)",
                                            "Python csv / xml.etree / the S-expression reader of tools/props/c18.py as the conventional readers"])
    ctx.rule = ("journals whose payees, codes, accounts, posting/transaction notes, commodities and file names sweep the 32 ASCII punctuation "
                "characters (start/end/middle/doubled/alone) and nine scripts, then seeded random fields; each case runs csv, xml, emacs and a "
                "register with the same arguments; every field read back by Python's csv / ElementTree / an S-expression reader is compared with "
                "the register and the model's bytes with ledger's; non-trivial = a field holding one of \" \\ < > & , or a non-ASCII character, "
                "read back correctly from all of its reports; distinct by (kind, value)")
    ctx.assumptions = ["fields are taken as ledger's register prints them (a field the journal grammar rewrites is compared as ledger sees it)",
                       "amounts are generated within the commodity's display precision, so printed quantities are exact",
                       "TZ=UTC for the emacs date pair"]
    if not ctx.prepare():
        return ctx.finish()
    rng = ctx.rng
    wd = tempfile.mkdtemp(prefix="c18-")
    try:
        info = model_info()
        if info is None:
            ctx.tie_broken("corr:emit.info", "driver has no emit.info")
            return ctx.finish()
        ctx.extra_cov["model_flags"] = {k: info[k] for k in ("quoter", "faithful", "backslash", "xmlsrc")}
        dialect, probe = probe_dialect(wd)
        ctx.extra_cov["csv_dialect_observed"] = dialect
        want_dialect = "rfc" if info["quoter"] == "quoted_rfc" else "backslash"
        if dialect != want_dialect:
            ctx.tie_broken("corr:csv-dialect", "source says %s, binary writes %r" % (info["quoter"], probe))
        runner = Runner(ctx, wd, info["cols"], dialect)
        cases = []
        for c in load_corpus():
            cases.append(RawCase(c["journal"], c.get("file", "j.dat"), c.get("args", [])))
        # the witnesses of C18.csv_roundtrip_false, replayed on the binary (DESIGN §6 step 4)
        for w in ("a\\", 'a\\"b'):
            c = single_case("payee", w)
            c.tag = "witness"
            cases.append(c)
        cases += boundary_cases()
        cases += sweep_cases(ctx, rng)
        cases += metadata_cases(rng, ctx, 40 if tier == "quick" else 1500)
        n_rand = 500 if tier == "quick" else 12000
        if ctx.ties_broken:
            # search mode (DESIGN §6): a proof obligation / extractor / pinned body broke; widen the stream
            n_rand *= 4
            ctx.extra_cov["search_mode"] = [t[0] for t in ctx.ties_broken]
        for i in range(n_rand):
            cases.append(random_case(rng, ctx, big=(tier != "quick" and i % 10 == 0)))
        failures = []
        n_with_rows = 0
        CH = 400
        for i in range(0, len(cases), CH):
            chunk = cases[i:i + CH]
            executed = []
            for case, res in zip(chunk, runner.run(chunk)):
                rows, fails, parsed = runner.evaluate(case, res)
                # the unit of evaluation is the free-text field (each is read back from csv, xml and emacs and
                # compared on its own); distinct_nontrivial counts fields too
                ctx.count(max(1, sum(1 for r in (rows or []) for v in (r.payee, r.code, r.account, r.pnote, r.xnote, r.commodity, r.file) if v)))
                ctx.feature("journals-run")
                if rows is None:
                    ctx.feature("case:register-failed")
                    ctx.sample({"journal-rejected": case.journal()[:400], "stderr": res["reg"][2].decode("utf-8", "replace")[:300]}, cap=3)
                    executed.append((case, res, None, {}))
                    continue
                ctx.feature("case:" + case.tag)
                ctx.feature("args:" + (" ".join(case.args) or "none"))
                ctx.feature("rows", len(rows))
                if case.fname != "j.dat":
                    ctx.feature("file-name-special")
                executed.append((case, res, rows, parsed))
                if case.tag == "metadata" and parsed.get("xml") is not None:
                    fails = fails + oracle_metadata(case, parsed["xml"])
                    ctx.feature("metadata:keys", len(case.meta))
                    ctx.feature("metadata:tags", len(case.tags))
                    for k in list(case.meta) + list(case.meta.values()) + list(case.tags):
                        if nontrivial(k) and not fails:
                            ctx.nontrivial(("metadata", k))
                failed_keys = {(f.fmt, f.value) for f in fails if isinstance(f.value, str)}
                for f in fails:
                    failures.append((case, res, f))
                doc_failed = {f.fmt for f in fails if f.kind in ("document", "record")}
                for r in rows:
                    for kind, v in (("payee", r.payee), ("code", r.code), ("account", r.account), ("pnote", r.pnote),
                                    ("xnote", r.xnote), ("commodity", r.commodity), ("file", r.file)):
                        if not v:
                            continue
                        for ch in set(v):
                            if ch in PUNCT:
                                ctx.feature("char:%s:%s" % (kind, ch))
                        if nontrivial(v) and not doc_failed and not any((fmt, v) in failed_keys for fmt in ("csv", "csvrfc", "xml", "emacs")) \
                                and not any((fmt, " " + v) in failed_keys for fmt in ("csv", "csvrfc", "xml", "emacs")):
                            ctx.nontrivial((kind, v))
                    if r.cost is not None:
                        ctx.feature("post:cost")
                    if r.virtual:
                        ctx.feature("post:virtual")
                    if r.pnote and "\n" in r.pnote or r.xnote and "\n" in r.xnote:
                        ctx.feature("note:multi-line")
                if len(ctx.samples) < 4 and rows:
                    r = rows[0]
                    ctx.sample({"payee": r.payee, "account": r.account, "csv": res["csv"][1].decode("utf-8", "replace").split("\n")[0],
                                "emacs": res["emacs"][1].decode("utf-8", "replace")[:160]})
            n_with_rows += sum(1 for e in executed if e[2])
            tie_cases(ctx, runner, executed)
            for case, res in zip(chunk, [e[1] for e in executed]):
                shutil.rmtree(os.path.join(wd, case.dir), ignore_errors=True)
        ctx.extra_cov["oracle_failures"] = len(failures)
        ctx.extra_cov["cases_with_rows"] = n_with_rows
        punct_cov = {}
        for k in ("payee", "code", "account", "pnote", "xnote", "commodity"):
            punct_cov[k] = "".join(p for p in PUNCT if ctx.features.get("char:%s:%s" % (k, p)))
        ctx.extra_cov["punctuation_seen_per_field"] = punct_cov
        for k in [k for k in ctx.features if k.startswith("char:")]:
            del ctx.features[k]
        report_failures(ctx, runner, failures)
        malformed_stream(ctx, rng, 600 if tier == "quick" else 20000)
    finally:
        shutil.rmtree(wd, ignore_errors=True)
    return ctx.finish()


def replay(obj):
    r = obj.get("replay", {})
    if "journal" not in r:
        print(json.dumps(obj, indent=1)[:2000])
        return 1
    vflib.ensure_ledger()
    wd = tempfile.mkdtemp(prefix="c18-replay-")
    try:
        dialect, _ = probe_dialect(wd)
        cols = r.get("csv_cols") or ["date", "code", "payee", "display_account", "commodity(scrub(display_amount))",
                                     "quantity(scrub(display_amount))", 'cleared ? "*" : (pending ? "!" : "")', "join(note | xact.note)"]
        case = RawCase(r["journal"], r.get("file", "j.dat"), r.get("args", []))
        case.dir = "r"
        res = run_case(case, wd, cols)
        runner = Runner(None, wd, cols, dialect)
        rows, fails, _ = runner.evaluate(case, res)
        fmt = r.get("fmt")
        print("journal:\n" + r["journal"])
        print("ledger %s now writes:\n%s" % (fmt, res[fmt][1].decode("utf-8", "replace") if fmt in res else ""))
        if rows is None:
            print("register failed:", res["reg"][2].decode("utf-8", "replace"))
            return 1
        fl = [f for f in fails if fmt is None or f.fmt == fmt]
        for f in fl[:10]:
            print("FAIL", f)
        if not fl:
            print("read back correctly (dialect observed: %s)" % dialect)
        return 1 if fl else 0
    finally:
        shutil.rmtree(wd, ignore_errors=True)
